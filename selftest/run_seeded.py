#!/venv/bin/python
"""Run every registered check against every seeded change (on scratch copies, never /repo).

usage: run_seeded.py [--only C05-1,...] [--props C01,C05] [--jobs 16]
Prints one line per seed: which checks flag it (exit 1), which abstain (exit 2).
Output of the checks is namespaced SELFTEST[...] so no VIOLATION line can come from a scratch variant.
"""
import os, sys, json, subprocess, tempfile, shutil, argparse, glob
from concurrent.futures import ThreadPoolExecutor

HERE = os.path.dirname(os.path.abspath(__file__))
VERIF = os.path.dirname(HERE)


def props():
    m = json.load(open(os.path.join(VERIF, "MANIFEST.json")))
    ids = [c["property_id"] for c in m["checks"]]
    if not ids:
        ids = sorted(os.path.basename(p)[:-3] for p in glob.glob(os.path.join(VERIF, "props", "C*.py")))
    return ids


def run_seed(seed, plist, tier):
    d = os.path.join(VERIF, "seeded", seed)
    tmp = tempfile.mkdtemp(prefix="seed_%s_" % seed, dir=os.environ.get("TMPDIR", "/tmp"))
    try:
        shutil.copytree("/repo/dynetx", os.path.join(tmp, "dynetx"), ignore=shutil.ignore_patterns("__pycache__"))
        r = subprocess.run(["patch", "-s", "-p1", "-i", os.path.join(d, "patch.diff")], cwd=tmp, capture_output=True, text=True)
        if r.returncode != 0:
            return seed, None, "patch failed: " + r.stdout + r.stderr
        res = {}
        for p in plist:
            c = subprocess.run([os.path.join(VERIF, "check"), p, "--repo", tmp, "--tier", tier, "--selftest-label", seed],
                               capture_output=True, text=True)
            lines = [l for l in c.stdout.splitlines() if "finding rule=" in l or "ANALYSIS-ERROR" in l]
            res[p] = (c.returncode, lines[:2])
        return seed, res, ""
    finally:
        shutil.rmtree(tmp, ignore_errors=True)


def main():
    ap = argparse.ArgumentParser()
    ap.add_argument("--only", default="")
    ap.add_argument("--props", default="")
    ap.add_argument("--jobs", type=int, default=16)
    ap.add_argument("--tier", default="quick")
    ap.add_argument("-v", action="store_true")
    a = ap.parse_args()
    seeds = sorted(os.listdir(os.path.join(VERIF, "seeded")))
    if a.only:
        seeds = [s for s in seeds if s in a.only.split(",")]
    plist = a.props.split(",") if a.props else props()
    missed = []
    with ThreadPoolExecutor(a.jobs) as ex:
        for seed, res, err in ex.map(lambda s: run_seed(s, plist, a.tier), seeds):
            if res is None:
                print("%-8s ERROR %s" % (seed, err))
                continue
            own = json.load(open(os.path.join(VERIF, "seeded", seed, "meta.json")))["property"]
            hit = [p for p, (rc, _) in res.items() if rc == 1]
            abst = [p for p, (rc, _) in res.items() if rc == 2]
            status = "CAUGHT" if hit else ("ABSTAIN" if abst else "MISSED")
            if not hit:
                missed.append(seed)
            print("%-8s %-8s own=%s flagged_by=%s abstain=%s" % (seed, status, own, ",".join(hit) or "-", ",".join(abst) or "-"))
            if a.v:
                for p, (rc, lines) in res.items():
                    for l in lines:
                        print("      [%s] %s" % (p, l[:220]))
    print("seeds=%d caught=%d not-caught=%s" % (len(seeds), len(seeds) - len(missed), ",".join(missed) or "-"))


if __name__ == "__main__":
    main()
