#!/venv/bin/python
"""Pre-fix variants: for every `fix:` commit of /repo the tree just before it must be flagged by the check of the
property the fix was made for, with at least one finding that disappears at the commit itself.

Trees are exported with `git archive` into scratch directories (never checked out in /repo) and removed afterwards.
"""
import os, sys, json, re, subprocess, tempfile, shutil
from concurrent.futures import ThreadPoolExecutor

HERE = os.path.dirname(os.path.abspath(__file__)); VERIF = os.path.dirname(HERE)


def export(commit, dst):
    os.makedirs(dst)
    p1 = subprocess.Popen(["git", "-C", "/repo", "archive", commit, "dynetx"], stdout=subprocess.PIPE)
    subprocess.check_call(["tar", "-x", "-C", dst], stdin=p1.stdout)
    p1.wait()


def keys(tree, prop):
    out = tempfile.mktemp(suffix=".json")
    c = subprocess.run([os.path.join(VERIF, "check"), prop, "--repo", tree, "--selftest-label", "prefix", "--json-out", out],
                       capture_output=True, text=True)
    if c.returncode == 2 or not os.path.exists(out):
        return None, c.stdout[-300:]
    d = json.load(open(out))
    os.unlink(out)
    return set(d["findings"]), ""


def one(entry):
    m = re.match(r"fixed: property=(C\d+) ([0-9a-f]{7,}) (.*)", entry)
    prop, commit, what = m.group(1), m.group(2), m.group(3)
    tmp = tempfile.mkdtemp(prefix="prefix_%s_" % commit)
    try:
        export(commit + "^", os.path.join(tmp, "before"))
        export(commit, os.path.join(tmp, "after"))
        props = [prop] + re.findall(r"\b(C\d\d)\b", what)
        res = []
        for p in dict.fromkeys(props):
            b, eb = keys(os.path.join(tmp, "before"), p)
            a, ea = keys(os.path.join(tmp, "after"), p)
            if b is None or a is None:
                res.append((p, None, eb or ea))
            else:
                res.append((p, sorted(b - a), ""))
        return commit, prop, what, res
    finally:
        shutil.rmtree(tmp, ignore_errors=True)


def main():
    fixed = json.load(open(os.path.join(VERIF, "known_findings.json")))["fixed"]
    bad = 0
    with ThreadPoolExecutor(8) as ex:
        for commit, prop, what, res in ex.map(one, fixed):
            gone = [(p, g) for (p, g, e) in res if g]
            status = "FLAGGED" if gone else ("ABSTAIN" if all(g is None for (_, g, _) in res) else "NOT-FLAGGED")
            if not gone:
                bad += 1
            print("%s %-11s %s  %s" % (commit, status, prop, what[:90]))
            for p, g in gone[:2]:
                print("      [%s] %d finding(s) present before the fix and gone after it, e.g. %s" % (p, len(g), g[0][:150]))
            for (p, g, e) in res:
                if g is None:
                    print("      [%s] abstained on one of the trees: %s" % (p, e.strip().splitlines()[-1][:160] if e.strip() else ""))
    print("fix commits=%d not-flagged=%d" % (len(fixed), bad))
    return 1 if bad else 0


if __name__ == "__main__":
    sys.exit(main())
