#!/bin/bash
# take_round3.sh C06 ...  : confirm /tmp/r3/out_<P>/mutN and file them as seeded/R3-<P>-N
for p in "$@"; do for i in 1 2 3; do [ -d /tmp/r3/out_$p/mut$i ] && /verif/selftest/confirm_seed.sh /tmp/r3/out_$p/mut$i R3-$p-$i $p; done; done 2>&1 | grep -v "^Preparing\|HEAD is now"
