#!/bin/bash
# take_round5.sh C06 ...  : confirm /tmp/r5/out_<P>/mutN and file them as seeded/R5-<P>-N
for p in "$@"; do q=${p%b}; for i in 1 2 3; do [ -d /tmp/r5/out_$p/mut$i ] && /verif/selftest/confirm_seed.sh /tmp/r5/out_$p/mut$i R5-$p-$i $q; done; done 2>&1 | grep -v "^Preparing\|HEAD is now"
