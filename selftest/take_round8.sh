#!/bin/bash
# take_round8.sh C06 ...  : confirm /tmp/r8/out_<P>/mutN and file them as seeded/R8-<P>-N
for p in "$@"; do q=${p%b}; for i in 1 2 3; do [ -d /tmp/r8/out_$p/mut$i ] && /verif/selftest/confirm_seed.sh /tmp/r8/out_$p/mut$i R8-$p-$i $q; done; done 2>&1 | grep -v "^Preparing\|HEAD is now"
