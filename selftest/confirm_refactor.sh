#!/bin/bash
# confirm_refactor.sh <dir with patch.diff equiv.py notes.md> <name>
# Confirms in a throw-away worktree: patch applies, pinned suite passes, the differential script (ORIG = clean export,
# NEW = patched worktree) reports identical behaviour.  Then files it under selftest/refactors/<name>.
set -u
src=$1; name=$2
wt=$(mktemp -d /tmp/refwt.XXXXXX); orig=$(mktemp -d /tmp/reforig.XXXXXX)
git -C /repo worktree add -q --detach $wt HEAD || exit 3
git -C /repo archive HEAD | tar -x -C $orig
(cd $wt && git apply $src/patch.diff); ap=$?
tests=$(cd $wt && PYTHONPATH=$wt timeout 600 /venv/bin/python -m pytest -q -p no:cacheprovider --timeout=900 -x 2>&1 | tail -1)
(cd /tmp && ORIG=$orig NEW=$wt timeout 900 /venv/bin/python $src/equiv.py >/dev/null 2>&1); eq=$?
git -C /repo worktree remove --force $wt; rm -rf $orig
echo "$name apply=$ap tests='$tests' equiv_exit=$eq"
if [ $ap -eq 0 ] && [ $eq -eq 0 ] && echo "$tests" | grep -q " passed" && ! echo "$tests" | grep -q failed; then
  d=/verif/selftest/refactors/$name; mkdir -p $d; cp $src/patch.diff $src/equiv.py $d/; cp $src/notes.md $d/ 2>/dev/null; echo "  KEPT -> $d"
else echo "  REJECTED"; fi
