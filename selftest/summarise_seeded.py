#!/venv/bin/python
"""Summarise selftest/results_seeded.txt: per property, how many seeded changes are flagged by the property's own check,
how many only by a neighbouring check (and which), how many make the own check abstain, how many are missed."""
import re, sys, collections
path = sys.argv[1] if len(sys.argv) > 1 else "/verif/selftest/results_seeded.txt"
rows = collections.defaultdict(lambda: dict(n=0, own=0, other=0, abstain=0, missed=0, others=collections.Counter(), open=[]))
for ln in open(path):
    m = re.match(r"(\S+)\s+(CAUGHT|ABSTAIN|MISSED)\s+own=(C\d+)\w?\s+flagged_by=(\S+)\s+abstain=(\S+)", ln)
    if not m:
        continue
    sid, verdict, own, flagged, abst = m.groups()
    r = rows[own]
    r["n"] += 1
    fl = [] if flagged == "-" else flagged.split(",")
    if own in fl:
        r["own"] += 1
    elif fl:
        r["other"] += 1
        for c in fl:
            r["others"][c] += 1
    elif verdict == "ABSTAIN":
        r["abstain"] += 1
        r["open"].append(sid)
    else:
        r["missed"] += 1
        r["open"].append(sid)
print("| property | seeds | flagged by its own check | only by another check | abstains | missed | not flagged |")
print("|---|---|---|---|---|---|---|")
tot = collections.Counter()
for own in sorted(rows):
    r = rows[own]
    others = ", ".join("%s×%d" % (c, k) for c, k in r["others"].most_common(4))
    print("| %s | %d | %d | %d%s | %d | %d | %s |" % (own, r["n"], r["own"], r["other"], (" (" + others + ")") if others else "", r["abstain"], r["missed"],
                                              ", ".join(r["open"]) or "—"))
    for k in ("n", "own", "other", "abstain", "missed"):
        tot[k] += r[k]
print("| **all** | %d | %d | %d | %d | %d | |" % (tot["n"], tot["own"], tot["other"], tot["abstain"], tot["missed"]))
