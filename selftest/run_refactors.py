#!/venv/bin/python
"""Silence battery: behaviour-preserving refactorings (selftest/refactors/*/patch.diff) must not be flagged.

Each is applied to a scratch copy of /repo's dynetx; every registered check is run.  exit 1 of a check = FALSE ALARM,
exit 2 = abstention (reported, not an alarm)."""
import os, sys, json, subprocess, tempfile, shutil, argparse, glob
from concurrent.futures import ThreadPoolExecutor
HERE = os.path.dirname(os.path.abspath(__file__)); VERIF = os.path.dirname(HERE)


def props():
    return [c["property_id"] for c in json.load(open(os.path.join(VERIF, "MANIFEST.json")))["checks"]]


def run(name, plist):
    d = os.path.join(HERE, "refactors", name)
    tmp = tempfile.mkdtemp(prefix="ref_%s_" % name)
    try:
        shutil.copytree("/repo/dynetx", os.path.join(tmp, "dynetx"), ignore=shutil.ignore_patterns("__pycache__"))
        r = subprocess.run(["patch", "-s", "-p1", "-i", os.path.join(d, "patch.diff")], cwd=tmp, capture_output=True, text=True)
        if r.returncode != 0:
            return name, None, "patch failed: " + (r.stdout + r.stderr)[:200]
        res = {}
        for p in plist:
            c = subprocess.run([os.path.join(VERIF, "check"), p, "--repo", tmp, "--selftest-label", name], capture_output=True, text=True)
            lines = [l for l in c.stdout.splitlines() if "finding rule=" in l or "ANALYSIS-ERROR" in l]
            res[p] = (c.returncode, lines[:2])
        return name, res, ""
    finally:
        shutil.rmtree(tmp, ignore_errors=True)


def main():
    ap = argparse.ArgumentParser(); ap.add_argument("--only", default=""); ap.add_argument("--props", default=""); ap.add_argument("-v", action="store_true")
    a = ap.parse_args()
    names = sorted(os.listdir(os.path.join(HERE, "refactors")))
    if a.only:
        names = [n for n in names if n in a.only.split(",")]
    plist = [p for p in props() if not a.props or p in a.props.split(",")]
    alarms = absts = 0
    with ThreadPoolExecutor(16) as ex:
        for name, res, err in ex.map(lambda n: run(n, plist), names):
            if res is None:
                print("%-10s ERROR %s" % (name, err)); continue
            al = [p for p, (rc, _) in res.items() if rc == 1]
            ab = [p for p, (rc, _) in res.items() if rc == 2]
            alarms += bool(al); absts += bool(ab)
            print("%-10s %-12s false_alarms=%s abstain=%s" % (name, "FALSE-ALARM" if al else ("abstains" if ab else "silent"), ",".join(al) or "-", ",".join(ab) or "-"))
            if a.v:
                for p, (rc, lines) in res.items():
                    for l in lines[:1]:
                        print("      [%s] %s" % (p, l[:230]))
    print("refactorings=%d with-false-alarm=%d with-abstention=%d" % (len(names), alarms, absts))


if __name__ == "__main__":
    main()
