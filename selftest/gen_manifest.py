#!/venv/bin/python
"""Regenerate MANIFEST.json from the table below (kept in one place so it stays valid)."""
import json, os
HERE = os.path.dirname(os.path.abspath(__file__)); VERIF = os.path.dirname(HERE)
CHECKS = {
 "C01": ('finite-domain abstract interpretation (order types) of add_interaction / has_interaction; symbolic-list interpretation of bulk helpers',
         "Decides for ALL integer timestamps (every order type of the arguments against the pair's last interval, every log shape, both classes, both endpoint orders, empty spans e <= t included) that the stored timeline is the union of the added spans, that the only rejections are the documented ones and that no other exception can escape; that has_interaction answers q in union; that bulk helpers only delegate. Exhaustive over the abstract domain, not a sample.",
         "3.2, 4/C01"),
 "C03": ("order-type abstract interpretation + ownership (taint) analysis + endpoint-convention typing of constructors",
         "Canonical form is re-established by every accepting path of add_interaction for all integers; no other function writes timelines/event log/counters/adjacency (165 functions scanned); library constructors re-add intervals as (start, end+1).",
         "3.2, 3.4, 4/C03"),
 "C04": ("order-type abstract interpretation of the counter update vs the reader's divisor; abstract interpretation of the readers on a concrete-symbolic index and of avg_number_of_nodes on symbolic graphs; purity (taint) rule",
         "Counter multiplicity rule (rise by the reader's divisor exactly on newly present instants) for all integers; temporal_snapshots_ids ascending on an index filled out of order; interactions_per_snapshots = counter/divisor, 0 and no key creation for an uninhabited instant, map form; avg_number_of_nodes = mean of |V_t| over the ids on all presence valuations of a 4-node graph (both classes; both directions of a reciprocal pair and a backward-pointing directed pair varied); observers write nothing.",
         "3.2, 4/C04"),
 "C05": ("order-type abstract interpretation of the event-log writes; abstract interpretation of stream_interactions",
         "Event-log invariant ('+' at run starts, '-' only at run end+1, longer runs closed, one orientation per undirected pair, no foreign keys touched, no KeyError/TypeError) re-established on every path for all integers and all co-located events of other pairs; stream = sorted instants x stored keys. One pinned deviation is listed as a known finding.",
         "3.2, 4/C05"),
 "C07": ('net state change at every raise in the abstract interpretation (event log, timeline heap, nodes, links, counters compared with the pre-state); rejection worlds with an explicit earlier run; interpretation of bulk helpers',
         'In every abstract run that ends in a raise the abstract state equals the pre-state (a write that is taken back exactly is not a trace, one that takes an older event with it is), for all order types and both modes, including rejected calls whose start or vanishing time coincides with an event of an earlier run; bulk helpers apply elements strictly in order through add_interaction, outside try, write nothing themselves and never raise themselves.',
         "3.3 P1, 4/C07"),
 "C08": ("order-type abstract interpretation with edge_removal=False (mutator and presence test)",
         "Accumulative valuation: '+' only for a new pair, never '-', first start immutable, snapshot key {t}, no exception, presence = first_start <= q <= largest id - for all integers.",
         "3.2, 4/C08"),
 "C02": ('abstract interpretation of all 53 query entry points on small symbolic graphs with presence as an uninterpreted predicate (all valuations); mode-consistent materialised timelines for get_node_snapshots; purity (taint) rule',
         "Each query's interpreted answer equals the projection of the static graph of present pairs: filtered through the presence test with the right orientation, every interaction once, nbunch through nbunch_iter (incl. one-shot iterators and unknown nodes), wrappers forward their arguments, both removal modes; counting queries also on shapes with a self-loop (a loop adds two to the degree and is one interaction). Bounded graph shapes (4 nodes). Pinned deviations (directed enumeration de-dup, density(t), self-loop halving) are known findings.",
         "3.6 S1, 4/C02"),
 "C06": ("order-type abstract interpretation of time_slice (both classes and the functional form, through to the method) into a recording result graph, per pair and on 4-node symbolic graphs; endpoint-convention typing; purity",
         "For every order type of the window against a canonical timeline: exactly one add_interaction(u, v, max(a,F), min(b,T)+1) per interval meeting the window, none otherwise, in order; ValueError iff t_to < t_from; default t_to = t_from (a bound that is the literal 0 included); result class; node attributes; source untouched; at graph level (several pairs at once, six windows) the slice holds exactly the presence of the source inside the window, its nodes are the endpoints, node ids are never ordered.",
         "3.2, 4/C06"),
 "C09": ('abstract interpretation of generate_snapshots (canonical timelines), of write_snapshots on k opaque rows into a recording file (k sized from the constants in the writer), of read_snapshots on a recorded binary file, of parse_snapshots on a structural model of text lines, of the open_file wrapper and of make_str (constant propagation); writer/reader table and parameter-flow rules',
         "Structural necessary conditions of the round trip: one row per (interaction, instant), unswapped, requested delimiter; every row shape of the grammar x delimiter x nodetype/timestamptype/keys is skipped or handed to add_interaction as (u, v, t, vanishing e) with the right columns, TypeError on failing conversions; string paths opened by extension and closed, caller's file objects untouched; the file holds the generated rows in order, one per line, written through ONE encoder for the requested encoding (row counts 0..3 and around every size constant of the writer, so a block writer is judged across its block boundary); the reader decodes the stream as a whole in the requested encoding before splitting it into lines; make_str(x) == str(x); modes / path index / delimiter flow. Equality of graphs after a round trip is NOT decided.",
         "3.1, 3.6, 4/C09"),
 "C10": ('abstract interpretation of generate_interactions, of write_interactions / read_interactions on recording files (as C09), of parse_interactions on text-line, two-row and whole event-log models over order types, and of the open_file wrapper; table/flow rules',
         "One row per stream event; a log '+ p' / '- s' is replayed as add(p) and one add(t in [p,p+1], e=s) exactly when s > p (all orderings, both classes); whole logs with reciprocal / interleaved / nested runs (undirected logs also with the '-' rows naming the pair in the other orientation) read back to exactly the presence they describe; every row shape handled as the format demands; file assembly and decoding as C09; tables agree. Equality of graphs/streams after a round trip is NOT decided beyond these clauses.",
         "3.2, 3.6, 4/C10"),
 "C11": ("abstract interpretation of node_link_data (canonical timelines) and of node_link_graph on symbolic data",
         "Writer (called with a caller-chosen id key): directed flag, graph attrs, one entry per node with its id under the requested key, exactly one link per instant of presence, unswapped; make_str(x) == str(x) on attribute keys. Reader: class from the data (argument only as fallback), every node under its id with remaining attrs, one add_interaction per link, graph attrs. JSON equality itself is not decided.",
         "3.1, 3.6, 4/C11"),
 "C16": ('abstract interpretation of the conversions into a recording result graph: per pair over order types, reciprocal branch with interval-set values, and at graph level on 4-node symbolic graphs with both directions of a pair varied; endpoint-convention typing; swallowed-rejection rule; purity',
         "Every stored interval [a,b] is re-added as (a, b+1) with instants (never the stored list objects); all nodes added; graph/node attributes deep-copied; no write to the source; reciprocal=True re-adds exactly the non-empty intersections in increasing order (all order types of 4-6 interval ends); at graph level the presence relation of the result (recorded calls replayed by the specification of add_interaction) equals union / intersection / both directions pair by pair and instant by instant (a self-loop is its own reverse); node ids are never ordered (only hashed / compared for equality). to_directed's single direction and the directed enumeration de-dup are known findings.",
         "3.1, 3.3 P6, 4/C16"),
 "C18": ('abstract interpretation of both parsers and read_ids on a structural model of text lines; compact_timeslot on symbolic timestamps over all orderings',
         'Every row shape of the grammar (valid, 4-column, extra column, short, trailing comment, comment only, empty, bare newline, blanks, padded, no newline) x delimiter None/explicit x nodetype/timestamptype/keys: skipped silently, or exactly one add_interaction with converted/ranked fields of the right columns, or TypeError for a failing conversion; read_ids ranks exactly the time fields of accepted rows; compact_timeslot returns ranks (negative timestamps included when it compares with literals; concrete integer sets as a second opinion when the symbolic run abstains).',
         "3.6, 4/C18"),
 "C19": ("override/blocking closure over the parsed source of the installed networkx (MRO-resolved self-call graph + taint effects); abstract interpretation of the not_implemented decorator applied to every blocked stub; freeze coverage",
         "Every public callable of the MRO that can change adjacency/node structure through self is a timestamped owner or lands on an always-raising override; required-blocked names resolve to always-raising definitions (the decorator evaluated, applied to each stub and called with positional / keyword arguments must raise NetworkXNotImplemented without running the stub); base-class calls go to the direct base and reset both indexes; freeze shadows every mutator not blocked for all graphs. Pinned deviations (freeze vs add_interaction; update(nodes=)) are known findings.",
         "3.5, 4/C19"),
 "C12": ('abstract interpretation of time_respecting_paths (temporal_dag inlined, simple paths computed on the recorded DAG) on symbolic temporal graphs with presence as an uninterpreted predicate; window construction over all orderings',
         'Every returned path is judged against every clause of the statement (non-empty, leaves u, chained, strictly increasing times in the window, each hop present and oriented, no reversal, waiting only through active instants, reaches v, key, no duplicates) on bounded shapes (3-4 nodes, 2-3 stored pairs, ids t+1,t+2,t+4, all presence valuations; walks that return to their source on targeted valuations; directed and undirected); the ids expanded are exactly those in [start,end] for all orderings. Larger graphs and completeness (C13) are not decided.',
         "4/C12"),
 "C13": ("abstract interpretation of time_respecting_paths and all_time_respecting_paths on symbolic temporal graphs, compared with the checker's brute-force enumeration of admissible hop sequences",
         "On bounded shapes (3 nodes, 2-3 stored pairs and 3-cycles through the source, ids t+1,t+2,t+4, every presence valuation, every source, v omitted/given, whole range / inner window; both classes) the set returned with sample=1 equals the set of all hop sequences satisfying the conditions of C12; nothing is returned when u has no interaction at an explicit start; all_time_respecting_paths maps (u,w) for the nodes present at min_t to exactly the per-source result. The sample<1 subset clause and larger graphs are NOT decided.",
         "3.1, 4/C13"),
 "C14": ("abstract interpretation of annotate_paths on generic paths over all orderings (ties) and input permutations; of path_length / path_duration on concrete hop sequences",
         "The five answers equal the argmin sets for every ordering of hop counts, durations and arrival times of three generic paths, in every input order (2197 order types x 6); zero-valued minima covered when the code tests for truth; path_length = hop count and path_duration = last - first time on one- to three-hop sequences (list and tuple form, a self-loop hop, a return to the source).",
         "3.6 S2, 4/C14"),
 "C15": ('abstract interpretation of temporal_dag on symbolic temporal graphs (recording DAG, structured occurrence names) judged clause by clause; prefix (defaults, guard, window; bisect/slices as rank arithmetic) over all orderings',
         'Edge soundness and orientation, s<t except from source occurrences, no edge from an occurrence to itself, sources exact, targets occurrences of v and DAG nodes, waiting only through active instants - on bounded shapes incl. a label that is a prefix of another, a self-loop on the root and non-chronological insertion order of snapshot ids; ValueError exactly for invalid windows; empty DAG without snapshots; window ids exact and ascending for all orderings. Acyclicity follows from these clauses; larger graphs are not decided.',
         "3.2, 4/C15"),
 "C17": ('abstract interpretation of the four inter-event distributions on symbolic event streams and of nine ratio statistics on a symbolic graph with materialised timelines (exact fractions); interval-length typing; purity',
         'Global / per-node (either, source, target) / per-pair distributions equal the gap histograms on streams with ties, equal gaps and an emptied log bucket; coverage, node_contribution, uniformity, node_pair_uniformity, density, pair_density, node_presence equal their definitions on 49 (thorough: 1024) presence valuations of a 4-node graph with seven snapshot ids (runs, holes, nested and staggered runs; |T| differs from the span); edge_contribution measures closed intervals as end-start+1; observers pure. node_density (formula fixed by the pinned suite) and snapshot_density (networkx.density modelled on the slice) likewise; an instant tested for truth is also placed at the literal 0; bounded shapes.',
         "4/C17"),
 "C20": ("abstract interpretation of delta_conformity end to end and of sliding_delta_conformity (with delta_conformity recorded) on symbolic temporal graphs; constant propagation of the float arithmetic on concrete hop distances",
         "On bounded shapes (3 nodes, 2-3 stored pairs, ids 1,2,4, every presence valuation, three windows, uniform / two-valued / all label partitions, alphas 1.0 and 2.5): None iff the window is empty, scores for exactly the nodes present at start per alpha and profile, every score in [-1,1] (also for damping factors that share a '%.2f' key), unchanged under renaming of label values, 1 / 0 under a single shared label; the sliding driver evaluates exactly the windows with t+delta before the last id, forwards its arguments, skips None and stamps t+delta. Renaming of node ids, hierarchies, profile_size>1 and larger graphs are NOT decided.",
         "4/C20"),
}
NA = [
]
def main():
    built = sorted(p[:-3] for p in os.listdir(os.path.join(VERIF, "props")) if p.startswith("C") and p.endswith(".py"))
    checks = []
    for pid in built:
        tech, text, ref = CHECKS[pid]
        checks.append({
            "property_id": pid,
            "quick_cmd": "./check %s --tier quick" % pid,
            "thorough_cmd": "./check %s --tier thorough" % pid,
            "evidence_file": "/verif/evidence/%s.json" % pid,
            "replay_cmd_template": "./check %s --replay {path}" % pid,
            "engine": "sa",
            "level_claimed": {"category": "other", "text": "static analysis: " + text, "design_ref": ref},
            "level_note": "trusted base: Python's ast of /repo's working tree; the abstract semantics of the statement forms listed in sa/absint.py; the hand-written specification tables in sa/merge_check.py and the source-kind tables; assumptions are repeated in each evidence file. Clauses not decided are named in DESIGN.md section 4.",
            "technique": tech + "; syntactic rule on state shared between calls or graphs (mutable defaults, class-level mutables, memoisation on a graph, module-level one-shot iterators)",
        })
    pending = [p for p in ["C%02d" % i for i in range(1, 21)] if p not in built and p not in dict(NA)]
    na = [{"property_id": p, "reason": r} for p, r in NA] + [
        {"property_id": p, "reason": "check under construction in this session (planned static rules in DESIGN.md section 4); not claimed until it is registered"} for p in pending]
    m = {
     "version": 1,
     "setup_cmd": "true",
     "hooks": {"guard": "GIULIOROSSETTI_DYNETX_VERIF",
               "enable": "none needed: every check parses /repo's working tree with ast and never imports or runs dynetx",
               "baseline_off_cmd": "cd /repo && /venv/bin/python -m pytest -ra -q -p no:cacheprovider --timeout=900 --continue-on-collection-errors",
               "source_commits": [], "add_only": True},
     "engines": [{"name": "sa", "path": "/verif/sa", "serves_properties": built,
                  "kind_free_text": "repository-specific static analysers on Python's ast: finite-domain (order-type) abstract interpreter, endpoint-convention typing, ownership/taint, override/blocking closure over the installed networkx source, shape recognisers"}],
     "checks": checks,
     "notes": "static analysis only (no dynetx code is imported or executed by any check); known findings in known_findings.json; seeded changes in seeded/; see DESIGN.md",
     "not_applicable": na,
    }
    json.dump(m, open(os.path.join(VERIF, "MANIFEST.json"), "w"), indent=1)
    print("checks:", built, "n/a:", [x["property_id"] for x in na])
main()
