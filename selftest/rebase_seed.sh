#!/bin/bash
# rebase_seed.sh <seed id> : re-create seeded/<id>/patch.diff against /repo's current HEAD (the seed was cut against an
# older head); works in a throw-away worktree, then re-confirms the seed with confirm_seed.sh
set -u
sid=$1; d=/verif/seeded/$sid
old=$(python3 -c "import json;print(json.load(open('$d/meta.json'))['repo_head'])")
prop=$(python3 -c "import json;print(json.load(open('$d/meta.json'))['property'])")
wt=$(mktemp -d /tmp/rebwt.XXXXXX)
git -C /repo worktree add -q --detach $wt $old || exit 3
(cd $wt && git apply $d/patch.diff && git -c user.name=x -c user.email=x@x commit -qam seed) || { echo "cannot apply on $old"; git -C /repo worktree remove --force $wt; exit 4; }
seedc=$(git -C $wt rev-parse HEAD)
(cd $wt && git checkout -q --detach $(git -C /repo rev-parse HEAD) && git -c user.name=x -c user.email=x@x cherry-pick $seedc >/dev/null 2>&1); rc=$?
if [ $rc -ne 0 ]; then echo "CONFLICT in $wt - resolve by hand:"; (cd $wt && git status --short); exit 5; fi
mkdir -p /tmp/rebout/$sid; (cd $wt && git diff HEAD~1 HEAD) > /tmp/rebout/$sid/patch.diff; cp $d/demo.py /tmp/rebout/$sid/; cp $d/notes.md /tmp/rebout/$sid/ 2>/dev/null
git -C /repo worktree remove --force $wt; git -C /repo worktree prune
/verif/selftest/confirm_seed.sh /tmp/rebout/$sid $sid $prop; rm -rf /tmp/rebout/$sid
