#!/bin/bash
# take_round2.sh C06 ...  : confirm /tmp/wt2/<P>/out/mutN and file them as seeded/R2-<P>-N
for p in "$@"; do for i in 1 2 3; do [ -d /tmp/wt2/$p/out/mut$i ] && /verif/selftest/confirm_seed.sh /tmp/wt2/$p/out/mut$i R2-$p-$i $p; done; done 2>&1 | grep -v "^Preparing\|HEAD is now"
