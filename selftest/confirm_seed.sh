#!/bin/bash
# confirm_seed.sh <dir with patch.diff demo.py notes.md> <seed id> <property>
# Confirms in a throw-away worktree of /repo: demo passes unpatched, patch applies, the
# pinned test-suite still passes with it, demo fails with it.  Then files the seed.
set -u
src=$1; sid=$2; prop=$3
wt=$(mktemp -d /tmp/seedwt.XXXXXX)
git -C /repo worktree add -q --detach $wt HEAD || exit 3
run() { (cd $wt && PYTHONPATH=$wt timeout 300 /venv/bin/python "$@"); }
run $src/demo.py >/dev/null 2>&1; base=$?
(cd $wt && git apply $src/patch.diff); ap=$?
tests=$(run -m pytest -q -p no:cacheprovider --timeout=900 -x 2>&1 | tail -1)
run $src/demo.py >/dev/null 2>&1; mut=$?
head=$(git -C /repo rev-parse --short HEAD)
git -C /repo worktree remove --force $wt
echo "$sid base_demo_exit=$base apply=$ap tests='$tests' mutant_demo_exit=$mut"
if [ $base -eq 0 ] && [ $ap -eq 0 ] && [ $mut -ne 0 ] && echo "$tests" | grep -q " passed" && ! echo "$tests" | grep -q "failed"; then
  d=/verif/seeded/$sid; mkdir -p $d; cp $src/patch.diff $src/demo.py $d/; cp $src/notes.md $d/ 2>/dev/null
  python3 - "$d" "$prop" "$sid" "$tests" "$head" <<'PY'
import json,sys
d,prop,sid,tests,head=sys.argv[1:]
notes=open(d+'/notes.md').read() if __import__('os').path.exists(d+'/notes.md') else ''
json.dump({"seed":sid,"property":prop,"repo_head":head,"needs_to_manifest":notes.strip()[:1500],
  "confirmed":{"demo_unpatched_exit":0,"patch_applies":True,"suite_with_patch":tests,"demo_patched_exit":"non-zero"},
  "ran":["demo.py on a fresh worktree of /repo HEAD (exit 0)","git apply patch.diff","pytest -q -p no:cacheprovider --timeout=900 (pinned suite)","demo.py again (non-zero exit)"]},
  open(d+'/meta.json','w'),indent=1)
PY
  echo "  KEPT -> $d"
else
  echo "  REJECTED"
fi
