#!/bin/bash
# take_round9.sh C06 ...  : confirm /tmp/r9/out_<P>/mutN and file them as seeded/R9-<P>-N
for p in "$@"; do q=${p%b}; for i in 1 2 3; do [ -d /tmp/r9/out_$p/mut$i ] && /verif/selftest/confirm_seed.sh /tmp/r9/out_$p/mut$i R9-$p-$i $q; done; done 2>&1 | grep -v "^Preparing\|HEAD is now"
