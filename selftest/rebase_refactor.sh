#!/bin/bash
# rebase_refactor.sh <name> <old head> : re-create selftest/refactors/<name>/patch.diff against /repo's current HEAD
set -u
name=$1; old=$2; d=/verif/selftest/refactors/$name
wt=$(mktemp -d /tmp/rebwt.XXXXXX)
git -C /repo worktree add -q --detach $wt $old || exit 3
(cd $wt && git apply $d/patch.diff && git -c user.name=x -c user.email=x@x commit -qam refactor) || { echo "cannot apply on $old"; git -C /repo worktree remove --force $wt; exit 4; }
c=$(git -C $wt rev-parse HEAD)
(cd $wt && git checkout -q --detach $(git -C /repo rev-parse HEAD) && git -c user.name=x -c user.email=x@x cherry-pick $c >/dev/null 2>&1); rc=$?
if [ $rc -ne 0 ]; then echo "CONFLICT in $wt - resolve by hand:"; (cd $wt && git status --short); exit 5; fi
mkdir -p /tmp/rebout/$name; (cd $wt && git diff HEAD~1 HEAD) > /tmp/rebout/$name/patch.diff; cp $d/equiv.py /tmp/rebout/$name/; cp $d/notes.md /tmp/rebout/$name/ 2>/dev/null
git -C /repo worktree remove --force $wt; git -C /repo worktree prune
/verif/selftest/confirm_refactor.sh /tmp/rebout/$name $name; rm -rf /tmp/rebout/$name
