#!/bin/bash
# take_round7.sh C06 ...  : confirm /tmp/r7/out_<P>/mutN and file them as seeded/R7-<P>-N
for p in "$@"; do q=${p%b}; for i in 1 2 3; do [ -d /tmp/r7/out_$p/mut$i ] && /verif/selftest/confirm_seed.sh /tmp/r7/out_$p/mut$i R7-$p-$i $q; done; done 2>&1 | grep -v "^Preparing\|HEAD is now"
