"""C01 - interaction presence is exactly the union of the spans that were added."""
from sa.core import Repo, Report, CLASSES
from sa.delegation import check_delegation
from . import common

EXPLANATION = ("static analysis: add_interaction and has_interaction/__presence_test of both classes are interpreted "
               "abstractly over every order type of the time arguments relative to the pair's last interval "
               "(finite domain, no concrete values, no solver) and compared with the specification 'timeline = "
               "union of added spans'; bulk helpers are interpreted over symbolic node lists and must reach "
               "add_interaction with the idiom's pairs and the caller's t/e")


def run(repo: Repo, tier, rep: Report):
    mcs = common.merge(repo, tier)
    common.merge_obligations(rep, mcs, "merge = union, documented rejections only, no other exception")
    for cls, mc in mcs.items():
        common.take(rep, mc, "O.add_interaction", lambda f: not common.is_accumulative(f) and (
            f["clause"].startswith("C01.") or f["clause"] in ("C03.timeline", "C03.shared")))
    pcs = common.presence(repo, tier)
    for cls, pc in pcs.items():
        rep.ob("O.has_interaction", pc.construct, "answer = (q in union of intervals) on %d order types" % pc.n_ordertypes)
        rep.floor("order types (%s.has_interaction)" % cls, pc.n_ordertypes, 500)
        rep.stats["abstract_runs"] = rep.stats.get("abstract_runs", 0) + pc.n_runs
        common.take(rep, pc, "O.has_interaction", lambda f: f["clause"] == "C01.query")
        for s in pc.samples[:2]:
            rep.sample(dict(engine="O", construct=pc.construct, **s))

    def add(clause, construct, key, msg, wit, line=0):
        if clause.startswith("C01."):
            rep.finding("D.bulk/" + clause, construct, key, msg, line=line, witness=wit)
    n, samples = check_delegation(repo, add)
    rep.ob("D.bulk", "bulk helpers (2 classes + function.py)", "delegation decided for %d (helper, size, e) instances" % n)
    rep.floor("bulk helper instances", n, 40)
    for s in samples[:2]:
        rep.sample(dict(engine="D", **s))
    rep.assume(*common.MERGE_ASSUMPTIONS)
    rep.assume("query side: timelines of 1..3 (thorough: 4) intervals; the presence loop treats every interval alike",
               "node identity: hashable ids with ordinary == (exotic __eq__/__hash__ not modelled)")
