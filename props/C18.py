"""C18 - readers skip noise rows; timestamp compaction is an order-preserving bijection."""
from sa.core import Repo, Report, EDGELIST
from . import common

EXPLANATION = ("static analysis of the two parsers and read_ids against the format tables: the comment is cut "
               "(find / p >= 0 / slice) before strip().split(delimiter); the field-count filter of the format (< 3, "
               "resp. != 4) skips a row before its columns are popped in table order; nodetype / timestamptype are "
               "applied inside try blocks that re-raise TypeError and no comparison touches a time column before its "
               "conversion; with keys every time column is remapped after conversion and before add_interaction; "
               "read_ids applies the same cut/strip/split/filter and collects exactly the time columns of the format; "
               "compact_timeslot is {v: i for i, v in enumerate(sorted(X))}")


def run(repo: Repo, tier, rep: Report):
    from sa.fileformat import check_file_format, check_compact_timeslot
    n = check_file_format(repo, rep, "snapshots", parts=("reader", "parser"))
    n += check_file_format(repo, rep, "interactions", parts=("reader", "parser"))
    n += check_compact_timeslot(repo, rep)
    rep.floor("parser rule instances", n, 45)
    for o in rep.obligations[:4]:
        rep.sample(dict(engine="S3", rule=o.rule, construct=o.construct, what=o.what))
    rep.assume("format tables (columns, field counts) are taken from the docstrings and the property statement",
               "str.find / strip / split semantics; a strictly increasing map onto 0..k-1 is what enumerate(sorted(set)) yields")
