"""C18 - readers skip noise rows; timestamp compaction is an order-preserving bijection."""
from sa.core import Repo, Report, EDGELIST
from . import common

EXPLANATION = ("static analysis: parse_snapshots, parse_interactions and read_ids are interpreted abstractly on a structural "
               "model of text lines (fields as symbolic tokens, surrounding blanks, trailing newline, comment marker at "
               "column 0 or after the fields; find / slice / len / strip / split(delimiter[, maxsplit]) modelled for "
               "delimiter=None and an explicit delimiter; conversions are opaque callables that may fail with an arbitrary "
               "exception; the graph is a recording object).  For every row shape of the grammar x delimiter x nodetype / "
               "timestamptype / keys given or not the outcome must be: skipped silently, or exactly one add_interaction "
               "with the converted / ranked fields of the right columns, or TypeError when a conversion fails; read_ids "
               "must rank exactly the time fields of the rows the parser accepts; compact_timeslot is interpreted on "
               "three symbolic timestamps in every order (incl. negative ones when it compares with literals) and must "
               "return their ranks"
               ";  a commented-out valid row is one of the row shapes; a converted field or a rank that is 0 is also explored as falsy; compact_timeslot falls back to concrete integer sets (negative, multi-digit) when the symbolic run leaves the interpreted fragment - a violation found there stands, silence does not decide; no state shared between calls (P7)")


def run(repo: Repo, tier, rep: Report):
    from sa.line_model import check_parser, check_read_ids, check_compact_timeslot
    from sa.fileformat import check_file_format
    n = check_parser(repo, rep, "snapshots") + check_parser(repo, rep, "interactions")
    rep.floor("parser cases interpreted", n, 200)
    m = check_read_ids(repo, rep)
    rep.floor("read_ids files interpreted", m, 4)
    k = check_compact_timeslot(repo, rep)
    rep.floor("compact_timeslot cases", k, 30)
    check_file_format(repo, rep, "snapshots", parts=("reader",))
    check_file_format(repo, rep, "interactions", parts=("reader",))
    rep.stats["exhaustive"] = True
    rep.assume("row grammar: valid / 4-column / extra column / short / trailing comment / comment only / empty / bare newline / "
               "blanks only / padded / no newline; the comment marker is a single token not contained in a field",
               "str.find / strip / split semantics as modelled in sa/line_model.py; one row at a time (rows are independent)")
