"""C16 - directed/undirected conversion preserves presence and isolates the copy."""
from sa.core import Repo, Report, CLASSES, DYNDIGRAPH
from sa.ownership import check_purity
from sa.kinds import check_kinds
from . import common

EXPLANATION = ("static analysis: to_directed and the plain branch of to_undirected are interpreted abstractly over a "
               "canonical source timeline: the recording result must receive add_interaction(u, v, a, b+1) for every "
               "stored interval [a, b] (instants, never the stored list objects), every node, and deep copies of the "
               "graph and node attributes, outside any try, without writing the source; the reciprocal branch is "
               "interpreted with two timelines (u->v and v->u, 1..2 intervals each) using interval-set values for "
               "set(range(..)) / & / sorted / len, over every order type of the four to six interval ends: the spans "
               "re-added must be exactly the non-empty intersections, in increasing order; its handler must be narrow; finally "
               "all three conversions are interpreted on 4-node symbolic graphs with concrete canonical timelines over "
               "t+1..t+3 (both directions of a reciprocal pair varied exhaustively) and the presence relation of the "
               "recorded result (calls replayed by the specification of add_interaction) is compared pair by pair and "
               "instant by instant with union / intersection / both-directions"
               ";  a self-loop is its own reverse; node ids are never ordered (only hashed and compared for equality); an unspecified set order is walked both ways; no state shared between calls or graphs (P7)")


def run(repo: Repo, tier, rep: Report):
    # graph level first (it follows rewrites the per-pair interpretation cannot, e.g. a replay of the stream); findings of either
    # stand when the other abstains
    from sa.core import AnalysisError
    from sa.conv_graph import check_conversions_on_graphs
    pending = None
    try:
        rep.floor("graph-level conversion runs", check_conversions_on_graphs(repo, rep, tier), 300)
    except AnalysisError as ex:
        pending = ex
    cc = common.ctor(repo, tier)
    common.take_ctor(rep, cc, ("C16.",))
    if pending is not None:
        raise pending
    rep.ob("O.conversions", "DynGraph.to_directed / DynDiGraph.to_undirected", "interval re-adds, nodes, deepcopy, purity decided")
    rep.floor("order types (constructors)", cc.n_ordertypes, 1000)
    for s in [s for s in cc.samples if "to_" in s["function"]][:3]:
        rep.sample(dict(engine="O", **s))
    n = check_kinds(repo, rep, functions={"to_directed", "to_undirected"})
    rep.floor("typed sinks in the conversions", n, 0)
    from sa.idioms import check_swallowed_rejections
    check_swallowed_rejections(repo, rep, functions={"to_directed", "to_undirected"})

    def addp(rule, construct, key, msg, line=0):
        rep.finding(rule, construct, key, msg, line=line)
    check_purity(repo, addp, only={"to_directed", "to_undirected"})
    from sa.query_check import check_enumeration_dependency
    check_enumeration_dependency(repo, rep, common.enumeration_users(repo, ['to_directed', 'to_undirected']))
    rep.assume(*common.CTOR_ASSUMPTIONS)
    rep.assume("graph level: 4-node shapes (reciprocal A<->B, B->C, C->A, isolated D; path A-B-C + D), instants t+1..t+3 plus two "
               "sentinel instants; the recorded calls are replayed by the specification of add_interaction (C01), not by its code")
    rep.assume("reciprocal branch: timelines of 1..2 intervals per direction (thorough: 2x2); the scan order of the node pairs is a choice")
