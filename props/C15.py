"""C15 - temporal_dag is acyclic, sound and window-respecting (structural clauses)."""
from sa.core import Repo, Report
from sa.paths_check import check_temporal_dag_window, check_path_discipline

EXPLANATION = ("static analysis: temporal_dag is interpreted abstractly on symbolic temporal graphs (3-4 node roles incl. a label that is a prefix of another, snapshot ids t+1, t+2, t+4, presence of every pair at every id an uninterpreted predicate, all valuations; occurrence names as structured values; the DAG a recording object) and judged clause by clause: edge soundness and orientation, s < t except from source occurrences, sources exact, targets occurrences of v and nodes of the DAG, waiting only through instants with a neighbour.  In addition the prefix of temporal_dag (defaults, ValueError guard, construction of the id window) is "
               "interpreted abstractly over every ordering of start, end, first id, last id and a generic id (bisect / slices "
               "modelled by rank arithmetic): it must raise exactly for windows not inside [first, last] or with start > end, "
               "return an empty DAG for a graph without snapshots, and iterate exactly the ids inside the window in "
               "ascending order; in the expansion loop the neighbours are asked at, and occurrences stamped with, the loop's "
               "snapshot id, occurrence names are matched exactly and expiry depends on neighbors(.., tid) only.  Source / "
               "target set exactness and acyclicity over runtime graph contents are not decided")


def run(repo: Repo, tier, rep: Report):
    from sa.core import AnalysisError
    from sa.absint import NeedZero
    from sa.dag_interp import check_dag_and_paths
    pending = None
    try:
        k = check_dag_and_paths(repo, rep, tier, which=("dag",))
        rep.floor("interpreted DAG constructions", k, 500)
    except (AnalysisError, NeedZero) as ex:
        pending = ex           # the expansion left the interpreted fragment: the other rules still get their say
    # the window construction over all orderings of start / end / first id / last id
    try:
        n = check_temporal_dag_window(repo, rep)
        rep.floor("order types (temporal_dag window)", n, 100)
    except AnalysisError as ex:
        if pending is None and not rep.findings:
            raise
        pending = pending or ex
    if pending is not None:
        try:
            check_path_discipline(repo, rep, which=("dag",))
        except AnalysisError:
            pass
        if not rep.findings:
            raise pending if isinstance(pending, AnalysisError) else AnalysisError("a comparison with a literal could not be placed")
        rep.stats["incomplete"] = str(pending)
    rep.stats["exhaustive"] = True
    rep.assume("ids are ints; hop order follows id order because the loop visits ids ascending and adds frontier nodes after each id")
