"""C15 - temporal_dag is acyclic, sound and window-respecting (structural clauses)."""
from sa.core import Repo, Report
from sa.paths_check import check_temporal_dag_window, check_path_discipline

EXPLANATION = ("static analysis: the prefix of temporal_dag (defaults, ValueError guard, construction of the id window) is "
               "interpreted abstractly over every ordering of start, end, first id, last id and a generic id (bisect / slices "
               "modelled by rank arithmetic): it must raise exactly for windows not inside [first, last] or with start > end, "
               "return an empty DAG for a graph without snapshots, and iterate exactly the ids inside the window in "
               "ascending order; in the expansion loop the neighbours are asked at, and occurrences stamped with, the loop's "
               "snapshot id, occurrence names are matched exactly and expiry depends on neighbors(.., tid) only.  Source / "
               "target set exactness and acyclicity over runtime graph contents are not decided")


def run(repo: Repo, tier, rep: Report):
    n = check_temporal_dag_window(repo, rep)
    rep.floor("order types (temporal_dag window)", n, 100)
    m = check_path_discipline(repo, rep, which=("dag",))
    rep.floor("expansion-loop rule instances", m, 5)
    rep.stats["exhaustive"] = True
    rep.assume("ids are ints; hop order follows id order because the loop visits ids ascending and adds frontier nodes after each id")
