"""C10 - interaction-list files replay the event stream and round-trip presence (structural clauses)."""
from sa.core import Repo, Report, CLASSES, EDGELIST
from sa.kinds import check_kinds
from sa.ownership import check_purity
from . import common

EXPLANATION = ("static analysis; equality of graphs after a round trip is not claimed.  Decided: generate_interactions "
               "(interpreted) emits one row 'u v op t' per stream event in stream order; the '+' / '-' dispatch of "
               "parse_interactions (interpreted over every order type of the row's time against the pair's last interval) "
               "replays '+' as add_interaction(u, v, t) and '-' at s as add_interaction(u, v, <instant of the last run>, "
               "e=s) exactly when s lies after the last end; writer/reader/parser tables agree (columns u v op t, exactly "
               "4 fields, comment/strip/split order, conversions, rank map, decorator modes, delimiter and encoding flow); "
               "stream_interactions itself is decided under C05"
               ";  whole event logs (reciprocal, interleaved and nested runs; undirected logs also with the '-' rows in the other orientation; an instant tested for truth also placed at the literal 0) are read back to exactly the presence they describe; file assembly (row counts sized from the writer's constants, one encoder) and decoding (one stream, then lines) as C09; make_str(x) == str(x); no state shared between calls (P7)")


def run(repo: Repo, tier, rep: Report):
    from sa.writers_interp import check_generate_interactions_order
    for cls in CLASSES:
        check_generate_interactions_order(repo, rep, cls)
    cc = common.ctor(repo, tier)
    common.take_ctor(rep, cc, ("C10.",))
    rep.ob("O.replay", repo.construct(EDGELIST, "parse_interactions"), "'+'/'-' replay decided over order types, both classes")
    rep.ob("O.generate_interactions", repo.construct(EDGELIST, "generate_interactions"), "one row per stream event")
    n = check_kinds(repo, rep, functions={"parse_interactions", "generate_interactions"})
    rep.floor("typed sinks (interaction reader)", n, 0)
    from sa.make_str_check import check_make_str
    check_make_str(repo, rep)
    from sa.fileformat import check_file_format
    from sa.line_model import check_parser, check_decorator
    m = check_file_format(repo, rep, "interactions", parts=("writer", "reader"))
    rep.floor("writer/reader table instances (interactions)", m, 9)
    from sa.writer_file import check_writer_file, check_reader_file
    rep.floor("file assembly: row counts interpreted", check_writer_file(repo, rep, "interactions", tier), 4)
    rep.floor("file decoding: reader runs interpreted", check_reader_file(repo, rep, "interactions"), 2)
    rep.floor("parser cases interpreted", check_parser(repo, rep, "interactions"), 100)
    rep.floor("open_file cases interpreted", check_decorator(repo, rep), 10)

    from sa.core import AnalysisError
    impure = []

    def addp(rule, construct, key, msg, line=0):
        impure.append(construct)
        rep.finding(rule, construct, key, msg, line=line)
    check_purity(repo, addp, only={"stream_interactions"})
    from sa.readers import check_stream

    def adds(rule, construct, key, msg, line=0):
        rep.finding("R.stream/" + rule, construct, key, msg, line=line)
    for cls in CLASSES:
        try:
            check_stream(repo, cls, adds)
        except AnalysisError:
            if not any(cls + ".stream_interactions" in c for c in impure):
                raise
    rep.assume(*common.CTOR_ASSUMPTIONS)
    rep.assume("well-formed logs: each '-' is preceded by a '+' of the same pair (the property's own quantifier)")
