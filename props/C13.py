"""C13 - no time-respecting path is missed (decided on bounded symbolic graphs)."""
from sa.core import Repo, Report

EXPLANATION = ("static analysis: time_respecting_paths(sample=1) (temporal_dag inlined, simple paths computed on the recorded "
               "DAG) is interpreted on symbolic temporal graphs - 3 nodes, 2 stored pairs (thorough: 3), 3-cycles through the "
               "source, a diamond, and a 4-node walk over four ids that passes through the target and returns to it; "
               "snapshot ids t+1, t+2, t+4 with a silent instant, presence of every pair at every id enumerated, every "
               "node as source, v omitted or given, whole range or an inner window - and the returned set is compared with the "
               "brute-force enumeration, by the checker, of all hop sequences that satisfy the conditions of C12; "
               "all_time_respecting_paths (min_t omitted or given) is interpreted on the same graphs and must map every pair "
               "(u, w) of every node u present at min_t to exactly time_respecting_paths(G, u, None, start, end)[(u, w)].  The "
               "emptiness clause is judged for an explicit start.  NOT decided: the subset clause for sample < 1 (numpy sampling) "
               "and graphs larger than the shapes")


def run(repo: Repo, tier, rep: Report):
    from sa.dag_interp import check_completeness
    n = check_completeness(repo, rep, tier)
    rep.floor("interpreted path enumerations compared with the oracle", n, 1500)
    rep.stats["exhaustive"] = False
    rep.assume("node labels contain no '_' (the restriction of C12)",
               "bounded shapes: 3 nodes, 2-3 stored pairs, 3 snapshot ids; the frontier logic of temporal_dag is uniform over nodes and instants",
               "the oracle is the clause list of C12 read as a generator: first hop leaves u, hops chain, times strictly increase in the "
               "window, hops present and oriented, no immediate reversal, waiting only through active instants, last hop reaches v",
               "with start omitted the presence-at-start guard is not judged (the code tests membership in the flattened graph)")
