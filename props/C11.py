"""C11 - JSON node-link data round-trips class, nodes, attributes and presence (structural clauses)."""
from sa.core import Repo, Report, CLASSES, NODELINK
from sa.kinds import check_kinds
from . import common

EXPLANATION = ("static analysis; equality after json round trip is not claimed.  Decided: node_link_data (interpreted "
               "abstractly) records directedness, the graph attributes, one entry {attrs, id} per node of G and exactly "
               "one link {source, target, time} per instant of every interval, unswapped; node_link_graph (interpreted "
               "on symbolic data) builds the class the data names (the argument only when the data does not say), adds "
               "every node under its id with the remaining attributes, and one add_interaction(source, target, time) per link"
               ";  the writer is called with a caller-chosen id key; make_str(x) == str(x) on attribute keys; no state shared between calls (P7)")


def run(repo: Repo, tier, rep: Report):
    cc = common.ctor(repo, tier)
    common.take_ctor(rep, cc, ("C11.",))
    rep.ob("O.node_link_data", repo.construct(NODELINK, "node_link_data"), "link expansion / node entries / flags decided")
    for s in [s for s in cc.samples if "node_link" in s["function"]][:2]:
        rep.sample(dict(engine="O", **s))
    n = check_kinds(repo, rep, functions={"node_link_data", "node_link_graph"})
    rep.floor("typed sinks (node_link)", n, 0)
    from sa.make_str_check import check_make_str
    check_make_str(repo, rep)
    from sa.jsonreader import check_node_link_graph
    check_node_link_graph(repo, rep)
    from sa.query_check import check_enumeration_dependency
    check_enumeration_dependency(repo, rep, common.enumeration_users(repo, ['node_link_data']))
    rep.assume(*common.CTOR_ASSUMPTIONS)
    rep.assume("JSON-serialisability of ids/attributes is a property of the user's values, not of the code")
