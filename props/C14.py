"""C14 - annotate_paths selects exactly the optimal paths for each criterion."""
from sa.core import Repo, Report
from sa.paths_check import check_annotate_paths

EXPLANATION = ("static analysis: annotate_paths is interpreted abstractly on three generic paths whose hop count, duration "
               "and arrival time are symbols; all 13^3 combinations of orderings (ties included) and all 6 input orders are "
               "enumerated (two paths plus the literal 0 when the code tests a value for truth); the five answers must be "
               "exactly the argmin sets, elements of the input; path_length / path_duration are matched structurally"
               ";  path_length / path_duration are interpreted on concrete hop sequences (list and tuple form, a self-loop hop, a single hop); closures bind late as in Python; no state shared between calls (P7)")


def run(repo: Repo, tier, rep: Report):
    n = check_annotate_paths(repo, rep, tier)
    rep.floor("order types (annotate_paths)", n, 500)
    rep.assume("three generic paths cover: unique optimum, two-way and three-way ties, and every relative order of the three "
               "criteria; the loop body is the same for every path", "duplicate paths in the input behave as ties")
