"""C09 - snapshot edge-list files round-trip the presence relation (structural clauses)."""
from sa.core import Repo, Report, CLASSES, EDGELIST
from sa.kinds import check_kinds
from . import common

EXPLANATION = ("static analysis; round-trip *equality* is a runtime relation and is not claimed.  Decided: "
               "generate_snapshots (interpreted abstractly over canonical timelines) emits exactly one row (u, v, x) per "
               "instant x of every interval, unswapped, joined with the requested delimiter; write_snapshots / "
               "read_snapshots / open_file agree on modes, path argument index, encoding and delimiter flow; "
               "parse_snapshots strips comments before splitting, filters short rows before popping u, v, t[, e] in "
               "that order, converts after the split and hands (t, e) to add_interaction as (instant, vanishing time)"
               ";  the writer is interpreted on k opaque rows into a recording file (k = 0..3 and around every size constant in the writer): the file is the rows in order, one per line, through ONE encoder for the requested encoding; the reader hands the parser the file decoded as one stream before it is split into lines; make_str(x) == str(x) (constant propagation); a converted field that is 0 is also explored as falsy; no state shared between calls (P7)")


def run(repo: Repo, tier, rep: Report):
    cc = common.ctor(repo, tier)
    common.take_ctor(rep, cc, ("C09.",))
    rep.ob("O.generate_snapshots", repo.construct(EDGELIST, "generate_snapshots"), "row expansion decided on canonical timelines")
    for s in [s for s in cc.samples if "generate_snapshots" in s["function"]][:2]:
        rep.sample(dict(engine="O", **s))
    n = check_kinds(repo, rep, functions={"generate_snapshots", "parse_snapshots"})
    rep.floor("typed sinks (snapshot reader/writer)", n, 0)
    from sa.make_str_check import check_make_str
    check_make_str(repo, rep)
    from sa.fileformat import check_file_format
    from sa.line_model import check_parser, check_decorator
    m = check_file_format(repo, rep, "snapshots", parts=("writer", "reader"))
    rep.floor("writer/reader table instances (snapshots)", m, 9)
    from sa.writer_file import check_writer_file, check_reader_file
    rep.floor("file assembly: row counts interpreted", check_writer_file(repo, rep, "snapshots", tier), 4)
    rep.floor("file decoding: reader runs interpreted", check_reader_file(repo, rep, "snapshots"), 2)
    rep.floor("parser cases interpreted", check_parser(repo, rep, "snapshots"), 100)
    rep.floor("open_file cases interpreted", check_decorator(repo, rep), 10)
    from sa.query_check import check_enumeration_dependency
    check_enumeration_dependency(repo, rep, common.enumeration_users(repo, ['generate_snapshots']))
    rep.assume(*common.CTOR_ASSUMPTIONS)
    rep.assume("gzip/bz2 openers and Python codecs behave as documented")
