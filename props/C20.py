"""C20 - delta-conformity: skeleton, range, label renaming, uniform labels, sliding driver (bounded symbolic graphs)."""
from sa.core import Repo, Report

EXPLANATION = ("static analysis: delta_conformity is interpreted end to end (all_time_respecting_paths, annotate_paths, the distance "
               "remapping, label frequencies, damped accumulation and normalisation; float arithmetic on the concrete hop distances) on "
               "a 3-node symbolic DynGraph with two stored pairs (thorough: also a triangle), snapshot ids 1, 2, 4, every presence "
               "valuation, three (start, delta) windows, label assignments uniform / two values (thorough: every partition), path "
               "type shortest (thorough: all five), alphas 1.0 and 2.5.  dg.time_slice is not interpreted again (C06): it yields a "
               "view of the same graph cut to the window.  Judged: None iff the window holds no snapshot; one entry per alpha and "
               "profile with scores for exactly the nodes present at start; every score in [-1, 1]; renaming the label values "
               "changes nothing; with one shared label the score is 1 for a node that reaches another node and 0 otherwise.  "
               "sliding_delta_conformity is interpreted with delta_conformity recorded: it is evaluated exactly at the ids t with "
               "t + delta before the last id, with the caller's arguments, None results are skipped, and every score is stamped "
               "t + delta.  NOT decided: invariance under renaming node ids, label hierarchies, profile_size > 1, larger graphs"
               ";  damping factors that share a '%.2f' key; the first snapshot id being the literal 0 (sampling zero pairs yields nothing - the only fact about the sampler that is used); no state shared between calls (P7)")


def run(repo: Repo, tier, rep: Report):
    from sa.conf_interp import check_conformity
    n = check_conformity(repo, rep, tier)
    rep.floor("interpreted conformity computations", n, 300)
    rep.stats["exhaustive"] = False
    rep.assume("time_slice(t_from, t_to) is the presence relation cut to [t_from, t_to] (decided under C06)",
               "snapshot ids are the concrete instants 1, 2, 4: delta_conformity uses hop counts where it means instants "
               "(g.neighbors(v, t_dist[v])), so symbolic ids would not be faithful",
               "label values are opaque and compared by identity; static categorical labels without hierarchies (the property's own restriction)",
               "bounded shapes (3 nodes, 2-3 stored pairs); DynGraph only (the property's quantifier)")
