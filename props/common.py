"""Shared wiring for the per-property checks."""
from __future__ import annotations
from sa.core import Repo, Report, CLASSES, AnalysisError
from sa.ordertype import Undetermined
from sa.merge_check import MergeChecker
from sa.presence_check import PresenceChecker

_cache = {}


def escalate(make, tier):
    """Run make(R) at the lowest resolution that decides every comparison."""
    start = 2 if tier == "quick" else 3
    last = None
    for R in range(start, 6):
        try:
            return make(R), R
        except Undetermined as ex:
            last = ex
    raise AnalysisError("comparisons remain undetermined up to resolution 5 (a time constant larger than 4?)")


def merge(repo: Repo, tier):
    key = ("merge", repo.digest(), tier)
    if key not in _cache:
        out = {}
        for cls in CLASSES:
            mc, R = escalate(lambda R, cls=cls: MergeChecker(repo, cls, R=R).run(), tier)
            out[cls] = mc
        _cache[key] = out
    return _cache[key]


def presence(repo: Repo, tier):
    key = ("presence", repo.digest(), tier)
    if key not in _cache:
        out = {}
        for cls in CLASSES:
            pc, R = escalate(lambda R, cls=cls: PresenceChecker(repo, cls, R=R, max_n=3 if tier == "quick" else 4).run(), tier)
            out[cls] = pc
        _cache[key] = out
    return _cache[key]


def is_accumulative(f):
    return "removal=False" in str(f["witness"]) or f["key"].startswith("accumulative") or "accumulative" in str(f["witness"])


def take(rep: Report, checker, rule_prefix, select, note=""):
    """Copy the findings of an O-engine run that `select(finding)` keeps into the report."""
    n = 0
    for (clause, key), f in sorted(checker.findings.items()):
        if not select(f):
            continue
        n += 1
        rep.finding("%s/%s" % (rule_prefix, clause), checker.construct, key,
                    f["message"] + (" [%d abstract runs]" % f["count"]), line=f["line"], witness=f["witness"])
    return n


def merge_obligations(rep: Report, mcs, what):
    for cls, mc in mcs.items():
        for case, n in sorted(mc.cases_seen.items()):
            rep.ob("O.add_interaction", mc.construct, "%s: case '%s' decided on %d order types" % (what, case, n))
        rep.stats["abstract_runs"] = rep.stats.get("abstract_runs", 0) + mc.n_runs
        rep.stats["order_types"] = rep.stats.get("order_types", 0) + mc.n_ordertypes
        rep.stats["worlds"] = rep.stats.get("worlds", 0) + mc.n_worlds
        rep.stats["resolution_R"] = mc.R
        rep.stats["zero_symbol"] = mc.zero
        rep.floor("order types (%s.add_interaction)" % cls, mc.n_ordertypes, 300)
        for s in mc.samples[:3]:
            rep.sample(dict(engine="O", construct=mc.construct, **s))
    rep.stats["exhaustive"] = True


MERGE_ASSUMPTIONS = [
    "timestamps are Python ints and the t argument is an int (a caller-supplied [start, end] list is not modelled)",
    "the span is non-empty (e > t): the property quantifies over point and interval spans",
    "pre-state of the pair: canonical timeline (C03), event log in its invariant shape; both are re-established "
    "by every accepting row, and nothing but add_interaction writes them (ownership rule)",
    "reachable pre-states include a two-instant run without a closing '-' (known finding) - runs of three or more "
    "instants are closed",
    "Python semantics of dict / defaultdict(int) / range / chained comparison / short-circuit and-or",
    "order types at resolution R decide every comparison x+c1 (op) y+c2 with |c1-c2| < R; comparisons that are "
    "not constant on an order type abort the run (exit 2) and are retried at R+1",
    "a self-loop (u == v) is the sub-case in which both key orientations coincide",
]


def ctor(repo: Repo, tier):
    """All constructor / writer interpretations.  Each sub-check is isolated: a construct outside the interpreted
    fragment in one function makes only the checks that need *that* function abstain (cc.errors)."""
    from sa.ctor_check import CtorChecker, check_generate_interactions, check_reciprocal
    from sa.line_model import check_event_replay, check_event_logs
    key = ("ctor", repo.digest(), tier)
    if key not in _cache:
        def make(R):
            cc = CtorChecker(repo, R=R, max_n=2 if tier == "quick" else 3)
            cc.errors = {}

            def guarded(tag, f, *a, **k):
                try:
                    f(*a, **k)
                except Undetermined:
                    raise
                except AnalysisError as ex:
                    cc.errors[tag] = ex
            for cls in CLASSES:
                guarded("C06", cc.check_time_slice, cls)
                guarded("C06", cc.check_time_slice_functional, cls)
                guarded("C06", cc.check_time_slice_selfloop, cls)
                guarded("C09", cc.check_generate_snapshots, cls)
                guarded("C11", cc.check_node_link_data, cls)
            guarded("C16.to_directed", cc.check_conversion, "DynGraph", "to_directed", "DynDiGraph")
            guarded("C16.to_undirected", cc.check_conversion, "DynDiGraph", "to_undirected", "DynGraph")
            guarded("C16.reciprocal", check_reciprocal, cc,
                    shapes=((1, 1), (1, 2), (2, 1)) if tier == "quick" else ((1, 1), (1, 2), (2, 1), (2, 2)))
            for cls in CLASSES:
                guarded("C10.replay", check_event_replay, cc, cls)
                guarded("C10.log", check_event_logs, cc, cls)
                guarded("C10.rows", check_generate_interactions, cc, cls)
            return cc
        cc, R = escalate(make, tier)
        cc.R = R
        _cache[key] = cc
    return _cache[key]


def take_ctor(rep: Report, cc, prefixes, rule="O.constructors", skip_keys=(), optional=()):
    """Copy findings of the selected clauses; abstain (AnalysisError) when a sub-check the clauses need could not run.
    ``optional`` prefixes contribute findings when available but do not force an abstention."""
    n = 0
    for k, f in sorted(cc.findings.items()):
        if not any(f["clause"].startswith(p) for p in prefixes):
            continue
        if f["key"] in skip_keys:
            continue
        n += 1
        rep.finding("%s/%s" % (rule, f["clause"]), f["construct"], f["key"],
                    f["message"] + (" [%d abstract runs]" % f["count"]), line=f["line"], witness=f["witness"])
    # a sub-check that could not run makes the check incomplete (the findings of the completed ones stand)
    for tag, ex in cc.errors.items():
        if any(tag.startswith(p.rstrip(".")) or p.startswith(tag) for p in prefixes) and not any(
                tag.startswith(o.rstrip(".")) or o.startswith(tag) for o in optional):
            raise ex
    rep.stats["abstract_runs"] = rep.stats.get("abstract_runs", 0) + cc.n_runs
    rep.stats["order_types"] = rep.stats.get("order_types", 0) + cc.n_ordertypes
    rep.stats["resolution_R"] = cc.R
    rep.stats["exhaustive"] = True
    return n


CTOR_ASSUMPTIONS = [
    "source graph: one generic pair (U, V) with a canonical timeline of 1..2 (thorough: 3) intervals - the loop body of "
    "every constructor is the same for each pair and each interval, so first/last(/middle) cover the roles an interval can play",
    "the per-pair enumeration used by the constructors (interactions_iter) is decided under C02; for DynDiGraph it is subject to "
    "the known finding 'cross-direction de-duplication'",
    "add_interaction applied to the recorded (start, vanishing time) arguments is decided under C01/C03",
]


def enumeration_users(repo: Repo, which):
    """qualified construct -> (class, enumeration method) for the constructors / writers in ``which``."""
    from sa.core import DYNGRAPH, DYNDIGRAPH, EDGELIST, NODELINK
    table = {
        "time_slice": [(DYNGRAPH, "DynGraph.time_slice", "DynGraph"), (DYNDIGRAPH, "DynDiGraph.time_slice", "DynDiGraph")],
        "to_directed": [(DYNGRAPH, "DynGraph.to_directed", "DynGraph")],
        "to_undirected": [(DYNDIGRAPH, "DynDiGraph.to_undirected", "DynDiGraph")],
        "generate_snapshots": [(EDGELIST, "generate_snapshots", "DynGraph"), (EDGELIST, "generate_snapshots", "DynDiGraph")],
        "node_link_data": [(NODELINK, "node_link_data", "DynGraph"), (NODELINK, "node_link_data", "DynDiGraph")],
    }
    import ast
    out = {}
    for name in which:
        for rel, qual, cls in table[name]:
            fn = repo.get(rel, qual)
            used = None
            from sa.absint import FUNCTION_INDEX
            bodies, seen = [fn], {fn.name}
            enum_names = ("interactions_iter", "interactions", "out_interactions", "out_interactions_iter")
            own = repo.class_methods(rel, cls) if "." in qual else {}
            for _ in range(3):
                for b in list(bodies):
                    for c in ast.walk(b):
                        if isinstance(c, ast.Call) and isinstance(c.func, ast.Name) and c.func.id in FUNCTION_INDEX and c.func.id not in seen:
                            seen.add(c.func.id)
                            bodies.append(FUNCTION_INDEX[c.func.id][0][1])
                        elif isinstance(c, ast.Call) and isinstance(c.func, ast.Attribute) and isinstance(c.func.value, ast.Name) \
                                and c.func.value.id == "self" and c.func.attr in own and c.func.attr not in enum_names \
                                and c.func.attr.startswith("_") and c.func.attr not in seen:
                            seen.add(c.func.attr)        # a private helper of the same class
                            bodies.append(own[c.func.attr])
            for b in bodies:
                for n in ast.walk(b):
                    if isinstance(n, ast.Call) and isinstance(n.func, ast.Attribute) and n.func.attr in (
                            "interactions_iter", "interactions", "out_interactions", "out_interactions_iter"):
                        used = n.func.attr
                        break
                if used:
                    break
            if used is None and any(isinstance(n, ast.Attribute) and n.attr in ("_adj", "_succ", "adj", "succ", "adjacency") for b in bodies for n in ast.walk(b)):
                continue        # walks the adjacency itself: nothing inherited from the enumeration
            if used is None:
                raise AnalysisError("%s: the enumeration of the source's interactions was not found" % qual)
            out[repo.construct(rel, qual) + ("[G:%s]" % cls if "." not in qual else "")] = (cls, used)
    return out
