"""C12 - every returned time-respecting path is a genuine one (narrow structural clauses)."""
from sa.core import Repo, Report
from sa.paths_check import check_temporal_dag_window, check_path_discipline

EXPLANATION = ("static analysis, narrow: (a) window clause - the snapshot ids expanded are exactly those in [start, end] "
               "(defaults first/last id), decided by abstract interpretation of temporal_dag's prefix over all orderings; "
               "(b) hop times come from the snapshot at which the neighbours were asked; (c) the decoded hop list is filtered "
               "for equal consecutive times and immediate reversals, empty hop lists are dropped before keying, paths are "
               "keyed by (first source, last destination) and de-duplicated; (d) nothing is returned when u is absent at "
               "start.  Chaining, presence of each hop and the waiting condition depend on graph search over runtime data and "
               "are not decided")


def run(repo: Repo, tier, rep: Report):
    n = check_temporal_dag_window(repo, rep)
    rep.floor("order types (temporal_dag window)", n, 100)
    m = check_path_discipline(repo, rep)
    rep.floor("hop-discipline rule instances", m, 10)
    rep.assume("node labels contain no '_' (the property's own restriction)")
