"""C12 - every returned time-respecting path is a genuine one (narrow structural clauses)."""
from sa.core import Repo, Report
from sa.paths_check import check_temporal_dag_window, check_path_discipline

EXPLANATION = ("static analysis: time_respecting_paths (with temporal_dag inlined and all_simple_paths computed on the recorded DAG) is interpreted on symbolic temporal graphs - 2-3 stored pairs, ids t+1, t+2, t+4, presence an uninterpreted predicate over all valuations, u and v fixed or v omitted, whole range or an inner window - and every returned path is judged against every clause of the statement (non-empty, leaves u, chained, strictly increasing times inside the window, each hop present and oriented, no immediate reversal, waiting only through active instants, reaches v, keyed by (first, last), no duplicates).  Completeness is C13 and not claimed.  Also: (a) window clause - the snapshot ids expanded are exactly those in [start, end] "
               "(defaults first/last id), decided by abstract interpretation of temporal_dag's prefix over all orderings; "
               "(b) hop times come from the snapshot at which the neighbours were asked; (c) the decoded hop list is filtered "
               "for equal consecutive times and immediate reversals, empty hop lists are dropped before keying, paths are "
               "keyed by (first source, last destination) and de-duplicated; (d) nothing is returned when u is absent at "
               "start.  Chaining, presence of each hop and the waiting condition depend on graph search over runtime data and "
               "are not decided")


def run(repo: Repo, tier, rep: Report):
    from sa.core import AnalysisError
    from sa.absint import NeedZero
    from sa.dag_interp import check_dag_and_paths
    pending = None
    try:
        k = check_dag_and_paths(repo, rep, tier, which=("paths",))
        rep.floor("interpreted path enumerations", k, 500)
    except (AnalysisError, NeedZero) as ex:
        pending = ex           # the expansion left the interpreted fragment: the other rules still get their say
    # the window construction over all orderings of start / end / first id / last id
    try:
        n = check_temporal_dag_window(repo, rep)
        rep.floor("order types (temporal_dag window)", n, 100)
    except AnalysisError as ex:
        if pending is None and not rep.findings:
            raise
        pending = pending or ex
    if pending is not None:
        try:
            check_path_discipline(repo, rep)
        except AnalysisError:
            pass
        if not rep.findings:
            raise pending if isinstance(pending, AnalysisError) else AnalysisError("a comparison with a literal could not be placed")
        rep.stats["incomplete"] = str(pending)
    rep.assume("node labels contain no '_' (the property's own restriction)")
