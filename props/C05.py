"""C05 - the interaction stream is a chronological, faithful event log of presence."""
from sa.core import Repo, Report, CLASSES
from sa.readers import check_stream
from . import common

EXPLANATION = ("static analysis: the event-log writes of add_interaction are interpreted over all order types, all "
               "pre-state log shapes (run closed / unclosed, other pairs owning an event at the same instant or not, "
               "undirected pair logged under either orientation) and compared with 'one + at every run start, - only "
               "at run end + 1, runs longer than one instant closed'; stream_interactions is interpreted abstractly "
               "(ascending sorted instants, one tuple (u, v, op, t) per stored key); keys are 3-tuples in a dict so a "
               "(pair, op, t) cannot repeat")


def run(repo: Repo, tier, rep: Report):
    mcs = common.merge(repo, tier)
    common.merge_obligations(rep, mcs, "event-log invariant re-established")
    for cls, mc in mcs.items():
        common.take(rep, mc, "O.add_interaction", lambda f: not common.is_accumulative(f) and (
            f["clause"].startswith("C05.") or f["clause"] in ("C01.exception", "C01.state")))

    def add(rule, construct, key, msg, line=0):
        rep.finding("R.stream/" + rule, construct, key, msg, line=line)
    from sa.ownership import check_purity
    from sa.core import AnalysisError
    impure = []

    def addp(rule, construct, key, msg, line=0):
        impure.append(construct)
        rep.finding(rule, construct, key, msg, line=line)
    nq = check_purity(repo, addp, only={"stream_interactions"})
    rep.ob("W2.pure-query", "stream_interactions", "%d stream observers write nothing through self (no cached order)" % nq)
    n = 0
    for cls in CLASSES:
        try:
            n += check_stream(repo, cls, add)
        except AnalysisError:
            # a stream function that already violates purity (e.g. a cache) need not be interpretable
            if not any(cls + ".stream_interactions" in c for c in impure):
                raise
            n += 1
    rep.ob("R.stream", "stream_interactions x2", "stream enumeration shape decided for %d classes" % n)
    rep.floor("stream functions", n, 2)
    rep.assume(*common.MERGE_ASSUMPTIONS)
    rep.assume("insertion order inside one instant is dict order and is not constrained by the property")
