"""C03 - timelines are canonical: sorted, disjoint, non-adjacent closed intervals."""
from sa.core import Repo, Report, CLASSES
from sa.ownership import check_ownership
from . import common

EXPLANATION = ("static analysis: every accepting path of add_interaction (both classes) is interpreted over all order "
               "types and must leave the pair's timeline equal to the canonical union (only the last interval may "
               "change, appended intervals start at least two instants after the last end, both adjacency entries "
               "share one dict); an ownership (taint) analysis over all 160+ production functions shows nothing else "
               "writes a timeline, the event log, the counters or the adjacency; the library's own constructors are "
               "typed by the endpoint-convention checker (closed end + 1 = vanishing time)")


def run(repo: Repo, tier, rep: Report):
    mcs = common.merge(repo, tier)
    common.merge_obligations(rep, mcs, "canonical form re-established")
    for cls, mc in mcs.items():
        common.take(rep, mc, "O.add_interaction", lambda f: not common.is_accumulative(f) and (
            f["clause"] in ("C03.timeline", "C03.shared", "C01.links", "C01.reject")))

    def add(rule, construct, key, msg, line=0):
        rep.finding(rule, construct, key, msg, line=line)
    nfn, nsites = check_ownership(repo, add)
    rep.ob("W1.owner", "all production functions", "%d functions scanned, %d write sites to temporal stores, all in the owner table" % (nfn, nsites))
    rep.floor("production functions scanned", nfn, 120)
    rep.floor("temporal write sites", nsites, 30)
    rep.sample(dict(engine="W", rule="W1.owner", functions=nfn, write_sites=nsites))
    cc = common.ctor(repo, tier)
    # constructors feeding non-canonical spans are reported here too when their interpretation is available
    # (their own properties abstain when it is not)
    common.take_ctor(rep, cc, ("C06.clip", "C16.convert", "C16.reciprocal", "C10.replay", "C16.isolate"),
                     skip_keys=("missing-reverse-direction",),     # a missing direction is a C16 matter, not a canonicity one
                     optional=("C06", "C16", "C10"))
    rep.ob("O.constructors", "time_slice / conversions / event replay", "the spans the library's constructors feed to "
           "add_interaction are the canonical ones (start, closed end + 1), in stored order")
    try:
        from sa.kinds import check_constructors
    except ImportError:
        check_constructors = None
    if check_constructors:
        n = check_constructors(repo, rep, prop="C03")
        rep.floor("typed add_interaction call sites in constructors", n, 0)
    rep.assume(*common.MERGE_ASSUMPTIONS)
