"""C17 - temporal statistics equal their stream-graph definitions (narrow structural clauses)."""
from sa.core import Repo, Report
from sa.kinds import check_kinds
from sa.stats_check import check_inter_event, check_denominators

EXPLANATION = ("static analysis, narrow: the four inter-event distributions are cross-checked as siblings (identical "
               "global / per-node / per-pair code up to the node filter, which must be source / target / either as the "
               "variant demands; gaps are time - previous time over the chronological stream and the previous event is "
               "advanced wherever a gap is counted); coverage, node_contribution and edge_contribution divide by the "
               "number of snapshot ids (times the number of nodes); edge_contribution measures closed intervals as end - "
               "start + 1.  The numerical definitions themselves (uniformity, density, ...) are not decided")


def run(repo: Repo, tier, rep: Report):
    n = check_inter_event(repo, rep)
    rep.floor("sibling / event-role rule instances", n, 20)
    m = check_denominators(repo, rep)
    k = check_kinds(repo, rep, functions={"edge_contribution"}, sink_kinds={"length"})
    rep.floor("interval-length sinks", k, 1)
    for o in rep.obligations[:4]:
        rep.sample(dict(engine="S", rule=o.rule, construct=o.construct, what=o.what))
    rep.assume("Event = (source, target, op, time); statistic formulas other than the listed clauses are outside this check")
