"""C17 - temporal statistics equal their stream-graph definitions."""
from sa.core import Repo, Report, AnalysisError
from sa.kinds import check_kinds
from sa.ownership import check_purity

EXPLANATION = ("static analysis: the four inter-event distributions are interpreted abstractly on symbolic event streams "
               "(symbolic nodes, times t+k so that gaps are concrete; ties, equal gaps, an event log with an emptied "
               "bucket) and on pair timelines: global / per-node (either, source, target) / per-pair answers must be the "
               "histogram of gaps between consecutive selected events; coverage, node_contribution, uniformity, "
               "node_pair_uniformity, density, pair_density, node_density, snapshot_density and node_presence are interpreted on a "
               "symbolic graph (path + isolated node, seven snapshot ids with holes) in which presence of each pair at each id "
               "is an uninterpreted predicate and compared with the definitions of the property statement as exact fractions "
               "(node_density, for which the statement gives no formula, with the one the pinned suite fixes: v = u is counted in "
               "the denominator; snapshot_density = |E_t| / C(|V_t|, 2) with networkx.density modelled on the slice); an instant "
               "tested for truth is also placed at the literal 0; edge_contribution's closed-interval length is typed "
               "(end - start + 1); the observers are shown pure; no state shared between calls or graphs (P7).  "
               "avg_number_of_nodes is decided under C04")

STATS = {"coverage", "node_contribution", "edge_contribution", "uniformity", "node_pair_uniformity", "density", "pair_density",
         "node_density", "node_presence", "snapshot_density", "inter_event_time_distribution", "inter_in_event_time_distribution",
         "inter_out_event_time_distribution"}


def run(repo: Repo, tier, rep: Report):
    from sa.stats_interp import check_inter_event, check_ratio_statistics
    impure = []

    def addp(rule, construct, key, msg, line=0):
        impure.append(construct)
        rep.finding(rule, construct, key, msg + " - a memoised statistic goes stale when the graph is updated", line=line)
    nq = check_purity(repo, addp, only=STATS)
    rep.ob("W2.pure-query", "statistics", "%d statistic observers write nothing through self" % nq)
    try:
        n = check_inter_event(repo, rep)
        rep.floor("inter-event cases interpreted", n, 60)
        m = check_ratio_statistics(repo, rep, tier)
        rep.floor("ratio-statistic valuations interpreted", m, 80)
    except AnalysisError:
        if not impure:
            raise
    k = check_kinds(repo, rep, functions={"edge_contribution"}, sink_kinds={"length"})
    rep.stats["exhaustive"] = False
    rep.assume("Event = (source, target, op, time); streams of up to six events; timelines of up to three intervals",
               "bounded graph shape (4 nodes, 2 snapshot ids); non-zero denominators (the property's own restriction)",
               "definitions: coverage = sum_t |V_t| / (|T||V|); density = sum_{u<v} |T_uv| / sum_{u<v} |T_u & T_v|; uniformity = "
               "sum |T_u & T_v| / sum |T_u | T_v|; node_contribution = |T_u| / |T|")
