"""C07 - a rejected update leaves no trace."""
from sa.core import Repo, Report, CLASSES
from sa.delegation import check_delegation
from . import common

EXPLANATION = ("static analysis: in every abstract run of add_interaction that ends in a raise (ValueError for a span "
               "before the latest run, NetworkXError for a missing t, or any other exception the interpretation "
               "finds) the effect log - every write to nodes, adjacency, timelines, events, counters - must be empty "
               "at the raise, in both removal modes; bulk helpers are interpreted and must only delegate, element by "
               "element, outside any try")


def run(repo: Repo, tier, rep: Report):
    mcs = common.merge(repo, tier)
    common.merge_obligations(rep, mcs, "no write precedes a raise")
    for cls, mc in mcs.items():
        common.take(rep, mc, "O.add_interaction", lambda f: f["clause"].startswith("C07.") or f["clause"] == "C01.reject")
        rej = mc.cases_seen.get("before-latest-run", 0)
        rep.floor("rejecting order types (%s)" % cls, rej, 50)

    def add(clause, construct, key, msg, wit, line=0):
        if clause.startswith("C07.") or key.startswith("missing-t"):
            rep.finding("D.bulk/" + clause, construct, key, msg, line=line, witness=wit)
    n, samples = check_delegation(repo, add)
    rep.ob("D.bulk", "bulk helpers", "prefix semantics decided for %d (helper, size, e) instances" % n)
    rep.floor("bulk helper instances", n, 40)
    rep.assume(*common.MERGE_ASSUMPTIONS)
    rep.assume("'later legal calls behave as if the rejected call had never been made' follows from the empty effect "
               "log: the abstract state covers every store add_interaction reads")
