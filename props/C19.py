"""C19 - untimed networkx mutators are blocked; frozen graphs are immutable."""
from sa.core import Repo, Report
from sa.blocking import check_blocking

EXPLANATION = ("static analysis over the *parsed source of the installed networkx* (graph.py, digraph.py) and dynetx: the "
               "method namespace of both classes is resolved along the MRO; a taint analysis gives every method its direct "
               "writes to adjacency / node tables and a least fixpoint over the self-call graph (callees resolved in the "
               "subclass, so inherited helpers land on the blocked overrides) yields the set of methods that can change "
               "structure through self.  Every such method must be a timestamped owner; every name of the required table "
               "must resolve to an always-raising definition (the decorator is interpreted, not trusted: not_implemented() is "
               "evaluated, applied to every blocked stub and the result called with positional and with keyword arguments - "
               "NetworkXNotImplemented must come out and the stub must never run); explicit "
               "base-class calls must target the direct base and re-create both temporal indexes; freeze must shadow every "
               "mutator that is not blocked for all graphs.  Positive control: stock networkx.Graph must show its ten mutators.")


def run(repo: Repo, tier, rep: Report):
    n = check_blocking(repo, rep)
    rep.floor("blocking / closure / freeze rule instances", n, 150)
    rep.stats["exhaustive"] = True
    for o in rep.obligations[:6]:
        rep.sample(dict(engine="B", rule=o.rule, construct=o.construct, what=o.what))
    rep.assume("networkx version analysed: %s (its source files are parsed on every run)" % rep.stats.get("networkx_version"),
               "calls through the returned adjacency views (G.adj[u][v]['t'].append(..)) are representation exposure, not a call "
               "through the inherited API, and are outside this rule",
               "graph-level attributes (G.name, G.graph) are not protected by freeze, as in networkx")
