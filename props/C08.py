"""C08 - accumulative mode: interactions persist from first add to the last snapshot."""
from sa.core import Repo, Report, CLASSES
from . import common

EXPLANATION = ("static analysis: add_interaction is interpreted with edge_removal=False over all order types: a '+' "
               "event only for a new pair, never a '-', the start of the first interval never changes, the snapshot "
               "key written is exactly {t}, no exception; has_interaction/__presence_test is interpreted with "
               "edge_removal=False and must answer first_start <= q <= largest snapshot id")


def run(repo: Repo, tier, rep: Report):
    mcs = common.merge(repo, tier)
    common.merge_obligations(rep, mcs, "accumulative valuation")
    for cls, mc in mcs.items():
        common.take(rep, mc, "O.add_interaction", lambda f: common.is_accumulative(f) and not f["clause"].startswith("C07."))
    pcs = common.presence(repo, tier)
    for cls, pc in pcs.items():
        rep.ob("O.has_interaction", pc.construct, "accumulative presence arm decided")
        rep.stats["abstract_runs"] = rep.stats.get("abstract_runs", 0) + pc.n_runs
        common.take(rep, pc, "O.has_interaction", lambda f: f["clause"] == "C08.presence" or "accumulative" in f["key"])
    rep.assume(*common.MERGE_ASSUMPTIONS)
    rep.assume("the largest snapshot id M satisfies M >= every stored end (every accepted add registers its t)",
               "'all snapshot queries of C02 follow' is decided by C02's rules, not here")
