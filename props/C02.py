"""C02 - every snapshot and flattened query projects the one presence relation."""
from sa.core import Repo, Report, CLASSES, FUNCTION
from sa.ownership import check_purity
from sa.query_check import QueryChecker
from . import common

EXPLANATION = ("static analysis: every query entry point (53: methods of both classes and the functional forms) is "
               "interpreted abstractly on small symbolic graphs (path, reciprocal directed pair, isolated node, "
               "self-loop) in which the presence of each stored pair at the query instant is an uninterpreted "
               "predicate enumerated over all valuations; nbunch is tried as None / node / list / list with an "
               "unknown node / one-shot iterator; both removal modes.  The interpreted answer must equal what the "
               "static graph of present pairs gives: filtered through the presence test with the right orientation, "
               "each interaction once, restricted through nbunch_iter, arguments forwarded by the wrappers.  "
               "Observers are shown pure by the taint analysis.  On the shapes with a self-loop the counting queries are judged too: a "
               "loop adds two to the degree of its node and counts as one interaction in size / number_of_interactions.")


def run(repo: Repo, tier, rep: Report):
    qc = QueryChecker(repo, tier)
    for cls in CLASSES:
        qc.check_class(cls)
        qc.check_functions(cls)
        qc.check_self_loops(cls)
    for k, f in sorted(qc.findings.items()):
        rep.finding("Q.query", f["construct"], f["key"], f["message"] + " [%d valuations]" % f["count"], line=f["line"], witness=f["witness"])
    for ep in sorted(qc.entry_points):
        rep.ob("Q.query", ep, "answer = projection of the static graph of present pairs")
    rep.floor("query entry points", len(qc.entry_points), 40)
    rep.floor("interpreted (entry point, shape, arguments) cases", qc.n_cases, 400)
    rep.stats["abstract_runs"] = qc.n_runs
    rep.stats["cases"] = qc.n_cases
    rep.stats["exhaustive"] = False
    rep.sample(dict(engine="Q", entry_points=len(qc.entry_points), cases=qc.n_cases, valuations=qc.n_runs,
                    shapes=["path A-B-C + isolated D", "reciprocal A<->B, B->C, C->A", "self-loop A-A"],
                    nbunch=["None", "A", "[A]", "[A,B]", "[B,Z(unknown)]", "iter([A,C])"]))

    def addp(rule, construct, key, msg, line=0):
        rep.finding(rule, construct, key, msg, line=line)
    nq = check_purity(repo, addp)
    rep.ob("W2.pure-query", "all query methods and functional forms", "%d observers write nothing through the graph" % nq)
    rep.floor("observers checked for purity", nq, 80)
    rep.assume("graph shape is bounded (4 nodes, up to 4 stored pairs): every loop of the queries is uniform over nodes and "
               "neighbours, the shapes cover: plain, reciprocal, self-loop, isolated node, unknown node in nbunch",
               "__presence_test is an uninterpreted predicate here; that it equals membership in the union of spans is C01/C08",
               "networkx nbunch_iter semantics (None = all nodes, single node, iterable filtered to nodes of the graph)",
               "the 'density' formula is only checked on loop-free shapes")
