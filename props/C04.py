"""C04 - snapshot ids are the inhabited instants; per-snapshot counts are exact."""
from sa.core import Repo, Report, CLASSES
from sa.ownership import check_purity, container_types
from sa.readers_interp import check_index_readers, check_avg_number_of_nodes
from . import common

EXPLANATION = ("static analysis: on every accepting path of add_interaction (all order types) the snapshot counters "
               "must rise by the divisor that interactions_per_snapshots applies, exactly on the instants of the span "
               "that were not yet present (so keys = inhabited instants and value/divisor = number of interactions); "
               "the readers are interpreted on a concrete-symbolic index whose ids were created out of order (ascending "
               "ids; counter/divisor; 0 and no key creation for an uninhabited instant; map form); avg_number_of_nodes "
               "is interpreted on 4-node symbolic graphs (a path and a star for the undirected class, a reciprocal pair with a back "
               "edge for the directed one) with five snapshot ids over all 64 / 512 presence valuations and "
               "must equal the mean of |V_t|; observers are shown pure by the taint analysis")


def run(repo: Repo, tier, rep: Report):
    mcs = common.merge(repo, tier)
    common.merge_obligations(rep, mcs, "counter multiplicity rule")
    for cls, mc in mcs.items():
        if mc.div_problem:
            rep.finding("O.add_interaction/C04.reader", repo.construct(CLASSES[cls], cls + ".interactions_per_snapshots"),
                        "divisor", mc.div_problem)
        for p in mc.kind_problems:
            rep.finding("W.container", repo.construct(CLASSES[cls], cls), "container-kinds", p)
        common.take(rep, mc, "O.add_interaction", lambda f: not common.is_accumulative(f) and (
            f["clause"].startswith("C04.") or f["clause"] == "C01.exception"))

    def addp(rule, construct, key, msg, line=0):
        rep.finding(rule, construct, key, msg, line=line)
    nq = check_purity(repo, addp, only={"temporal_snapshots_ids", "interactions_per_snapshots", "avg_number_of_nodes",
                                        "number_of_nodes", "degree", "degree_iter"})
    rep.ob("W2.pure-query", "snapshot observers", "%d observers write nothing through self" % nq)
    rep.floor("observers checked for purity", nq, 8)
    def add(rule, construct, key, msg, line=0):
        rep.finding("R.readers/" + rule, construct, key, msg, line=line)
    n = 0
    for cls in CLASSES:
        k = container_types(repo, cls)
        kinds = {a: (sorted(b)[0] if b else "dict") for a, b in k.items()}
        n += check_index_readers(repo, rep, cls, kinds["snapshots"], mcs[cls].div or 2)
        n += check_avg_number_of_nodes(repo, rep, cls)
    rep.floor("reader runs", n, 100)

    rep.assume(*common.MERGE_ASSUMPTIONS)
    rep.assume("number_of_nodes(t) itself is decided under C02")
