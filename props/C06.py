"""C06 - time_slice keeps exactly the presence inside the window, in a new graph."""
from sa.core import Repo, Report, CLASSES
from sa.ownership import check_purity
from . import common

EXPLANATION = ("static analysis: time_slice of both classes is interpreted abstractly over every order type of the "
               "window [F, T] against a canonical timeline; the result graph is a recording object and must receive, "
               "per interval meeting the window and in stored order, exactly add_interaction(u, v, max(a,F), "
               "min(b,T)+1); ValueError iff T < F; T defaults to F; class of the source; node attributes copied for "
               "the result's nodes; no write to the source; the functional form dynetx.time_slice is interpreted through to the "
               "method (a bound that is the literal 0 included); at graph level (4-node symbolic graphs, several pairs at once, "
               "six windows) the slice holds exactly the presence of the source inside the window, its nodes are the endpoints, "
               "and node ids are never ordered; no state shared between calls or graphs (P7)")


def run(repo: Repo, tier, rep: Report):
    # the graph-level interpretation first: it reads the source through its presence relation and its snapshot ids, so it
    # can follow rewrites (a sweep over the ids, a replay of the stream) that the per-pair order-type interpretation cannot;
    # what it finds stands even if the per-pair interpretation abstains afterwards, and vice versa
    from sa.core import AnalysisError
    from sa.conv_graph import check_time_slice_on_graphs
    pending = None
    try:
        rep.floor("graph-level slices interpreted", check_time_slice_on_graphs(repo, rep, tier), 500)
    except AnalysisError as ex:
        pending = ex
    cc = common.ctor(repo, tier)
    common.take_ctor(rep, cc, ("C06.",))
    if pending is not None:
        raise pending
    for cls in CLASSES:
        rep.ob("O.time_slice", repo.construct(CLASSES[cls], cls + ".time_slice"),
               "clipping table exact and exhaustive; window validation; class; attrs; purity")
    rep.floor("order types (constructors)", cc.n_ordertypes, 1000)
    for s in [s for s in cc.samples if "time_slice" in s["function"]][:3]:
        rep.sample(dict(engine="O", **s))
    from sa.kinds import check_kinds
    n = check_kinds(repo, rep, functions={"time_slice", "snapshot_density"}, files=None)
    rep.ob("K.sinks", "time_slice call sites", "%d typed sinks" % n)

    def addp(rule, construct, key, msg, line=0):
        rep.finding(rule, construct, key, msg, line=line)
    check_purity(repo, addp, only={"time_slice"})
    from sa.query_check import check_enumeration_dependency
    check_enumeration_dependency(repo, rep, common.enumeration_users(repo, ['time_slice']))
    rep.assume(*common.CTOR_ASSUMPTIONS)
    rep.assume("'slice of a slice = slice by the intersection' and 'H is well formed' follow from exact clipping plus C01-C05 on H; "
               "they are not separately checked")
