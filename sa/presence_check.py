"""Query side of C01/C08: ``has_interaction`` / ``__presence_test`` decided over order types.

The pair's timeline is an explicit canonical list of n = 1..3 intervals
[a1,b1] < [a2,b2] < [a3,b3] (consecutive intervals separated by at least one absent
instant, which is what C03 establishes for every stored timeline) and the query
instant q ranges over every position relative to all interval ends (order types).
The interpreted return value must equal  q in U [ai,bi]  (removal graphs) or
a1 <= q <= M  (accumulative graphs, M the largest snapshot id).  The loop body of
the presence test is the same for every interval and the envelope only reads the
first start and the last end, so n <= 3 (first / middle / last) covers the roles an
interval can play; this uniformity is an assumption recorded in the evidence.
"""
from __future__ import annotations
from .core import Repo, CLASSES, AnalysisError
from .ordertype import enumerate_order_types, OrderType
from .absint import Interp, Int, Const, NONE, NodeV, SelfV, AbstractRaise, run_all_choices
from .world_graph import GraphWorld


class PresenceChecker:
    def __init__(self, repo: Repo, clsname, R=2, max_n=3):
        self.repo, self.cls, self.R, self.max_n = repo, clsname, R, max_n
        self.rel = CLASSES[clsname]
        self.directed = clsname == "DynDiGraph"
        self.fn = repo.get(self.rel, clsname + ".has_interaction")
        self.methods = repo.class_methods(self.rel, clsname)
        self.construct = repo.construct(self.rel, clsname + ".has_interaction")
        self.findings = {}
        self.n_ordertypes = 0
        self.n_runs = 0
        self.samples = []

    def add(self, clause, key, msg, wit, line=0):
        k = (clause, key)
        if k not in self.findings:
            self.findings[k] = dict(clause=clause, key=key, message=msg, witness=wit, line=line, count=0)
        self.findings[k]["count"] += 1

    def run(self):
        params = [a.arg for a in self.fn.args.args]
        if params != ["self", "u", "v", "t"]:
            raise AnalysisError("%s: unexpected signature %s" % (self.construct, params))
        # pair unknown: must answer False whatever t
        for tq in (False, True):
            cfg = dict(cls=self.cls, directed=self.directed, removal=True, exists=False)
            ot = OrderType([["q"]], [], self.R)
            self._world(cfg, ot, tq, expected=lambda ot: False, label="pair never added")
        for removal in (True, False):
            # accumulative presence only reads the first start and the largest id: two intervals suffice
            for n in range(1, (self.max_n if removal else min(self.max_n, 2)) + 1):
                syms, cons = ["q"], []
                for i in range(1, n + 1):
                    syms += ["a%d" % i, "b%d" % i]
                    cons.append(("a%d" % i, 0, "<=", "b%d" % i, 0))
                    if i > 1:
                        cons.append(("b%d" % (i - 1), 2, "<=", "a%d" % i, 0))
                if not removal:
                    # M: the largest snapshot id; K: any snapshot id (e.g. the most recently created one)
                    syms += ["M", "K"]
                    cons.append(("b%d" % n, 0, "<=", "M", 0))
                    cons.append(("K", 0, "<=", "M", 0))
                cfg = dict(cls=self.cls, directed=self.directed, removal=removal, exists=True, intervals=n)
                # flattened query
                ot0 = enumerate_order_types(syms, cons, self.R)
                self._world(cfg, ot0[0], False, expected=lambda ot: True, label="t omitted")
                for ot in ot0:
                    self.n_ordertypes += 1
                    if removal:
                        def exp(ot, n=n):
                            return any(ot.cmp_terms(("a%d" % i, 0), ("q", 0), "<=") and
                                       ot.cmp_terms(("q", 0), ("b%d" % i, 0), "<=") for i in range(1, n + 1))
                    else:
                        def exp(ot):
                            return ot.cmp_terms(("a1", 0), ("q", 0), "<=") and ot.cmp_terms(("q", 0), ("M", 0), "<=")
                    self._world(cfg, ot, True, expected=exp,
                                label="%s, %d interval(s)" % ("removal" if removal else "accumulative", n))
        return self

    def _world(self, cfg, ot, with_t, expected, label):
        def once(ch):
            w = GraphWorld(cfg, ot, ch, self.methods)
            ip = Interp(w, ot)
            env = {"self": SelfV(), "u": NodeV("U"), "v": NodeV("V"), "t": Int("q") if with_t else NONE}
            try:
                return ("ok", w, ip.call_function(self.fn, env))
            except AbstractRaise as r:
                return ("raise", w, r)
        for ch, (kind, w, val) in run_all_choices(once):
            self.n_runs += 1
            wit = "%s | %s | order: %s" % (label, "t given" if with_t else "t=None", ot.describe())
            mode = "removal" if cfg["removal"] else "accumulative"
            if kind == "raise":
                self.add("C01.query", "%s:raises:%s" % (mode, val.exc),
                         "has_interaction can raise %s (%s)" % (val.exc, val.detail), wit, getattr(val.node, "lineno", 0))
                continue
            if w.effects:
                self.add("C01.query", "%s:query-writes" % mode, "has_interaction writes state: %s" % (w.effects[0][0],), wit,
                         w.effects[0][1])
            want = bool(expected(ot))
            got = val
            if not (isinstance(got, Const) and isinstance(got.v, bool)):
                self.add("C01.query", "%s:non-bool" % mode, "has_interaction returns %r" % (got,), wit)
                continue
            if got.v != want:
                where = self._where(cfg, ot) if cfg.get("intervals") and with_t else label
                self.add("C01.query" if cfg["removal"] else "C08.presence",
                         "%s:%s:%s" % (mode, "false-negative" if want else "false-positive", where),
                         "has_interaction answers %s where the presence relation says %s" % (got.v, want), wit)
            elif len(self.samples) < 4 and cfg.get("intervals") == 2 and with_t:
                self.samples.append(dict(world=wit, answer=got.v))

    def _where(self, cfg, ot):
        """Role of q relative to the intervals (stable key)."""
        n = cfg["intervals"]
        names = []
        for i in range(1, n + 1):
            role = "first" if i == 1 else ("last" if i == n else "middle")
            if n == 1:
                role = "only"
            for sym, nm in (("a%d" % i, "start"), ("b%d" % i, "end")):
                for k, suffix in ((0, ""), (-1, "-1"), (1, "+1")):
                    if ot.cmp_terms(("q", 0), (sym, k), "=="):
                        names.append("q=%s.%s%s" % (role, nm, suffix))
        if names:
            return ",".join(sorted(set(names)))
        for i in range(1, n + 1):
            if ot.cmp_terms(("a%d" % i, 0), ("q", 0), "<") and ot.cmp_terms(("q", 0), ("b%d" % i, 0), "<"):
                return "q-inside-interval"
        if ot.cmp_terms(("q", 0), ("a1", 0), "<"):
            return "q-before-all"
        if ot.cmp_terms(("q", 0), ("b%d" % n, 0), ">"):
            return "q-after-all"
        return "q-in-gap"
