"""B engine: override / blocking completeness against the *installed* networkx (DESIGN.md 3.5, C19).

networkx/classes/graph.py and digraph.py are located with importlib.util.find_spec
and *parsed* (never imported for analysis).  For each dynetx class the method
namespace is resolved along the MRO (dynetx definitions first, class-body aliases
followed).  The taint analysis of sa/ownership.py gives every method its direct
writes; a least fixpoint over the ``self.`` call graph (callees resolved in the
*subclass* namespace, so that Graph.add_weighted_edges_from lands on the blocked
add_edges_from) yields

    structure(M)  M may create an inner adjacency entry, delete or clear adjacency /
                  node entries through self, without first running into a blocked method.

Rules:
  B1  the decorator ``not_implemented`` wraps into a function that raises
      NetworkXNotImplemented on every path and never calls the wrapped function;
  B2  every name of the required-blocked table resolves to a definition that always
      raises (decorated, or all of its structure-relevant callees are blocked);
  B3  structure(M) => M is in the owner table, for every public method of the MRO;
  B4  a dynetx method that empties adjacency through an explicit base-class call does
      so through its *direct* base class and re-creates both temporal indexes;
  B5  freeze: is_frozen reads the flag freeze sets; every mutator is either shadowed on
      the instance or reaches state only through shadowed self-calls.
"""
from __future__ import annotations
import ast
import importlib.util
import os
from .core import Repo, Report, CLASSES, FUNCTION, DECORATORS, AnalysisError, src, walk_no_nested, strip_doc
from .ownership import Taint

NX_FILES = {"Graph": "networkx.classes.graph", "DiGraph": "networkx.classes.digraph"}
BASES = {"DynGraph": ["Graph"], "DynDiGraph": ["DiGraph", "Graph"]}
OWNED = {"add_interaction", "add_interactions_from", "add_path", "add_star", "add_cycle", "__init__", "clear", "clear_edges"}
REQUIRED_BLOCKED = {
    "DynGraph": ["add_edge", "add_edges_from", "add_weighted_edges_from", "remove_edge", "remove_edges_from",
                 "remove_node", "remove_nodes_from", "edges_iter"],
    "DynDiGraph": ["add_edge", "add_edges_from", "add_weighted_edges_from", "remove_edge", "remove_edges_from",
                   "remove_node", "remove_nodes_from", "edges_iter", "in_edges", "out_edges", "in_edges_iter",
                   "out_edges_iter"],
}
REQUIRED_BLOCKED_FUNCTIONS = ["set_edge_attributes", "get_edge_attributes"]
NODE_MUTATORS = {"add_node", "add_nodes_from", "update_node_attr", "update_node_attr_from"}


def load_nx_classes():
    out = {}
    version = None
    for cname, mod in NX_FILES.items():
        spec = importlib.util.find_spec(mod)
        if spec is None or not spec.origin or not os.path.exists(spec.origin):
            raise AnalysisError("the installed networkx source for %s was not found" % mod)
        tree = ast.parse(open(spec.origin, encoding="utf-8").read(), filename=spec.origin)
        cls = next((n for n in tree.body if isinstance(n, ast.ClassDef) and n.name == cname), None)
        if cls is None:
            raise AnalysisError("class %s not found in %s" % (cname, spec.origin))
        out[cname] = {n.name: n for n in cls.body if isinstance(n, ast.FunctionDef)}
        out[cname + ":file"] = spec.origin
    try:
        vspec = importlib.util.find_spec("networkx")
        init = open(vspec.origin, encoding="utf-8").read()
        for line in init.splitlines():
            if line.startswith("__version__"):
                version = line.split("=")[1].strip().strip("\"'")
    except Exception:
        pass
    out["version"] = version
    return out


def always_raises(body, exc_name, forbid_call=None):
    """Does every path through ``body`` raise ``exc_name`` (without first calling ``forbid_call``)?"""
    for st in strip_doc(list(body)):
        if forbid_call:
            for n in ast.walk(st):
                if isinstance(n, ast.Call) and isinstance(n.func, ast.Name) and n.func.id == forbid_call and not isinstance(st, ast.Raise):
                    return False
        if isinstance(st, ast.Raise):
            return st.exc is not None and exc_name in src(st.exc)
        if isinstance(st, ast.If):
            if st.orelse and always_raises(st.body, exc_name, forbid_call) and always_raises(st.orelse, exc_name, forbid_call):
                return True
            if any(isinstance(x, ast.Return) for b in (st.body, st.orelse) for s in b for x in ast.walk(s)):
                return False
            continue
        if isinstance(st, (ast.Return,)):
            return False
        if isinstance(st, (ast.Try, ast.For, ast.While, ast.With)):
            if any(isinstance(x, ast.Return) for x in ast.walk(st)):
                return False
            continue
    return False


def decorator_blocks(repo: Repo):
    """B1: (ok, reason)."""
    outer = repo.get(DECORATORS, "not_implemented")
    inner = [n for n in ast.walk(outer) if isinstance(n, ast.FunctionDef) and n is not outer]
    if not inner:
        return False, "not_implemented defines no wrapper"
    for w in inner:
        wrapped = w.args.args[0].arg if w.args.args else None
        if not always_raises(w.body, "NetworkXNotImplemented", forbid_call=wrapped):
            return False, "the wrapper %s does not raise NetworkXNotImplemented on every path (or calls the wrapped function)" % w.name
    rets = [n for n in walk_no_nested(outer) if isinstance(n, ast.Return)]
    if not rets or not all(isinstance(r.value, ast.Name) and r.value.id in {w.name for w in inner} for r in rets):
        return False, "not_implemented does not return its raising wrapper on every path"
    if outer.args.args or outer.args.vararg or outer.args.kwarg:
        # arguments select *when* to block: then blocking is conditional
        defaults_only = len(outer.args.defaults) == len(outer.args.args)
        return False, "not_implemented takes arguments (%s): blocking may depend on them" % ", ".join(a.arg for a in outer.args.args)
    return True, ""


class _StubV:
    """the function a stub definition hands to the decorator"""

    def __init__(self, name, qual, params=()):
        self.name, self.qual, self.params = name, qual, list(params)

    def __repr__(self):
        return "<stub %s>" % self.qual


def blocked_stubs(repo: Repo):
    """(qualified name, file) of every definition decorated with not_implemented"""
    out = []
    for rel, tree in sorted(repo.modules.items()):
        if "/test/" in rel:
            continue
        for node in tree.body:
            if isinstance(node, ast.FunctionDef) and is_blocked_def(node):
                out.append((node.name, node.name, rel, [a.arg for a in node.args.args]))
            if isinstance(node, ast.ClassDef):
                for sub in node.body:
                    if isinstance(sub, ast.FunctionDef) and is_blocked_def(sub):
                        out.append((sub.name, node.name + "." + sub.name, rel, [a.arg for a in sub.args.args]))
    return out


class _DecoMade:
    """decorator(caller) of the `decorator` package: applied to f it gives a function that calls caller(f, *args, **kwargs)"""

    def __init__(self, caller):
        self.caller = caller


class _Wrapped:
    def __init__(self, caller, f):
        self.caller, self.f = caller, f


def interpreted_decorator(repo: Repo, rep: Report):
    """B1: ``not_implemented()`` is evaluated, the decorator it returns is applied to each blocked stub (known by its name) and
    the function that results is called - without arguments and with the graph as only argument.  Whatever is computed on the
    way, what comes out must be NetworkXNotImplemented: not a KeyError from a lookup made for the message, not an IndexError
    from args[0], not a return."""
    from .ordertype import OrderType
    from .absint import Interp, Const, TupleV, DictObj, AbstractRaise, Unsupported, BoundMethod, Builtin, LocalFuncV, SelfV, Opaque, run_all_choices
    from .query_check import QueryWorld, SHAPES

    class W(QueryWorld):
        def load_attr(self, ip, obj, attr, node):
            if isinstance(obj, _StubV):
                if attr in ("__name__", "__qualname__"):
                    return Const(obj.name if attr == "__name__" else obj.qual)
                if attr == "__doc__":
                    return Const(None)
                raise Unsupported(node, "attribute %s of the wrapped function" % attr)
            if isinstance(obj, Const) and isinstance(obj.v, (str, bytes)):
                return BoundMethod(obj, attr)
            if isinstance(obj, TypeOfV) and attr in ("__name__", "__qualname__"):
                return Const(obj.name)
            return super().load_attr(ip, obj, attr, node)

        def type_of(self, ip, v):
            if isinstance(v, SelfV):
                return TypeOfV("DynGraph")
            return super().type_of(ip, v)

        def resolve_name(self, ip, name, node):
            if name == "nx":
                return Opaque("module:nx")
            if name == "decorator":
                return Builtin("decorator-package")
            return super().resolve_name(ip, name, node)

        def call_builtin(self, ip, name, args, kwargs, node):
            if name == "decorator-package" and len(args) == 1 and isinstance(args[0], LocalFuncV) and not kwargs:
                return _DecoMade(args[0])
            return super().call_builtin(ip, name, args, kwargs, node)

        def call(self, ip, f, args, kwargs, node):
            if isinstance(f, _DecoMade) and len(args) == 1 and not kwargs:
                return _Wrapped(f.caller, args[0])
            if isinstance(f, _Wrapped):
                # the `decorator` package preserves the signature of f: keyword arguments reach the caller as positionals
                full = list(args)
                for p_ in f.f.params[len(args):]:
                    if p_ in kwargs:
                        full.append(kwargs[p_])
                return ip.call_local(f.caller, [f.f] + full, {}, node)
            if isinstance(f, _StubV):
                self.stub_called = True
                return Const(None)
            return super().call(ip, f, args, kwargs, node)

    class TypeOfV:
        hashable_value = True

        def __init__(self, name):
            self.name = name

    outer = repo.get(DECORATORS, "not_implemented")
    stubs = blocked_stubs(repo)
    if not stubs:
        return 0
    cls = "DynGraph"
    n = 0
    for name, qual, rel, params in stubs:
        # the graph where the stub takes one (self / G / graph first), plain data everywhere else
        values = [(SelfV() if (i == 0 and p_ in ("self", "G", "g", "graph")) else (DictObj() if i == 0 else Const(None))) for i, p_ in enumerate(params)]
        for label, call_args, call_kwargs in (("called with positional arguments", values, {}),
                                              ("called with every argument given by keyword", [], dict(zip(params, values)))):
            def once(ch):
                world = W(cls, SHAPES[False][0], ch, repo.class_methods(CLASSES[cls], cls), repo.functions(DECORATORS))
                world.current_rel = DECORATORS
                world.stub_called = False
                ip = Interp(world, OrderType([["t"]], [], 2), max_depth=8)
                try:
                    from .absint import _bind
                    deco = ip.call_function(outer, _bind(outer, [], {}, ip, outer))        # @not_implemented(): no arguments
                    wrapped = ip.apply_value(deco, [_StubV(name, qual, params)], outer)
                    if isinstance(wrapped, LocalFuncV):
                        ip.call_local(wrapped, list(call_args), dict(call_kwargs), outer)
                    elif call_kwargs:
                        ip.apply_value(wrapped, list(call_args), outer, kwargs=dict(call_kwargs))
                    else:
                        ip.apply_value(wrapped, list(call_args), outer)
                    outcome = "returns"
                except AbstractRaise as r:
                    outcome = r.exc
                if world.stub_called:
                    outcome = "calls the blocked function"
                return outcome
            n += 1
            try:
                outcomes = {o for _, o in run_all_choices(once, max_runs=16)}
            except Unsupported as ex:
                rep.stats["B1.interpretation"] = "abstained for %s: %s" % (qual, ex)       # the syntactic half of B1 stands alone
                continue
            for outcome in sorted(outcomes - {"NetworkXNotImplemented"}):
                rep.finding("B1.decorator", repo.construct(DECORATORS, "not_implemented"), "stub:%s:%s" % (qual, outcome),
                            "the blocked %s (%s), %s, %s instead of raising NetworkXNotImplemented" % (
                                qual, rel, label, "returns normally" if outcome == "returns" else (
                                    outcome if outcome.startswith("calls") else "raises %s" % outcome)), line=outer.lineno)
    rep.ob("B1.decorator", repo.construct(DECORATORS, "not_implemented"),
           "decorator evaluated, applied to each of the %d blocked stubs and the result called (positional / keyword arguments): NetworkXNotImplemented" % len(stubs))
    return n


def is_blocked_def(fn):
    return any("not_implemented" in src(d) for d in fn.decorator_list)


class Namespace:
    """Methods of a dynetx class resolved along its MRO into the parsed networkx classes."""

    def __init__(self, repo: Repo, cls, nx):
        self.cls = cls
        self.origin = {}
        self.defs = {}
        for base in reversed(BASES[cls]):
            for name, fn in nx[base].items():
                self.defs[name] = fn
                self.origin[name] = "networkx." + base
        for name, fn in repo.class_methods(CLASSES[cls], cls).items():
            self.defs[name] = fn
            self.origin[name] = cls

    def self_calls(self, fn):
        out = set()
        for n in walk_no_nested(fn):
            if isinstance(n, ast.Call) and isinstance(n.func, ast.Attribute) and isinstance(n.func.value, ast.Name) \
                    and n.func.value.id == "self":
                out.add(n.func.attr)
        return out

    def base_calls(self, fn):
        """explicit nx.Base.method(self, ..) calls -> [(Base, method, node)]"""
        out = []
        for n in walk_no_nested(fn):
            if isinstance(n, ast.Call) and isinstance(n.func, ast.Attribute) and isinstance(n.func.value, ast.Attribute) \
                    and n.func.value.attr in ("Graph", "DiGraph") and n.args and isinstance(n.args[0], ast.Name) \
                    and n.args[0].id == "self":
                out.append((n.func.value.attr, n.func.attr, n))
            # super().method(...) / super(X, self).method(...)
            if isinstance(n, ast.Call) and isinstance(n.func, ast.Attribute) and isinstance(n.func.value, ast.Call) \
                    and isinstance(n.func.value.func, ast.Name) and n.func.value.func.id == "super":
                out.append((BASES[self.cls][0], n.func.attr, n))
        return out


def interpreted_index_reset(repo, cls, name):
    """Second opinion for B4: interpret the method on a graph whose two temporal indexes are non-empty; True when both are
    empty containers at exit, False when one still has content, None when the body leaves the interpreted fragment."""
    from .absint import Interp, Int, Const, NONE, SelfV, DictObj, Opaque, Builtin, BoundMethod, AbstractRaise, Unsupported, run_all_choices
    from .ordertype import OrderType
    from .query_check import QueryWorld, SHAPES

    class SuperV:
        pass

    class ClearWorld(QueryWorld):
        def __init__(self, *a, **k):
            super().__init__(*a, **k)
            self.vals = {"time_to_edge": DictObj({Int("t", 1): DictObj({Const("ev"): NONE})}, persistent=True, tag="time_to_edge"),
                         "snapshots": DictObj({Int("t", 1): Const(2)}, persistent=True, tag="snapshots")}
            self.base_calls = []

        def resolve_name(self, ip, nm, node):
            if nm == "super":
                return Builtin("super")
            return super().resolve_name(ip, nm, node)

        def call_builtin(self, ip, nm, args, kwargs, node):
            if nm == "super":
                return SuperV()
            return super().call_builtin(ip, nm, args, kwargs, node)

        def load_attr(self, ip, obj, attr, node):
            if isinstance(obj, SelfV) and attr in self.vals:
                return self.vals[attr]
            if isinstance(obj, SuperV):
                return BoundMethod(obj, attr)
            return super().load_attr(ip, obj, attr, node)

        def store_attr(self, ip, obj, attr, v, node):
            if isinstance(obj, SelfV) and attr in self.vals:
                self.vals[attr] = v
                return
            return super().store_attr(ip, obj, attr, v, node)

        def call(self, ip, f, args, kwargs, node):
            if isinstance(f, Opaque) and (f.tag.startswith("module:nx.") or f.tag.startswith("module:networkx.")) and args and isinstance(args[0], SelfV):
                self.base_calls.append(f.tag)
                return NONE
            return super().call(ip, f, args, kwargs, node)

        def call_method(self, ip, obj, nm, args, kwargs, node):
            if isinstance(obj, SuperV):
                self.base_calls.append("super." + nm)
                return NONE
            return super().call_method(ip, obj, nm, args, kwargs, node)

    rel = CLASSES[cls]
    methods = repo.class_methods(rel, cls)
    fn = methods[name]
    shape = SHAPES[cls == "DynDiGraph"][0]
    ot = OrderType([["t"]], [], 4)
    verdicts = []

    def once(ch):
        w = ClearWorld(cls, shape, ch, methods, {})
        w.current_rel = rel
        ip = Interp(w, ot, max_depth=8)
        try:
            ip.call_function(fn, {"self": SelfV()})
        except AbstractRaise:
            return None
        return all(isinstance(v, DictObj) and not v.entries for v in w.vals.values())
    try:
        for ch, ok in run_all_choices(once, max_runs=8):
            verdicts.append(ok)
    except Unsupported:
        return None
    if not verdicts or any(v is None for v in verdicts):
        return None
    return all(verdicts)


def direct_structure_writes(fn):
    """Write sites of fn through self that change adjacency / node *structure* (not empty row creation)."""
    out = []
    for (root, owner, kind, node) in Taint(fn).writes():
        if owner != "self" or root not in ("adjacency", "nodes"):
            continue
        if kind == "store" and isinstance(node, ast.Assign):
            # self._adj[n] = self.adjlist_inner_dict_factory()   /   self._node[n] = {...}: creating an empty row / a node
            v = node.value
            fresh = (isinstance(v, ast.Call) and isinstance(v.func, ast.Attribute) and v.func.attr.endswith("factory")) or \
                (isinstance(v, ast.Dict) and not v.keys)
            harmless = True
            for tgt in node.targets:
                if not isinstance(tgt, ast.Subscript):
                    continue
                depth = 0
                t = tgt
                while isinstance(t, ast.Subscript):
                    depth += 1
                    t = t.value
                if not (depth == 1 and (fresh or root == "nodes")):
                    harmless = False
            if harmless:
                continue
        if root == "nodes" and kind.startswith("call:update"):
            continue        # attribute update of an existing node
        out.append((root, kind, node))
    return out


def structure_closure(ns: Namespace, nx, blocked):
    """Least fixpoint: names of methods that may mutate structure through self."""
    direct = {}
    calls = {}
    for name, fn in ns.defs.items():
        if name in blocked:
            continue
        direct[name] = direct_structure_writes(fn)
        cs = ns.self_calls(fn)
        for (base, meth, _) in ns.base_calls(fn):
            bf = nx.get(base, {}).get(meth)
            if bf is not None and direct_structure_writes(bf):
                direct[name] = direct[name] + [("adjacency", "base-call:%s.%s" % (base, meth), bf)]
        calls[name] = cs
    mut = {n for n, d in direct.items() if d}
    changed = True
    while changed:
        changed = False
        for n, cs in calls.items():
            if n not in mut and any(c in mut for c in cs if c not in blocked):
                mut.add(n)
                changed = True
    return mut, direct, calls


def check_blocking(repo: Repo, rep: Report):
    nx = load_nx_classes()
    rep.stats["networkx_version"] = nx["version"]
    rep.stats["networkx_files"] = [nx["Graph:file"], nx["DiGraph:file"]]
    n_inst = 0
    # ---- B1 -------------------------------------------------------------------
    # B1: the wrapper is interpreted once per blocked stub; the syntactic recogniser is only consulted where the interpretation
    # abstained, and a shape it does not recognise is then *unknown*, never a violation
    n_before = len(rep.findings)
    n_stubs = interpreted_decorator(repo, rep)
    n_inst += n_stubs
    interpreted_all = n_stubs > 0 and "B1.interpretation" not in rep.stats
    ok, why = decorator_blocks(repo)
    n_inst += 1
    if interpreted_all:
        rep.ob("B1.decorator", repo.construct(DECORATORS, "not_implemented"), "syntactic shape of the wrapper (advisory: the interpretation decided)", ok=True)
    elif ok:
        rep.ob("B1.decorator", repo.construct(DECORATORS, "not_implemented"), "wrapper raises NetworkXNotImplemented unconditionally (shape)", ok=True)
    elif len(rep.findings) == n_before:
        raise AnalysisError("not_implemented: %s, and its wrapper could not be interpreted for every stub (%s)" % (
            why, rep.stats.get("B1.interpretation", "no blocked stub found")))
    # ---- positive control: stock networkx must show its mutators ----------------------
    class _Stock:
        cls = "DynGraph"
    stock = Namespace.__new__(Namespace)
    stock.cls = "DynGraph"
    stock.defs = dict(nx["Graph"])
    stock.origin = {k: "networkx.Graph" for k in stock.defs}
    smut, _, _ = structure_closure(stock, nx, set())
    expect = {"add_edge", "add_edges_from", "add_weighted_edges_from", "remove_node", "remove_nodes_from", "remove_edge",
              "remove_edges_from", "clear", "clear_edges", "update"}
    found = expect & smut
    rep.ob("B.control", "networkx.Graph (stock)", "positive control: %d/%d known mutators recognised (%s)" % (
        len(found), len(expect), ", ".join(sorted(found))), ok=len(found) >= 9)
    if len(found) < 9:
        raise AnalysisError("positive control failed: the effect analysis recognises only %s of networkx.Graph's mutators "
                            "(networkx %s has a shape this analyser does not read)" % (sorted(found), nx["version"]))
    for cls in CLASSES:
        rel = CLASSES[cls]
        ns = Namespace(repo, cls, nx)
        blocked = {n for n, fn in ns.defs.items() if ns.origin[n] == cls and is_blocked_def(fn)}
        mut, direct, calls = structure_closure(ns, nx, blocked)
        # ---- B2 required-blocked names --------------------------------------------------
        for name in REQUIRED_BLOCKED[cls]:
            n_inst += 1
            fn = ns.defs.get(name)
            construct = repo.construct(rel, cls + "." + name)
            if fn is None:
                # the untimed view does not exist at all in this networkx: nothing to call
                rep.ob("B2.blocked", construct, "absent from the class namespace (cannot be called)", ok=True, nontrivial=False)
                continue
            if name in blocked:
                rep.ob("B2.blocked", construct, "decorated with not_implemented()", ok=True)
                continue
            if name in mut:
                rep.ob("B2.blocked", construct, "must be blocked", ok=False)
                rep.finding("B2.blocked", construct, "unblocked-mutator",
                            "%s.%s (defined in %s) can change the adjacency without a timestamp: it is neither decorated with "
                            "not_implemented() nor confined to blocked callees" % (cls, name, ns.origin[name]), line=fn.lineno)
                continue
            relevant = {c for c in calls.get(name, ()) if c in blocked}
            if ns.origin[name] != cls and relevant:
                rep.ob("B2.blocked", construct, "inherited; reaches structure only through blocked %s" % sorted(relevant), ok=True)
                continue
            rep.ob("B2.blocked", construct, "must raise NetworkXNotImplemented", ok=False)
            rep.finding("B2.blocked", construct, "not-blocked",
                        "%s.%s (from %s) is not blocked: an untimed edge view / mutator of the required table stays callable" % (
                            cls, name, ns.origin[name]), line=fn.lineno)
        # update(): the node-only form is harmless but does not raise
        upd = ns.defs.get("update")
        if upd is not None and "update" not in blocked:
            n_inst += 1
            edge_arm_blocked = "add_edges_from" in blocked and "add_edges_from" in calls.get("update", ())
            rep.ob("B2.blocked", repo.construct(rel, cls + ".update"), "edge arm of update() lands on the blocked add_edges_from", ok=edge_arm_blocked)
            if not edge_arm_blocked or "update" in mut:
                rep.finding("B2.blocked", repo.construct(rel, cls + ".update"), "unblocked-mutator",
                            "%s.update can add untimed edges" % cls, line=upd.lineno)
            else:
                rep.finding("B2.blocked", repo.construct(rel, cls + ".update"), "update-nodes-form-does-not-raise",
                            "%s.update(nodes=...) (inherited from networkx) adds nodes and returns: the property lists update among the "
                            "mutators that always raise NetworkXNotImplemented (its edge form does, through add_edges_from)" % cls,
                            line=upd.lineno)
        # ---- B3 closure: no unowned structure mutator ---------------------------------------
        public = [n for n in ns.defs if not n.startswith("_") or n == "__init__"]
        rep.stats.setdefault("namespace_sizes", {})[cls] = len(public)
        for name in sorted(mut):
            if name.startswith("_") and name != "__init__":
                continue
            if name in REQUIRED_BLOCKED[cls] or name == "update":
                continue        # reported above
            n_inst += 1
            construct = repo.construct(rel, cls + "." + name)
            # an owner is a method the dynetx class itself defines (an inherited clear() is not one)
            ok = name in OWNED and ns.origin[name] == cls
            rep.ob("B3.closure", construct, "structure mutator (%s) must be an owner" % ns.origin[name], ok=ok)
            if not ok:
                why = direct[name][0][1] if direct.get(name) else "calls %s" % sorted(c for c in calls[name] if c in mut)
                rep.finding("B3.closure", construct, "unowned-mutator",
                            "%s.%s (defined in %s) can change adjacency or node structure through self (%s) but is not one of the "
                            "timestamped owners: a call would leave adjacency without a timeline or the stream out of step" % (
                                cls, name, ns.origin[name], why), line=ns.defs[name].lineno)
        n_inst += len(public)
        rep.ob("B3.closure", repo.construct(rel, cls), "%d public callables of the MRO scanned; %d structure mutators, all owned or blocked" % (
            len(public), len([m for m in mut if not m.startswith("_")])))
        # ---- B4 base calls ------------------------------------------------------------------------
        for name, fn in repo.class_methods(rel, cls).items():
            for (base, meth, node) in ns.base_calls(fn):
                if name == "__init__":
                    continue
                n_inst += 1
                construct = repo.construct(rel, cls + "." + name)
                ok_base = base == BASES[cls][0]
                rep.ob("B4.basecall", construct, "%s.%s(self) goes to the direct base class" % (base, meth), ok=ok_base)
                if not ok_base:
                    rep.finding("B4.basecall", construct, "wrong-base:%s.%s" % (base, meth),
                                "%s.%s calls networkx.%s.%s(self) but the class derives from networkx.%s: the other class's "
                                "method does not know this class's stores (_succ / _pred)" % (cls, name, base, meth, BASES[cls][0]),
                                line=node.lineno)
                bf = nx.get(base, {}).get(meth)
                if bf is not None and direct_structure_writes(bf):
                    # the indexes may be re-created by the method itself or by a helper it calls on self
                    bodies, seen = [fn], {name}
                    for _ in range(3):
                        for b in list(bodies):
                            for c in ns.self_calls(b):
                                if c not in seen and c in ns.defs and ns.origin.get(c) == cls:
                                    seen.add(c)
                                    bodies.append(ns.defs[c])
                    # ... or by a module-level helper that receives self (a context manager around the base call, for instance)
                    scoped = [(b, "self") for b in bodies]
                    from .absint import FUNCTION_INDEX
                    seen_h = set()
                    for _ in range(3):
                        for (b, alias) in list(scoped):
                            for c in ast.walk(b):
                                if isinstance(c, ast.Call) and isinstance(c.func, ast.Name) and c.func.id in FUNCTION_INDEX and c.func.id not in seen_h:
                                    cands = [x for x in FUNCTION_INDEX[c.func.id] if x[0] == rel] or FUNCTION_INDEX[c.func.id]
                                    hf = cands[0][1]
                                    for i, a in enumerate(c.args):
                                        if isinstance(a, ast.Name) and a.id == alias and i < len(hf.args.args):
                                            seen_h.add(c.func.id)
                                            scoped.append((hf, hf.args.args[i].arg))
                    rebinds = set()
                    for (b, alias) in scoped:
                        for a in ast.walk(b):
                            if isinstance(a, ast.Assign):
                                for t in a.targets:
                                    for x in (t.elts if isinstance(t, (ast.Tuple, ast.List)) else [t]):
                                        if isinstance(x, ast.Attribute) and isinstance(x.value, ast.Name) and x.value.id == alias:
                                            rebinds.add(x.attr)
                            elif isinstance(a, ast.Call) and isinstance(a.func, ast.Attribute) and a.func.attr == "clear" and \
                                    isinstance(a.func.value, ast.Attribute) and isinstance(a.func.value.value, ast.Name) and a.func.value.value.id == alias:
                                rebinds.add(a.func.value.attr)          # self.snapshots.clear() empties the index as well
                    ok_idx = {"time_to_edge", "snapshots"} <= rebinds
                    if not ok_idx:
                        # the reset may be written in a way the recogniser above does not know: interpret the method
                        second = interpreted_index_reset(repo, cls, name)
                        if second is True:
                            ok_idx = True
                        elif second is None:
                            raise AnalysisError("B4.basecall at %s: whether the temporal indexes are reset could neither be recognised "
                                                "nor interpreted" % construct)
                    rep.ob("B4.basecall", construct, "structure emptied through the base class => both temporal indexes re-created", ok=ok_idx)
                    if not ok_idx:
                        rep.finding("B4.basecall", construct, "indexes-not-reset",
                                    "%s.%s empties adjacency through networkx.%s.%s but does not re-create %s: the stream / snapshot "
                                    "index would describe interactions that no longer exist" % (
                                        cls, name, base, meth, sorted({"time_to_edge", "snapshots"} - rebinds)), line=node.lineno)
    # ---- function.py ------------------------------------------------------------------------------
    for name in REQUIRED_BLOCKED_FUNCTIONS:
        n_inst += 1
        fn = repo.get(FUNCTION, name)
        ok = is_blocked_def(fn)
        rep.ob("B2.blocked", repo.construct(FUNCTION, name), "decorated with not_implemented()", ok=ok)
        if not ok:
            rep.finding("B2.blocked", repo.construct(FUNCTION, name), "not-blocked", "%s is not blocked" % name, line=fn.lineno)
    n_inst += check_freeze(repo, rep, nx)
    return n_inst


def _module_constants(repo, rel):
    out = {}
    for st in repo.modules[rel].body:
        if isinstance(st, ast.Assign) and len(st.targets) == 1 and isinstance(st.targets[0], ast.Name):
            v = st.value
            if isinstance(v, (ast.Tuple, ast.List, ast.Set)) and all(isinstance(e, ast.Constant) and isinstance(e.value, str) for e in v.elts):
                out[st.targets[0].id] = [e.value for e in v.elts]
    return out


def frozen_names(repo: Repo):
    """Names freeze() shadows on the instance with the raising stub."""
    fn = repo.get(FUNCTION, "freeze")
    g = fn.args.args[0].arg
    consts = _module_constants(repo, FUNCTION)
    names, flag = set(), False
    for n in walk_no_nested(fn):
        if isinstance(n, ast.Assign):
            for t in n.targets:
                if isinstance(t, ast.Attribute) and isinstance(t.value, ast.Name) and t.value.id == g:
                    if isinstance(n.value, ast.Name) and n.value.id == "frozen":
                        names.add(t.attr)
                    elif t.attr == "frozen" and isinstance(n.value, ast.Constant) and n.value.value is True:
                        flag = True
        if isinstance(n, ast.For):
            seq = None
            if isinstance(n.iter, ast.Name) and n.iter.id in consts:
                seq = consts[n.iter.id]
            elif isinstance(n.iter, (ast.Tuple, ast.List)) and all(isinstance(e, ast.Constant) for e in n.iter.elts):
                seq = [e.value for e in n.iter.elts]
            if seq is not None and isinstance(n.target, ast.Name):
                for c in ast.walk(n):
                    if isinstance(c, ast.Call) and isinstance(c.func, ast.Name) and c.func.id == "setattr" and len(c.args) == 3 \
                            and isinstance(c.args[0], ast.Name) and c.args[0].id == g and isinstance(c.args[1], ast.Name) \
                            and c.args[1].id == n.target.id and isinstance(c.args[2], ast.Name) and c.args[2].id == "frozen":
                        names |= set(seq)
        if isinstance(n, ast.Call) and isinstance(n.func, ast.Name) and n.func.id == "setattr" and len(n.args) == 3 \
                and isinstance(n.args[1], ast.Constant) and isinstance(n.args[2], ast.Name) and n.args[2].id == "frozen":
            names.add(n.args[1].value)
    return names, flag, fn


def check_freeze(repo: Repo, rep: Report, nx):
    names, flag, fn = frozen_names(repo)
    construct = repo.construct(FUNCTION, "freeze")
    n = 0
    # the stub raises
    stub = repo.get(FUNCTION, "frozen")
    ok = always_raises(stub.body, "NetworkXError")
    rep.ob("B5.freeze", repo.construct(FUNCTION, "frozen"), "the stub raises on every path", ok=ok)
    if not ok:
        rep.finding("B5.freeze", repo.construct(FUNCTION, "frozen"), "stub-does-not-raise", "frozen() does not raise on every path")
    isf = repo.get(FUNCTION, "is_frozen")
    reads_flag = any(isinstance(x, ast.Attribute) and x.attr == "frozen" for x in ast.walk(isf)) or any(
        isinstance(x, ast.Call) and isinstance(x.func, ast.Name) and x.func.id in ("getattr", "hasattr") and len(x.args) >= 2
        and isinstance(x.args[1], ast.Constant) and x.args[1].value == "frozen" for x in ast.walk(isf))
    ok = flag and reads_flag
    rep.ob("B5.freeze", construct, "freeze sets G.frozen = True and is_frozen reads it", ok=ok)
    n += 2
    if not ok:
        rep.finding("B5.freeze", construct, "flag", "freeze does not set the flag is_frozen reads")
    baseline = {"add_node", "add_nodes_from", "remove_node", "remove_nodes_from", "add_edge", "add_edges_from", "remove_edge",
                "remove_edges_from", "clear"}
    for cls in CLASSES:
        ns = Namespace(repo, cls, nx)
        blocked = {m for m, f in ns.defs.items() if ns.origin[m] == cls and is_blocked_def(f)}
        # a shadowed name must be a method of the class (a typo shadows nothing)
        for nm in sorted(names):
            if nm not in ns.defs and nm != "frozen":
                rep.finding("B5.freeze", construct, "shadows-non-method:%s" % nm,
                            "freeze shadows %r, which is not a method of %s (two names merged by a missing comma?)" % (nm, cls), line=fn.lineno)
        # every mutator must be shadowed, blocked at class level, or reach state only through shadowed / blocked self-calls
        writers = {}
        for m, f in ns.defs.items():
            if m.startswith("_"):
                continue
            # graph-level attributes (name, graph dict) are outside what freeze protects, in networkx as here
            w = [x for x in Taint(f).writes() if x[1] == "self" and x[0] in ("adjacency", "nodes", "tte", "snapshots", "timeline")]
            if ns.base_calls(f):
                w = w + [("adjacency", "self", "base-call", f)]
            writers[m] = bool(w)
        open_ = set(m for m, d in writers.items() if d and m not in names and m not in blocked)
        changed = True
        while changed:
            changed = False
            for m, f in ns.defs.items():
                if m.startswith("_") or m in open_ or m in names or m in blocked:
                    continue
                if any(c in open_ for c in ns.self_calls(f)):
                    open_.add(m)
                    changed = True
        for m in sorted(baseline | open_):
            if m not in ns.defs:
                continue
            n += 1
            c2 = construct + "[%s.%s]" % (cls, m)
            if m in baseline:
                ok = m in names or m in blocked
                rep.ob("B5.freeze", c2, "shadowed by freeze (or blocked for every graph)", ok=ok)
                if not ok:
                    rep.finding("B5.freeze", construct, "not-shadowed:%s:%s" % (cls, m),
                                "after freeze(G) a %s can still call %s: it is neither shadowed on the instance nor blocked" % (cls, m), line=fn.lineno)
            if m in open_:
                rep.ob("B5.freeze", c2, "mutator must not stay callable on a frozen graph", ok=False)
                rep.finding("B5.freeze", construct, "open-after-freeze:%s:%s" % (cls, m),
                            "after freeze(G) %s.%s still changes the graph (freeze does not shadow it and it does not go through a "
                            "shadowed method)" % (cls, m), line=fn.lineno)
    return n
