"""S/P engines: small shape recognisers with slots (DESIGN.md 3.3, 3.6)."""
from __future__ import annotations
import ast
from .core import Repo, Report, src, walk_no_nested, AnalysisError, const_value
from .ownership import all_functions

BROAD = {None, "Exception", "BaseException", "ValueError", "NetworkXError", "NetworkXException"}


def _handler_names(h):
    if h.type is None:
        return [None]
    elts = h.type.elts if isinstance(h.type, ast.Tuple) else [h.type]
    out = []
    for e in elts:
        out.append(e.attr if isinstance(e, ast.Attribute) else (e.id if isinstance(e, ast.Name) else "?"))
    return out


def check_swallowed_rejections(repo: Repo, rep: Report, functions=None):
    """P6: a try whose body reaches add_interaction must not swallow its rejection."""
    n = 0
    for rel, qual, fn, cls in all_functions(repo):
        name = qual.split(".")[-1]
        if functions is not None and name not in functions:
            continue
        for t in [x for x in walk_no_nested(fn) if isinstance(x, ast.Try)]:
            calls = [c for st in t.body for c in ast.walk(st) if isinstance(c, ast.Call) and isinstance(c.func, ast.Attribute)
                     and c.func.attr in ("add_interaction", "add_interactions_from")]
            if not calls:
                continue
            n += 1
            for h in t.handlers:
                names = _handler_names(h)
                silent = all(isinstance(s, (ast.Pass, ast.Continue)) or (isinstance(s, ast.Expr) and isinstance(s.value, ast.Constant))
                             for s in h.body)
                broad = [x for x in names if x in BROAD]
                ok = not (silent and broad)
                rep.ob("P6.swallow", repo.construct(rel, qual), "handler %s around add_interaction" % names, ok=ok)
                if not ok:
                    rep.finding("P6.swallow", repo.construct(rel, qual), "except-%s-pass" % (broad[0] or "bare"),
                                "a rejection (ValueError / NetworkXError) raised by add_interaction inside this try is silently "
                                "discarded by 'except %s: pass' - the conversion would return a graph that lacks presence" % (
                                    broad[0] or ""), line=h.lineno)
    return n
