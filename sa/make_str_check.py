"""make_str (dynetx/utils/misc.py) is the identity on strings and str() on everything else (C09, C10, C11).

The writers push every node id / timestamp through it and node_link_graph pushes every attribute key through it; the
properties need the text to come out unchanged.  The active definition (the one outside the ``if PY2`` arm) is interpreted
by constant propagation on a handful of values whose text would show any rewriting: inner / outer blanks, an underscore,
upper case, a non-ASCII letter, digits, an int, a negative int, a tuple."""
from __future__ import annotations
import ast
from .core import Repo, Report, CLASSES, AnalysisError
from .ordertype import OrderType
from .absint import Interp, Const, TupleV, AbstractRaise, BoundMethod
from .query_check import QueryWorld, SHAPES


class TextWorld(QueryWorld):
    def load_attr(self, ip, obj, attr, node):
        if isinstance(obj, Const) and isinstance(obj.v, (str, bytes)):
            return BoundMethod(obj, attr)
        return super().load_attr(ip, obj, attr, node)

MISC = "dynetx/utils/misc.py"
SAMPLES = ["a b", " a", "a ", "a_b", "Ab", "Äß", "007", "a\tb", "", 5, -3, 0]


def _active_def(tree):
    """the make_str the interpreter of today binds: a top-level def, or the one in the else-arm of ``if PY2``"""
    found = []
    for node in tree.body:
        if isinstance(node, ast.FunctionDef) and node.name == "make_str":
            found.append(node)
        if isinstance(node, ast.If):
            test = ast.unparse(node.test)
            arm = node.orelse if test in ("PY2", "sys.version_info[0] == 2", "sys.version_info[0] < 3") else (
                node.body if test in ("not PY2", "PY3", "sys.version_info[0] >= 3", "sys.version_info[0] == 3") else None)
            if arm is None:
                continue
            for sub in arm:
                if isinstance(sub, ast.FunctionDef) and sub.name == "make_str":
                    found.append(sub)
    return found[-1] if found else None


def check_make_str(repo: Repo, rep: Report):
    if MISC not in repo.modules:
        raise AnalysisError("anchor vanished: %s" % MISC)
    fn = _active_def(repo.modules[MISC])
    construct = repo.construct(MISC, "make_str")
    if fn is None:
        # imported from somewhere else (e.g. ``make_str = str``)?
        for node in repo.modules[MISC].body:
            if isinstance(node, ast.Assign) and any(isinstance(t, ast.Name) and t.id == "make_str" for t in node.targets):
                if isinstance(node.value, ast.Name) and node.value.id == "str":
                    rep.ob("P.make_str", construct, "make_str is str")
                    return 1
        raise AnalysisError("anchor vanished: make_str")
    params = [a.arg for a in fn.args.args]
    if len(params) != 1:
        raise AnalysisError("make_str: unexpected signature %s" % params)
    cls = "DynGraph"
    w = TextWorld(cls, SHAPES[False][0], {}, repo.class_methods(CLASSES[cls], cls), repo.functions(MISC))
    w.current_rel = MISC
    ot = OrderType([["t"]], [], 4)
    for x in SAMPLES:
        ip = Interp(w, ot, max_depth=6)
        try:
            val = ip.call_function(fn, {params[0]: Const(x)})
        except AbstractRaise as r:
            rep.finding("P.make_str", construct, "raises:%s" % r.exc, "make_str(%r) raises %s (%s)" % (x, r.exc, r.detail),
                        line=getattr(r.node, "lineno", 0))
            return 1
        if not (isinstance(val, Const) and isinstance(val.v, str) and val.v == str(x)):
            rep.finding("P.make_str", construct, "not-the-text", "make_str(%r) is %r: node ids, timestamps and attribute keys do not reach the "
                        "file / the rebuilt graph unchanged" % (x, getattr(val, "v", val)), line=fn.lineno)
            return 1
    rep.ob("P.make_str", construct, "make_str(x) == str(x) on %d values chosen to expose any rewriting of the text" % len(SAMPLES))
    return 1
