"""C17 (narrow): temporal statistics - sibling agreement, event index roles, denominators, interval length."""
from __future__ import annotations
import ast
import copy
from .core import Repo, Report, DYNGRAPH, DYNDIGRAPH, src, walk_no_nested, AnalysisError, const_value, is_self_attr

SIBLINGS = [
    (DYNGRAPH, "DynGraph", "inter_event_time_distribution", "ext[0] == u or ext[1] == u"),
    (DYNDIGRAPH, "DynDiGraph", "inter_event_time_distribution", "ext[0] == u or ext[1] == u"),
    (DYNDIGRAPH, "DynDiGraph", "inter_out_event_time_distribution", "ext[0] == u"),
    (DYNDIGRAPH, "DynDiGraph", "inter_in_event_time_distribution", "ext[1] == u"),
]


class _Norm(ast.NodeTransformer):
    def __init__(self):
        self.filters = []

    def visit_If(self, node):
        t = src(node.test)
        if "ext[" in t and "u" in {n.id for n in ast.walk(node.test) if isinstance(n, ast.Name)}:
            self.filters.append(t)
            node = copy.copy(node)
            node.test = ast.Name(id="NODE_FILTER", ctx=ast.Load())
        return self.generic_visit(node)


def _branches(fn):
    top = [s for s in fn.body if isinstance(s, ast.If)]
    if not top:
        raise AnalysisError("%s: the three-way dispatch on (u, v) was not found" % fn.name)
    i = top[0]
    out = {"global": i.body}
    if len(i.orelse) == 1 and isinstance(i.orelse[0], ast.If):
        j = i.orelse[0]
        out["node"] = j.body
        out["pair"] = j.orelse
    else:
        raise AnalysisError("%s: unexpected dispatch shape" % fn.name)
    return out


def _dump(stmts):
    return "\n".join(ast.dump(s, include_attributes=False) for s in stmts)


def check_inter_event(repo: Repo, rep: Report):
    n = 0
    ref = None
    for rel, cls, name, want_filter in SIBLINGS:
        fn = repo.get(rel, cls + "." + name)
        construct = repo.construct(rel, cls + "." + name)
        br = _branches(fn)
        norm = _Norm()
        node_branch = [norm.visit(copy.deepcopy(s)) for s in br["node"]]
        g = _dump(br["global"])
        nd = _dump(node_branch)
        # the tail of the pair branch: from the initialisation of the endpoint list onwards (how the pair's
        # timeline is fetched differs legitimately between the classes and the in/out variants)
        tail = []
        started = False
        for s in br["pair"]:
            if not started and isinstance(s, ast.Assign) and src(s) == "delta = []":
                started = True
            if started:
                tail.append(s)
        if not tail:
            raise AnalysisError("%s: the per-pair branch has no 'delta = []' anchor" % name)
        pr = _dump(tail)
        if ref is None:
            ref = (construct, g, nd, pr)
        for label, mine, theirs in (("global", g, ref[1]), ("per-node", nd, ref[2]), ("per-pair", pr, ref[3])):
            n += 1
            ok = mine == theirs
            rep.ob("S.siblings", construct, "%s branch agrees with %s" % (label, ref[0].split("::")[1]), ok=ok)
            if not ok:
                rep.finding("S.siblings", construct, "diverges:%s" % label,
                            "the %s branch of %s differs from its sibling %s beyond the node filter: the four inter-event "
                            "distributions must measure gaps the same way (gap = time of this event - time of the previous selected "
                            "event, previous := this)" % (label, name, ref[0].split("::")[1]), line=fn.lineno)
        n += 1
        ok = norm.filters == [want_filter]
        rep.ob("S.siblings", construct, "node filter is %s" % want_filter, ok=ok)
        if not ok:
            rep.finding("S.siblings", construct, "node-filter", "%s selects events with %s, expected %s (Event = (source, target, op, time))" % (
                name, norm.filters, want_filter), line=fn.lineno)
        # semantic mini-rules on every stream loop
        for loop in [l for l in walk_no_nested(fn) if isinstance(l, ast.For)]:
            if not (isinstance(loop.iter, ast.Call) and isinstance(loop.iter.func, ast.Attribute) and loop.iter.func.attr == "stream_interactions"):
                continue
            ev = loop.target.id if isinstance(loop.target, ast.Name) else None
            gaps = [a for a in ast.walk(loop) if isinstance(a, ast.Assign) and isinstance(a.value, ast.BinOp) and isinstance(a.value.op, ast.Sub)]
            n += 1
            good_gap = [a for a in gaps if src(a.value) in ("%s[-1] - delta[-1]" % ev, "%s[3] - delta[3]" % ev)]
            rep.ob("K.event-roles", construct, "gap = event time - previous event time", ok=bool(good_gap))
            if not good_gap:
                rep.finding("K.event-roles", construct, "gap-roles", "no gap computed as %s[-1] - delta[-1] (time component of the event tuples)" % ev,
                            line=loop.lineno)
            for a in good_gap:
                blk = _enclosing_block(loop, a)
                upd = any(isinstance(s, ast.Assign) and src(s) == "delta = %s" % ev for s in blk)
                n += 1
                rep.ob("S.prev-update", construct, "previous event advanced where a gap is counted", ok=upd)
                if not upd:
                    rep.finding("S.prev-update", construct, "previous-not-advanced",
                                "a gap is measured against 'delta' but delta is not advanced to the current event in the same block: every "
                                "gap would be measured from the first selected event", line=a.lineno)
        glob = br["global"]
        n += 1
        ok = any(isinstance(l, ast.For) and isinstance(l.iter, ast.Call) and isinstance(l.iter.func, ast.Attribute)
                 and l.iter.func.attr == "stream_interactions" for s in glob for l in ast.walk(s))
        rep.ob("S.stream-source", construct, "global distribution walks stream_interactions()", ok=ok)
        if not ok:
            rep.finding("S.stream-source", construct, "global-not-from-stream", "the global inter-event distribution is not computed from the "
                        "chronological event stream", line=fn.lineno)
    return n


def _enclosing_block(root, stmt):
    for node in ast.walk(root):
        for f in ("body", "orelse", "finalbody"):
            blk = getattr(node, f, None)
            if isinstance(blk, list) and any(s is stmt for s in blk):
                return blk
    return []


def _resolve(fn, e):
    defs = {}
    for n in walk_no_nested(fn):
        if isinstance(n, ast.Assign) and len(n.targets) == 1 and isinstance(n.targets[0], ast.Name):
            defs.setdefault(n.targets[0].id, []).append(n.value)
    seen = set()
    while isinstance(e, ast.Name) and e.id in defs and len(defs[e.id]) == 1 and e.id not in seen:
        seen.add(e.id)
        e = defs[e.id][0]
    return e


def _is_snapshot_count(e):
    return isinstance(e, ast.Call) and isinstance(e.func, ast.Name) and e.func.id == "len" and e.args and (
        is_self_attr(e.args[0], "snapshots") or (isinstance(e.args[0], ast.Call) and isinstance(e.args[0].func, ast.Attribute)
                                                 and e.args[0].func.attr in ("temporal_snapshots_ids", "keys")))


def check_denominators(repo: Repo, rep: Report):
    n = 0
    for name in ("coverage", "node_contribution", "edge_contribution"):
        fn = repo.get(DYNGRAPH, "DynGraph." + name)
        construct = repo.construct(DYNGRAPH, "DynGraph." + name)
        rets = [r for r in walk_no_nested(fn) if isinstance(r, ast.Return) and r.value is not None]
        n += 1
        ok = False
        why = "no single 'return x / ...'"
        if len(rets) == 1 and isinstance(rets[0].value, ast.BinOp) and isinstance(rets[0].value.op, ast.Div):
            den = rets[0].value.right
            factors = []
            def split(e):
                if isinstance(e, ast.BinOp) and isinstance(e.op, ast.Mult):
                    split(e.left); split(e.right)
                else:
                    factors.append(_resolve(fn, e))
            split(den)
            t_ok = any(_is_snapshot_count(f) for f in factors)
            others = [f for f in factors if not _is_snapshot_count(f)]
            v_ok = True
            if name == "coverage":
                v_ok = len(others) == 1 and isinstance(others[0], ast.Call) and isinstance(others[0].func, ast.Attribute) \
                    and others[0].func.attr == "number_of_nodes" and not others[0].args and not others[0].keywords
            else:
                v_ok = not others
            ok = t_ok and v_ok
            why = "denominator %s resolves to %s" % (src(den), " * ".join(src(f) for f in factors))
        rep.ob("S.denominator", construct, "|T| is the number of snapshot ids%s" % (" and |V| the number of nodes" if name == "coverage" else ""), ok=ok)
        if not ok:
            rep.finding("S.denominator", construct, "denominator", "%s: %s; the definition divides by the number of snapshot ids%s" % (
                name, why, " times the number of nodes" if name == "coverage" else ""), line=fn.lineno)
    return n
