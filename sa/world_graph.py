"""Abstract graph state (``self``) for interpreting DynGraph / DynDiGraph mutators.

The world describes one *pair* (U, V) and its neighbourhood in the stores:

  adjacency   self._adj / _succ / _pred          (does the pair exist? which dict is linked?)
  nodes       self._node                          (do U, V exist?)
  event log   self.time_to_edge[instant]          (this pair's events under both key orientations;
                                                   events of other pairs only through "a dict exists
                                                   at this instant", which is a *choice*)
  counters    self.snapshots[instant]

Every mutation of state reachable from ``self`` is appended to ``effects`` so that
rules can ask "was anything written before this raise?" (C07) and compare the
post-state with a specification (C01/C03/C04/C05/C08).
"""
from __future__ import annotations
import ast
from .absint import (Interp, Int, Const, NONE, TRUE, FALSE, NodeV, TupleV, ListObj, DictObj, RangeV, LoopVar,
                     SelfV, BoundMethod, Opaque, Unsupported, AbstractRaise, Fork, truth, TypeV)
from .ordertype import Undetermined


class ForeignPairAccess(AbstractRaise):
    """The directed mutator reaches for the stored data of the *reverse* pair (v, u): pairs are ordered and independent."""

    def __init__(self, node):
        super().__init__("ForeignPairAccess", node, detail="reads or writes the attribute dict of the reverse pair")


class AdjMap:
    def __init__(self, store):
        self.store = store          # 'adj' | 'succ' | 'pred'

    def __repr__(self):
        return "self.<%s>" % self.store


class AdjRow:
    def __init__(self, store, role):
        self.store, self.role = store, role

    def __repr__(self):
        return "self.<%s>[%s]" % (self.store, self.role)


class NodeMap:
    def __repr__(self):
        return "self._node"


class TTE:
    def __repr__(self):
        return "self.time_to_edge"


class TTEDict:
    def __init__(self, entry):
        self.entry = entry

    def __repr__(self):
        return "self.time_to_edge[%r]" % (self.entry.instant,)


class ZeroInt:
    """defaultdict(int) default: indexing a missing instant yields the int 0 (and stores it)."""

    def __repr__(self):
        return "0 (defaultdict default)"


class MinLen:
    """len() of a list of which only a lower bound is known (a timeline with earlier intervals)."""

    def __init__(self, n):
        self.n = n

    def __repr__(self):
        return "len>=%d" % self.n


class SnapIds:
    """The sorted list of snapshot ids (only its extremes are modelled)."""

    def __repr__(self):
        return "self.temporal_snapshots_ids()"


class ArbitraryIds:
    """Snapshot ids in an order that is not the sorted one (insertion order of the dict)."""


class Snapshots:
    def __repr__(self):
        return "self.snapshots"


class TTEEntry:
    def __init__(self, instant, exists, own=()):
        self.instant = instant
        self.exists = exists
        self.init_own = frozenset()
        self.own = set(own)       # {(orientation, op)}
        self.is_int0 = False
        self.touched = False


ATTR_STORE = {
    # attribute name -> abstract store, per class kind
    False: {"_adj": "adj", "adj": "adj"},
    True: {"_adj": "succ", "adj": "succ", "_succ": "succ", "succ": "succ", "_pred": "pred", "pred": "pred"},
}


class GraphWorld:
    """See module docstring.  cfg keys: cls, directed, removal, exists, closed, L, has_prefix."""

    def __init__(self, cfg, ot, choices, repo_methods=None):
        self.cfg = cfg
        self.ot = ot
        self.choices = choices
        self.directed = cfg["directed"]
        self.methods = repo_methods or {}
        from .core import CLASSES as _C
        self.current_rel = _C.get(cfg.get("cls"))
        self.effects = []           # (effect tuple, line)
        self.errors = []
        self.node_created = {}      # role -> True when created in this run
        self.adj_inited = set()     # (store, role)
        self.links = []             # (store, r1, r2, obj)
        self.snap_effects = []      # ('range', lo, hi_excl, c) | ('point', term, c)
        self.tte = []               # list[TTEEntry]
        self.tte_clobber = []
        self.instants = []
        self.datadict = None
        self.timeline = None
        self.last = None
        self.first = None
        self.new_dicts = []
        self.swapped = False
        if cfg.get("exists") and cfg.get("intervals"):
            # query-side worlds: a fully explicit canonical timeline [a1,b1], [a2,b2], ...
            ivs = [ListObj([Int("a%d" % i), Int("b%d" % i)], persistent=True, tag="interval:%d" % i)
                   for i in range(1, cfg["intervals"] + 1)]
            self.first, self.last = ivs[0], ivs[-1]
            self.timeline = ListObj(ivs, persistent=True, tag="timeline")
            self.datadict = DictObj({Const("t"): self.timeline}, persistent=True, tag="datadict")
        elif cfg.get("exists"):
            a, b = Int("a"), Int("b")
            self.last = ListObj([a, b], persistent=True, tag="interval:last")
            items = [self.last]
            if cfg.get("has_prefix"):
                self.first = ListObj([Int("z"), Int("z", 0)], persistent=True, tag="interval:first")
                # the prefix stands for one or more earlier intervals; only its first start is observable
                items = [self.first, self.last]
            else:
                self.first = self.last
            self.timeline = ListObj(items, persistent=True, tag="timeline")
            self.timeline.has_prefix = bool(cfg.get("has_prefix"))
            self.datadict = DictObj({Const("t"): self.timeline}, persistent=True, tag="datadict")
            L = cfg.get("L", "uv")
            # event-log invariant of the pre-state
            if cfg.get("removal", True) or not cfg.get("has_prefix"):
                # accumulative graphs log a '+' only at the pair's first appearance
                self._entry(Int("a"), create=True, exists=True).own.add((L, "+"))
            if cfg.get("has_prefix"):
                self._entry(Int("z"), create=True, exists=True).own.add((L, "+"))
            if cfg.get("closed"):
                self._entry(Int("b", 1), create=True, exists=True).own.add((L, "-"))
            if cfg.get("prev_run"):
                # an explicit earlier run [p, q] (q + 2 <= a) with its own events, used by the rejection worlds
                self.prev = ListObj([Int("p"), Int("q")], persistent=True, tag="interval:previous")
                self.timeline.items.insert(len(self.timeline.items) - 1, self.prev)
                if cfg.get("removal", True):
                    self._entry(Int("p"), create=True, exists=True).own.add((L, "+"))
                    if cfg.get("prev_closed"):
                        self._entry(Int("q", 1), create=True, exists=True).own.add((L, "-"))
                elif not cfg.get("has_prefix"):
                    # accumulative: the only '+' of the pair sits at its first appearance
                    for en in self.tte:
                        en.own.discard((L, "+"))
                    self._entry(Int("p"), create=True, exists=True).own.add((L, "+"))
        for en in self.tte:
            en.init_own = frozenset(en.own)
        self._heap0 = self._heap_repr()

    # -- net state change (what a rejected call may not leave behind) -------------------------------
    def _heap_repr(self):
        def r(x):
            if isinstance(x, ListObj):
                return "[" + ",".join(r(i) for i in x.items) + "]"
            if isinstance(x, DictObj):
                return "{" + ",".join("%r:%s" % (k, r(v)) for k, v in x.entries.items()) + "}"
            return repr(x)
        return r(self.datadict) if self.datadict is not None else ""

    def net_changes(self):
        """Effects that are still visible in the abstract state: a write that was taken back exactly (an event added and
        removed again, a list item appended and popped) is not a trace.  Emptied or newly created *empty* buckets of the event
        log are not observable through the stream and do not count; an int 0 bucket (defaultdict) does."""
        out = []
        for eff, line in self.effects:
            if not (eff[0].startswith("tte_") or eff[0].startswith("heap_")):
                out.append((eff, line))
        first_line = {}
        for eff, line in self.effects:
            first_line.setdefault(eff[0].split("_")[0], line)
        for en in self.tte:
            init = getattr(en, "init_own", frozenset())
            if frozenset(en.own) != init:
                out.append((("tte_net", repr(en.instant), "added %s removed %s" % (sorted(set(en.own) - init), sorted(init - set(en.own)))),
                            first_line.get("tte", 0)))
            if en.is_int0:
                out.append((("tte_default_int", repr(en.instant)), first_line.get("tte", 0)))
        for err in self.errors:
            if err[0] == "tte_instant_deleted":
                out.append((("tte_instant_deleted", err[1]), err[-1]))
        if self._heap_repr() != self._heap0:
            out.append((("heap_net", "timeline/data dict %s -> %s" % (self._heap0, self._heap_repr())), first_line.get("heap", 0)))
        return out

    # -- choices -------------------------------------------------------------
    def choose(self, key):
        if key not in self.choices:
            raise Fork(key)
        return self.choices[key]

    def effect(self, eff, node=None):
        self.effects.append((eff, getattr(node, "lineno", 0)))

    # -- helpers ---------------------------------------------------------------
    def cmp_special(self, a, b, op):
        """'z' (start of the first of several earlier intervals) lies below every other symbol."""
        if a.base == "z" or b.base == "z":
            if a.base == b.base:
                return {"<": a.k < b.k, "<=": a.k <= b.k, ">": a.k > b.k, ">=": a.k >= b.k,
                        "==": a.k == b.k, "!=": a.k != b.k}[op]
            lo = a.base == "z"          # a is far below b
            return {"<": lo, "<=": lo, ">": not lo, ">=": not lo, "==": False, "!=": True}[op]
        return None

    def nodes_equal(self, a, b):
        # U and V are distinct roles; a self-loop (u == v) is the sub-case where both orientations coincide
        return False

    def _eq_instant(self, x, y):
        r = self.cmp_special(x, y, "==")
        if r is not None:
            return r
        return self.ot.cmp_terms(x.term(), y.term(), "==")

    def _entry(self, instant, create=False, exists=None):
        if not isinstance(instant, Int):
            raise Unsupported(None, "event-log instant %r" % (instant,))
        for en in self.tte:
            if self._eq_instant(en.instant, instant):
                return en
        idx = len(self.tte)
        if exists is None:
            exists = self.choose(("tte_dict_exists", idx))
        en = TTEEntry(instant, exists)
        self.tte.append(en)
        return en

    def ori(self, key, node):
        if not (isinstance(key, TupleV) and len(key.items) == 3 and isinstance(key.items[0], NodeV)
                and isinstance(key.items[1], NodeV) and isinstance(key.items[2], Const)):
            raise Unsupported(node, "event-log key %r" % (key,))
        r0, r1, op = key.items[0].role, key.items[1].role, key.items[2].v
        if (r0, r1) == ("U", "V"):
            o = "uv"
        elif (r0, r1) == ("V", "U"):
            o = "vu"
        else:
            o = "%s%s" % (r0.lower(), r1.lower())
        return o, op

    def node_exists(self, role):
        if self.node_created.get(role):
            return True
        if self.cfg.get("exists"):
            return True
        if self.cfg.get("directed") and self.choices.get("rev_pair_exists"):
            return True
        return self.choose(("node_exists", role))

    def pair_exists(self, store, r1, r2):
        """Is there an adjacency entry store[r1][r2]?"""
        for (s, a, b, obj) in self.links:
            if (s, a, b) == (store, r1, r2):
                return True
        if self.cfg.get("loop"):
            return bool(self.cfg.get("exists")) and (r1, r2) == ("U", "U")
        if not self.directed:
            if r1 == r2:
                return False
            return bool(self.cfg.get("exists")) if {r1, r2} == {"U", "V"} else self._other_pair(r1, r2)
        fwd = (store == "succ" and (r1, r2) == ("U", "V")) or (store == "pred" and (r1, r2) == ("V", "U"))
        if fwd:
            return bool(self.cfg.get("exists"))
        rev = (store == "succ" and (r1, r2) == ("V", "U")) or (store == "pred" and (r1, r2) == ("U", "V"))
        if rev:
            if not (self.node_exists("U") and self.node_exists("V")):
                return False
            return self.choose("rev_pair_exists")
        return self._other_pair(r1, r2)

    def _other_pair(self, r1, r2):
        raise Unsupported(None, "adjacency of an unrelated pair (%s,%s)" % (r1, r2))

    def pair_dict(self, store, r1, r2, node):
        for (s, a, b, obj) in reversed(self.links):
            if (s, a, b) == (store, r1, r2):
                return obj
        if not self.pair_exists(store, r1, r2):
            raise AbstractRaise("KeyError", node, detail="no adjacency entry %s[%s][%s]" % (store, r1, r2))
        if not self.directed:
            return self.datadict
        fwd = (store == "succ" and (r1, r2) == ("U", "V")) or (store == "pred" and (r1, r2) == ("V", "U"))
        if fwd:
            return self.datadict
        self.errors.append(("foreign_pair_data", "%s[%s][%s]" % (store, r1, r2), getattr(node, "lineno", 0)))
        raise ForeignPairAccess(node)

    # -- interpreter hooks ---------------------------------------------------------
    def load_attr(self, ip, obj, attr, node):
        if isinstance(obj, SelfV):
            stores = ATTR_STORE[self.directed]
            if attr in stores:
                return AdjMap(stores[attr])
            if attr == "_node":
                return NodeMap()
            if attr == "time_to_edge":
                return TTE()
            if attr == "snapshots":
                return Snapshots()
            if attr == "edge_removal":
                return Const(bool(self.cfg["removal"]))
            if attr == "directed":
                return Const(bool(self.directed))
            if attr in self.__dict__.get("aux_attrs", {}):
                return self.aux_attrs[attr]
            if attr.startswith("_") and not attr.startswith("__") and attr not in self.methods:
                return Opaque("self." + attr)
            return BoundMethod(obj, attr)
        if isinstance(obj, (TTE, AdjRow, TTEDict, Snapshots, AdjMap, NodeMap)):
            return BoundMethod(obj, attr)
        if isinstance(obj, Opaque):
            return Opaque(obj.tag + "." + attr)
        raise Unsupported(node, "attribute %s of %r" % (attr, obj))

    def store_attr(self, ip, obj, attr, v, node):
        if isinstance(obj, SelfV) and attr not in ATTR_STORE[True] and attr not in ("_node", "time_to_edge", "snapshots",
                                                                                 "edge_removal", "directed"):
            # an auxiliary attribute (a cache, a flag): recorded as a state write, value remembered
            self.effect(("self_attr_store", attr), node)
            self.__dict__.setdefault("aux_attrs", {})[attr] = v
            return
        raise Unsupported(node, "attribute store %r.%s" % (obj, attr))

    def contains(self, ip, container, x, node):
        if isinstance(container, (AdjMap, NodeMap)):
            if isinstance(x, NodeV):
                return self.node_exists(x.role)
            raise Unsupported(node, "membership of %r in %r" % (x, container))
        if isinstance(container, AdjRow):
            if isinstance(x, NodeV):
                return self.pair_exists(container.store, container.role, x.role)
            raise Unsupported(node, "membership of %r in %r" % (x, container))
        if isinstance(container, TTE):
            if isinstance(x, Const) and not isinstance(x.v, (int, float)):
                return False          # None (an omitted vanishing time) is never an instant of the log
            en = self._entry(x)
            return en.exists
        if isinstance(container, TTEDict):
            o, op = self.ori(x, node)
            return self._own_has(container.entry, o, op)
        if isinstance(container, ZeroInt):
            raise AbstractRaise("TypeError", node, detail="membership test on the int 0 that time_to_edge "
                                "(a defaultdict(int)) returns for an instant without events")
        if isinstance(container, Snapshots):
            return self.snap_contains(x, node)
        raise Unsupported(node, "membership in %r" % (container,))

    def _own_has(self, entry, o, op):
        if self.directed and o != "uv":
            # key of another (the reverse) pair: unknown to this analysis
            return self.choose(("foreign_event", repr(entry.instant), o, op))
        return (o, op) in entry.own

    def load_subscript(self, ip, obj, key, node):
        if isinstance(obj, AdjMap):
            if isinstance(key, NodeV):
                if not self.node_exists(key.role):
                    raise AbstractRaise("KeyError", node, detail="%r has no row for %r" % (obj, key))
                return AdjRow(obj.store, key.role)
        if isinstance(obj, AdjRow) and isinstance(key, NodeV):
            return self.pair_dict(obj.store, obj.role, key.role, node)
        if isinstance(obj, TTE):
            en = self._entry(key)
            if not en.exists:
                kind = self.cfg.get("tte_kind", "defaultdict(int)")
                if kind == "defaultdict(int)":
                    # defaultdict(int).__getitem__ stores and returns 0
                    en.exists = True
                    en.is_int0 = True
                    self.effect(("tte_default_int", repr(key)), node)
                    return ZeroInt()
                if kind == "defaultdict(dict)":
                    en.exists = True
                    self.effect(("tte_default_dict", repr(key)), node)
                    return TTEDict(en)
                raise AbstractRaise("KeyError", node, detail="time_to_edge has no entry for %r" % (key,))
            if en.is_int0:
                return ZeroInt()
            return TTEDict(en)
        if isinstance(obj, TTEDict):
            o, op = self.ori(key, node)
            if not self._own_has(obj.entry, o, op):
                raise AbstractRaise("KeyError", node, detail="no event %s at %r" % ((o, op), obj.entry.instant))
            return NONE
        if isinstance(obj, ZeroInt):
            raise AbstractRaise("TypeError", node, detail="subscript of the int 0 returned by time_to_edge")
        if isinstance(obj, NodeMap) and isinstance(key, NodeV):
            if not self.node_exists(key.role):
                raise AbstractRaise("KeyError", node)
            return Opaque("node attributes")
        if isinstance(obj, SnapIds) and isinstance(key, Const) and key.v in (0, -1):
            sym = "M" if key.v == -1 else "m"
            if not self.ot.has(sym):
                raise Unsupported(node, "extreme snapshot id not modelled in this world")
            return Int(sym)
        if isinstance(obj, (ArbitraryIds,)) or (isinstance(obj, SnapIds) and not isinstance(key, Const)):
            if not self.ot.has("K"):
                raise Unsupported(node, "an arbitrary snapshot id is not modelled in this world")
            return Int("K")
        if isinstance(obj, Snapshots):
            if not self.snap_contains(key, node):
                if self.cfg.get("snap_kind", "dict") == "defaultdict(int)":
                    # reading a missing counter of a defaultdict creates the key
                    self._snap_record(key, "default_created", 0, node)
                    return Opaque("counter")
                raise AbstractRaise("KeyError", node, detail="read of a missing snapshot counter")
            return Opaque("counter")
        if isinstance(obj, Opaque):
            raise Unsupported(node, "subscript of %r" % (obj,))
        raise Unsupported(node, "subscript %r[%r]" % (obj, key))

    def load_list_item(self, ip, obj, key, node):
        # timeline with an abstract prefix: only [0] and [-1] (and [-1] of the explicit part) are meaningful
        if obj is self.timeline and getattr(obj, "has_prefix", False):
            if isinstance(key, Const) and key.v == 0:
                return self.first
            if isinstance(key, Const) and key.v == -1:
                return obj.items[-1]
            raise Unsupported(node, "index %r into a timeline of unknown length" % (key,))
        return None

    def list_len(self, ip, obj, node):
        if obj is self.timeline and getattr(obj, "has_prefix", False):
            return MinLen(len(obj.items))
        return None

    def load_slice(self, ip, obj, sl, env, node):
        raise Unsupported(node, "slice")

    def store_subscript(self, ip, obj, key, v, node, aug=None):
        if isinstance(obj, AdjMap):
            if isinstance(key, NodeV) and isinstance(v, DictObj) and not v.entries:
                present = self.node_exists(key.role) if (obj.store, key.role) not in self.adj_inited else True
                self.adj_inited.add((obj.store, key.role))
                self.effect(("adj_row_init", obj.store, key.role, "present" if present else "absent"), node)
                if present:
                    self.errors.append(("adj_row_reset", obj.store, key.role, getattr(node, "lineno", 0)))
                return
            raise Unsupported(node, "store %r[%r] = %r" % (obj, key, v))
        if isinstance(obj, NodeMap):
            if isinstance(key, NodeV) and isinstance(v, DictObj) and not v.entries:
                present = self.node_created.get(key.role) or self._node_present_quiet(key.role)
                self.effect(("node_init", key.role, "present" if present else "absent"), node)
                if present:
                    self.errors.append(("node_attr_reset", key.role, getattr(node, "lineno", 0)))
                self.node_created[key.role] = True
                return
            raise Unsupported(node, "store %r[%r] = %r" % (obj, key, v))
        if isinstance(obj, AdjRow):
            if isinstance(key, NodeV):
                self.effect(("link", obj.store, obj.role, key.role), node)
                self.links.append((obj.store, obj.role, key.role, v))
                return
        if isinstance(obj, TTE):
            en = self._entry(key)
            if not isinstance(v, DictObj):
                raise Unsupported(node, "time_to_edge[..] = %r" % (v,))
            if en.exists and not en.is_int0:
                self.tte_clobber.append((repr(en.instant), getattr(node, "lineno", 0)))
            own = set()
            for k in v.entries:
                o, op = self.ori(k, node)
                self._foreign_write(o, op, en, node)
                own.add((o, op))
            self.effect(("tte_new_dict", repr(key), sorted(own)), node)
            en.exists, en.is_int0, en.own, en.touched = True, False, own, True
            return
        if isinstance(obj, TTEDict):
            o, op = self.ori(key, node)
            self._foreign_write(o, op, obj.entry, node)
            self.effect(("tte_add", repr(obj.entry.instant), o, op), node)
            obj.entry.own.add((o, op))
            obj.entry.touched = True
            return
        if isinstance(obj, ZeroInt):
            raise AbstractRaise("TypeError", node, detail="item assignment on the int 0 returned by time_to_edge")
        if isinstance(obj, Snapshots):
            self.snap_store(ip, key, v, node, aug)
            return
        raise Unsupported(node, "store %r[%r]" % (obj, key))

    def _foreign_write(self, o, op, en, node):
        if self.directed and o != "uv":
            self.errors.append(("foreign_event_write", o, op, repr(en.instant), getattr(node, "lineno", 0)))

    def _node_present_quiet(self, role):
        if self.cfg.get("exists"):
            return True
        k = ("node_exists", role)
        if k in self.choices:
            return self.choices[k]
        return self.node_exists(role)

    def delete_subscript(self, ip, obj, key, node):
        if isinstance(obj, TTEDict):
            o, op = self.ori(key, node)
            if self.directed and o != "uv":
                self.errors.append(("foreign_event_write", o, op, repr(obj.entry.instant), getattr(node, "lineno", 0)))
                return
            if (o, op) not in obj.entry.own:
                raise AbstractRaise("KeyError", node, detail="del of missing event %s at %r" % ((o, op), obj.entry.instant))
            self.effect(("tte_del", repr(obj.entry.instant), o, op), node)
            obj.entry.own.discard((o, op))
            obj.entry.touched = True
            return
        if isinstance(obj, ZeroInt):
            raise AbstractRaise("TypeError", node, detail="del on the int 0 returned by time_to_edge")
        if isinstance(obj, TTE):
            en = self._entry(key)
            if not en.exists:
                raise AbstractRaise("KeyError", node, detail="del of an instant that has no bucket")
            if en.own or en.is_int0 or self.choose(("other_events_at", repr(en.instant))):
                # events (of this pair or of others) are thrown away with the bucket
                self.errors.append(("tte_instant_deleted", repr(en.instant), getattr(node, "lineno", 0)))
            self.effect(("tte_del_instant", repr(key)), node)
            en.exists = False
            en.own = set()
            return
        raise Unsupported(node, "del %r[%r]" % (obj, key))

    # -- snapshots ---------------------------------------------------------------------
    def snap_contains(self, x, node):
        if isinstance(x, LoopVar):
            return self.choose(("snap_has_loopvar", 0))
        if isinstance(x, Int):
            # was the instant already a key?  (points are compared structurally)
            for i, (t, present) in enumerate(getattr(self, "_snap_points", [])):
                if self._eq_instant(t, x):
                    return present
            pts = self.__dict__.setdefault("_snap_points", [])
            present = self.choose(("snap_has", len(pts)))
            pts.append((x, present))
            return present
        raise Unsupported(node, "snapshot membership of %r" % (x,))

    def snap_store(self, ip, key, v, node, aug):
        if aug is not None:
            cur, op, rhs = aug
            if not (isinstance(op, ast.Add) and isinstance(rhs, Const) and isinstance(rhs.v, int)):
                raise Unsupported(node, "snapshot counter update")
            if not self.snap_contains(key, node):
                if self.cfg.get("snap_kind", "dict") == "defaultdict(int)":
                    self._snap_record(key, "set_absent", rhs.v, node)
                    return
                raise AbstractRaise("KeyError", node, detail="+= on a missing snapshot counter")
            self._snap_record(key, "inc", rhs.v, node)
            return
        if isinstance(v, Opaque) and v.tag.startswith("counter+"):
            # snapshots[k] = snapshots[k] + c  /  snapshots.get(k, 0) + c on a present key
            self._snap_record(key, "inc", int(v.tag[len("counter+"):]), node)
            return
        if isinstance(v, Const) and isinstance(v.v, int):
            present = self.snap_contains(key, node)
            self._snap_record(key, "set_present" if present else "set_absent", v.v, node)
            if isinstance(key, Int):
                for i, (t, p) in enumerate(self._snap_points):
                    if self._eq_instant(t, key):
                        self._snap_points[i] = (t, True)
            return
        raise Unsupported(node, "snapshot store %r" % (v,))

    def _snap_record(self, key, kind, c, node):
        self.effect(("snap", repr(key), kind, c), node)
        self.snap_effects.append((key, kind, c, getattr(node, "lineno", 0)))

    def load_counter(self, key, node):
        return Opaque("counter")

    def summarise_range_loop(self, ip, st, rng, env):
        """for x in range(lo, hi): <body touching only self.snapshots[x]>  ->  one range effect.

        The body is interpreted for a generic element twice (counter present / absent);
        both runs must amount to "raise the counter by c" with the same c.
        """
        if not isinstance(st.target, ast.Name):
            raise Unsupported(st, "loop target")
        empty = ip.cmp_int(rng.lo, rng.hi, ">=", st)
        if empty:
            return
        outcomes = {}
        for present in (True, False):
            saved_eff, saved_snap = list(self.effects), list(self.snap_effects)
            saved_choice = dict(self.choices)
            self.choices[("snap_has_loopvar", 0)] = present
            lv = LoopVar(rng)
            env2 = dict(env)
            env2[st.target.id] = lv
            try:
                ip.run_loop_body(st, env2)
            except Fork:
                raise
            finally:
                self.choices.clear()
                self.choices.update(saved_choice)
            new_eff = self.effects[len(saved_eff):]
            new_snap = self.snap_effects[len(saved_snap):]
            self.effects[:] = saved_eff
            self.snap_effects[:] = saved_snap
            if len(new_eff) != len(new_snap):
                raise Unsupported(st, "range loop body with effects other than snapshot counters")
            outcomes[present] = [(k, c) for (key, k, c, ln) in new_snap if isinstance(key, LoopVar)]
            if len(outcomes[present]) != len(new_snap):
                raise Unsupported(st, "range loop body touching a counter other than the loop instant")
            for name in list(env2):
                if name != st.target.id and (name not in env or env[name] is not env2[name]):
                    if name not in env:
                        continue
                    raise Unsupported(st, "range loop body rebinding %s" % name)
        self.effect(("snap_range", repr(rng.lo), repr(rng.hi), outcomes[True], outcomes[False]), st)
        self.snap_effects.append((rng, "range", (outcomes[True], outcomes[False]), st.lineno))

    def on_handler(self, ip, r, handler):
        pass

    def generic_elements(self, ip, it, node):
        return None

    def eval_fstring(self, ip, parts, node):
        return None

    def truth_of(self, ip, v):
        if isinstance(v, TTEDict):
            # the bucket of an instant: non-empty when it holds an event of this pair or of any other pair
            if v.entry.own:
                return True
            return self.choose(("other_events_at", repr(v.entry.instant)))
        if isinstance(v, ZeroInt):
            return False
        return None

    def type_of(self, ip, v):
        return None

    def resolve_name(self, ip, name, node):
        return None

    def adjacency_rows(self, store):
        """Concrete view of an adjacency store for the modelled pair: {role: {role: datadict}}."""
        if not self.cfg.get("exists"):
            raise Unsupported(None, "enumeration of the adjacency in a world without a stored pair")
        u, v = "U", ("U" if self.cfg.get("loop") else "V")
        rows = {u: {}, v: {}}
        if self.directed:
            if store == "succ":
                rows[u][v] = self.datadict
            else:
                rows[v][u] = self.datadict
        else:
            rows[u][v] = self.datadict
            rows[v][u] = self.datadict
        return rows

    def concretise_iter(self, ip, it, node):
        if isinstance(it, AdjMap):
            return ListObj([NodeV(r) for r in self.adjacency_rows(it.store)])
        if isinstance(it, AdjRow):
            return ListObj([NodeV(r) for r in self.adjacency_rows(it.store).get(it.role, {})])
        if isinstance(it, NodeMap):
            return ListObj([NodeV(r) for r in self.adjacency_rows("succ" if self.directed else "adj")])
        return None

    def exec_special_for(self, ip, st, it, env):
        raise Unsupported(st, "iteration over %r" % (it,))

    def eval_comprehension(self, ip, e, env):
        raise Unsupported(e, "comprehension")

    def binop(self, ip, a, op, b, node):
        if isinstance(a, Opaque) and a.tag == "counter" and isinstance(b, Const):
            if isinstance(op, (ast.Div, ast.FloorDiv)):
                return Opaque("counter/%s" % b.v)
            if isinstance(op, ast.Add) and isinstance(b.v, int):
                return Opaque("counter+%d" % b.v)
            return Opaque("counter")
        if isinstance(b, Opaque) and b.tag == "counter" and isinstance(a, Const) and isinstance(op, ast.Add) and isinstance(a.v, int):
            return Opaque("counter+%d" % a.v)
        return None

    def on_yield(self, ip, v, node):
        self.__dict__.setdefault("yields", []).append(v)

    def compare(self, ip, a, sym, b, node):
        if isinstance(a, NodeV) and isinstance(b, NodeV) and sym in ("<", "<=", ">", ">="):
            # node ids are arbitrary hashables: they need not be orderable, and if they are the order is arbitrary
            if a.role == b.role:
                return sym in ("<=", ">=")
            if not self.choose("node-ids-orderable"):
                raise AbstractRaise("TypeError", node, detail="'%s' between node ids that are not orderable (e.g. an int and a str)" % sym)
            first, second = sorted((a.role, b.role))
            lt = self.choose("node-order:%s<%s" % (first, second))
            a_lt_b = lt if a.role == first else not lt
            return a_lt_b if sym in ("<", "<=") else not a_lt_b
        if isinstance(a, MinLen) and isinstance(b, Const) and isinstance(b.v, int):
            m, c = a.n, b.v
            if sym == ">" and m > c:
                return True
            if sym == ">=" and m >= c:
                return True
            if sym == "<" and m >= c:
                return False
            if sym == "<=" and m > c:
                return False
            if sym == "==" and m > c:
                return False
            if sym == "!=" and m > c:
                return True
            raise Unsupported(node, "length of a timeline of unknown size compared with %d" % c)
        return None

    def call_builtin(self, ip, name, args, kwargs, node):
        if name in ("reversed", "iter", "list", "tuple") and len(args) == 1 and isinstance(args[0], (Snapshots, SnapIds)):
            if isinstance(args[0], SnapIds) and name in ("list", "tuple"):
                return args[0]
            return ArbitraryIds()
        if name == "next" and len(args) >= 1 and isinstance(args[0], ArbitraryIds):
            if not self.ot.has("K"):
                raise Unsupported(node, "an arbitrary snapshot id is not modelled in this world")
            return Int("K")
        return None

    def call_minmax(self, ip, name, args, node):
        if len(args) == 1 and isinstance(args[0], (SnapIds, Snapshots)):
            # the largest / smallest snapshot id of the graph: symbols M / m of the order type
            sym = "M" if name == "max" else "m"
            if not self.ot.has(sym):
                raise Unsupported(node, "%s of the snapshot ids is not modelled in this world" % name)
            return Int(sym)
        return None

    # -- calls --------------------------------------------------------------------------
    def call(self, ip, f, args, kwargs, node):
        if isinstance(f, BoundMethod):
            return self.call_method(ip, f.obj, f.name, args, kwargs, node)
        if isinstance(f, Opaque):
            return Opaque(f.tag + "()")
        raise Unsupported(node, "call of %r" % (f,))

    def call_method(self, ip, obj, name, args, kwargs, node):
        if isinstance(obj, SelfV):
            if name in ("adjlist_inner_dict_factory", "edge_attr_dict_factory", "node_attr_dict_factory"):
                d = DictObj(tag="new-dict#%d" % len(self.new_dicts))
                self.new_dicts.append(d)
                return d
            if name == "has_edge" and len(args) == 2 and all(isinstance(a, NodeV) for a in args):
                store = "succ" if self.directed else "adj"
                if not self.node_exists(args[0].role):
                    return FALSE
                return Const(self.pair_exists(store, args[0].role, args[1].role))
            if name == "temporal_snapshots_ids" and not args:
                return SnapIds()
            if name == "add_node" and len(args) >= 1 and isinstance(args[0], NodeV):
                # networkx add_node: creates the node (and its adjacency rows) when absent
                role = args[0].role
                if not self.node_exists(role):
                    self.effect(("node_init", role, "absent"), node)
                    self.node_created[role] = True
                    for st in (("succ", "pred") if self.directed else ("adj",)):
                        self.adj_inited.add((st, role))
                elif kwargs:
                    self.effect(("node_attr_update", role), node)
                return NONE
            if name == "adjacency" and not args and name not in self.methods:
                store = "succ" if self.directed else "adj"
                return ListObj([TupleV([NodeV(r), AdjRow(store, r)]) for r in self.adjacency_rows(store)])
            if name == "add_nodes_from" and len(args) == 1 and name not in self.methods:
                seq = ip._seq(args[0], node)
                if seq is not None and all(isinstance(x, NodeV) for x in seq):
                    for x in seq:
                        if not self.node_exists(x.role):
                            self.effect(("node_init", x.role, "absent"), node)
                            self.node_created[x.role] = True
                            for st in (("succ", "pred") if self.directed else ("adj",)):
                                self.adj_inited.add((st, x.role))
                        elif kwargs:
                            self.effect(("node_attr_update", x.role), node)
                    return NONE
            if name in self.methods and ip.depth < ip.max_depth:
                fn = self.methods[name]
                env = bind_args(fn, self_args(fn) + list(args), kwargs, ip, node)
                ip.depth += 1
                try:
                    return ip.call_function(fn, env)
                finally:
                    ip.depth -= 1
            raise Unsupported(node, "call of self.%s" % name)
        if isinstance(obj, AdjMap) and name in ("items", "keys", "values") and not args:
            rows = self.adjacency_rows(obj.store)
            if name == "keys":
                return ListObj([NodeV(r) for r in rows])
            if name == "values":
                return ListObj([AdjRow(obj.store, r) for r in rows])
            return ListObj([TupleV([NodeV(r), AdjRow(obj.store, r)]) for r in rows])
        if isinstance(obj, AdjRow) and name in ("items", "keys", "values") and not args:
            row = self.adjacency_rows(obj.store).get(obj.role, {})
            if name == "keys":
                return ListObj([NodeV(r) for r in row])
            if name == "values":
                return ListObj(list(row.values()))
            return ListObj([TupleV([NodeV(r), d]) for r, d in row.items()])
        if isinstance(obj, AdjRow) and name == "get" and 1 <= len(args) <= 2 and isinstance(args[0], NodeV):
            if self.pair_exists(obj.store, obj.role, args[0].role):
                return self.pair_dict(obj.store, obj.role, args[0].role, node)
            return args[1] if len(args) == 2 else NONE
        if isinstance(obj, Snapshots) and name == "get" and 1 <= len(args) <= 2:
            if self.snap_contains(args[0], node):
                return Opaque("counter")
            return args[1] if len(args) == 2 else NONE
        if isinstance(obj, TTE):
            if name == "get" and 1 <= len(args) <= 2:
                en = self._entry(args[0])
                if en.exists and not en.is_int0:
                    return TTEDict(en)
                if en.is_int0:
                    return ZeroInt()
                return args[1] if len(args) == 2 else NONE
            if name == "setdefault" and len(args) == 2 and isinstance(args[1], DictObj):
                en = self._entry(args[0])
                if not en.exists:
                    own = set()
                    for k in args[1].entries:
                        o, op = self.ori(k, node)
                        self._foreign_write(o, op, en, node)
                        own.add((o, op))
                    en.exists, en.own, en.touched = True, own, True
                    self.effect(("tte_new_dict", repr(args[0]), sorted(own)), node)
                if en.is_int0:
                    return ZeroInt()
                return TTEDict(en)
            if name == "keys" and not args:
                return Opaque("time_to_edge.keys()")
        if isinstance(obj, TTEDict):
            if name == "setdefault" and 1 <= len(args) <= 2:
                o, op = self.ori(args[0], node)
                if not self._own_has(obj.entry, o, op):
                    self._foreign_write(o, op, obj.entry, node)
                    self.effect(("tte_add", repr(obj.entry.instant), o, op), node)
                    obj.entry.own.add((o, op))
                    obj.entry.touched = True
                return NONE
            if name == "get" and 1 <= len(args) <= 2:
                o, op = self.ori(args[0], node)
                if self._own_has(obj.entry, o, op):
                    return NONE
                return args[1] if len(args) == 2 else NONE
            if name in ("keys", "items", "values", "copy") and not args:
                raise Unsupported(node, "enumeration of the events stored at an instant")
            if name == "pop" and 1 <= len(args) <= 2:
                o, op = self.ori(args[0], node)
                if self._own_has(obj.entry, o, op):
                    self._foreign_write(o, op, obj.entry, node)
                    self.effect(("tte_del", repr(obj.entry.instant), o, op), node)
                    obj.entry.own.discard((o, op))
                    return NONE
                if len(args) == 2:
                    return args[1]
                raise AbstractRaise("KeyError", node, detail="pop of missing event")
        if isinstance(obj, Opaque):
            return Opaque(obj.tag + "." + name + "()")
        raise Unsupported(node, "method %s of %r" % (name, obj))


def self_args(fn):
    """The implicit first argument of a method called through ``self``: none for a @staticmethod."""
    for d in fn.decorator_list:
        if isinstance(d, ast.Name) and d.id == "staticmethod":
            return []
    return [SelfV()]


def bind_args(fn, pos, kwargs, ip, node):
    a = fn.args
    if a.vararg or a.kwarg or a.posonlyargs:
        raise Unsupported(node, "callee signature of %s" % fn.name)
    names = [x.arg for x in a.args]
    kwonly = [x.arg for x in a.kwonlyargs]
    env = {}
    if len(pos) > len(names):
        raise AbstractRaise("TypeError", node, detail="too many arguments for %s" % fn.name)
    for n, v in zip(names, pos):
        env[n] = v
    for k, v in kwargs.items():
        if (k not in names and k not in kwonly) or k in env:
            raise AbstractRaise("TypeError", node, detail="bad keyword %s for %s" % (k, fn.name))
        env[k] = v
    defaults = a.defaults
    for n, d in zip(names[len(names) - len(defaults):], defaults):
        if n not in env:
            env[n] = ip.eval(d, {})
    for n, d in zip(kwonly, a.kw_defaults):
        if n not in env and d is not None:
            env[n] = ip.eval(d, {})
    for n in names + kwonly:
        if n not in env:
            raise AbstractRaise("TypeError", node, detail="missing argument %s of %s" % (n, fn.name))
    return env
