"""Static-analysis machinery for the dynetx properties (see /verif/DESIGN.md)."""
