"""The readers of the snapshot index, interpreted on a concrete-symbolic index (C04).

  temporal_snapshots_ids()       on an index whose keys were inserted in non-chronological order (t+2, t+1, t+4):
                                 the answer must be [t+1, t+2, t+4];
  interactions_per_snapshots(t)  counter / divisor for every id, 0 for an instant that is not an id, and nothing may
                                 be written by asking (the index is a dict or a defaultdict as created by __init__);
  interactions_per_snapshots()   {id: counter / divisor};
  avg_number_of_nodes()          on a 4-node symbolic graph with snapshot ids t-2, t+1, t+2, t+3, t+6 and every
                                 valuation of the presence of its pairs at t+1..t+3 (timelines materialised
                                 consistently): the answer must be  sum_t |V_t| / |T|.

The divisor is the one the merge check reads out of interactions_per_snapshots (C04.counters), here the stored
counters are 2, 4 and 6 and the expected answers are halves of them when the divisor is 2.
"""
from __future__ import annotations
import itertools
from fractions import Fraction
from .core import Repo, Report, CLASSES, AnalysisError
from .ordertype import OrderType
from .absint import (Interp, Int, Const, NONE, NodeV, SelfV, TupleV, ListObj, DictObj, IterV, AbstractRaise, Unsupported, Opaque,
                     BoundMethod, run_all_choices)
from .query_check import QueryWorld, SHAPES, Shape, to_py, SnapView
from .stats_interp import StatWorld, _Pres


def T(k):
    return Int("t", k)


INDEX = [(2, 4), (1, 2), (4, 6)]        # (offset, stored counter) in insertion order


class IndexWorld(QueryWorld):
    def __init__(self, cls, shape, choices, methods, functions, kind):
        super().__init__(cls, shape, choices, methods, functions)
        self.snap = DictObj({T(o): Const(c) for o, c in INDEX}, persistent=True, tag="self.snapshots")
        if kind.startswith("defaultdict("):
            fac = kind[len("defaultdict("):-1]
            self.snap.default_factory = {"int": lambda: Const(0), "list": lambda: ListObj([]), "dict": lambda: DictObj()}.get(
                fac, lambda: Opaque("default"))

    def load_attr(self, ip, obj, attr, node):
        if isinstance(obj, SelfV) and attr == "snapshots":
            return self.snap
        return super().load_attr(ip, obj, attr, node)

    def call_method(self, ip, obj, name, args, kwargs, node):
        if isinstance(obj, SelfV) and name == "temporal_snapshots_ids" and name in self.methods:
            return self._call_fn(ip, self.methods[name], [SelfV()] + list(args), kwargs, node)
        return super().call_method(ip, obj, name, args, kwargs, node)


def interpreted_divisor(repo: Repo, cls):
    """Divisor of the per-snapshot reader: interactions_per_snapshots(t) interpreted on the index {t+2: 4, ...}."""
    from fractions import Fraction as F
    from .ownership import container_types
    rel = CLASSES[cls]
    methods = repo.class_methods(rel, cls)
    if "interactions_per_snapshots" not in methods:
        raise AnalysisError("anchor vanished: %s.interactions_per_snapshots" % cls)
    fn = methods["interactions_per_snapshots"]
    kinds = container_types(repo, cls)
    kind = sorted(kinds["snapshots"])[0] if kinds["snapshots"] else "dict"
    shape = SHAPES[cls == "DynDiGraph"][0]
    ot = OrderType([["t"]], [], 8)
    answers = set()

    def once(ch):
        w = IndexWorld(cls, shape, ch, methods, {}, kind)
        ip = Interp(w, ot, max_depth=10)
        try:
            return ip.call_function(fn, {"self": SelfV(), "t": T(2)}), None
        except AbstractRaise as r:
            return None, r
    for ch, (val, r) in run_all_choices(once, max_runs=8):
        got = to_py(val) if r is None else None
        if isinstance(got, (int, float)) and not isinstance(got, bool) and got > 0:
            answers.add(F(4) / F(got).limit_denominator(1000))
        else:
            return None, "interactions_per_snapshots(t) gives %r for an id whose stored counter is 4" % (got if r is None else r.exc,)
    if len(answers) != 1:
        return None, "interactions_per_snapshots(t) scales the stored counter inconsistently (%s)" % sorted(answers)
    d = answers.pop()
    return (int(d) if d.denominator == 1 else float(d)), None


def check_index_readers(repo: Repo, rep: Report, cls, kind, divisor):
    rel = CLASSES[cls]
    methods = repo.class_methods(rel, cls)
    shape = SHAPES[cls == "DynDiGraph"][0]
    ot = OrderType([["t"]], [], 8)
    n = 0

    def run(name, env_extra):
        if name not in methods:
            raise AnalysisError("anchor vanished: %s.%s" % (cls, name))
        fn = methods[name]
        out = []

        def once(ch):
            w = IndexWorld(cls, shape, ch, methods, {}, kind)
            ip = Interp(w, ot, max_depth=10)
            env = {"self": SelfV()}
            env.update(env_extra)
            try:
                return w, ip.call_function(fn, env), None
            except AbstractRaise as r:
                return w, None, r
        for ch, res in run_all_choices(once, max_runs=8):
            out.append(res)
        return fn, out

    # -- temporal_snapshots_ids ------------------------------------------------------------------------
    construct = repo.construct(rel, cls + ".temporal_snapshots_ids")
    fn, results = run("temporal_snapshots_ids", {})
    for (w, val, r) in results:
        n += 1
        if r is not None:
            rep.finding("R.readers/C04.ids", construct, "raises:%s" % r.exc, "temporal_snapshots_ids raises %s (%s)" % (r.exc, r.detail),
                        line=getattr(r.node, "lineno", 0))
            continue
        got = to_py(val)
        want = [repr(T(o)) for o in sorted(o for o, _ in INDEX)]
        seq = list(got) if isinstance(got, (list, tuple)) else None
        if seq is None or [str(x) for x in seq] != want:
            rep.finding("R.readers/C04.ids", construct, "not-sorted-keys",
                        "on a snapshot index whose ids were created in the order t+2, t+1, t+4, temporal_snapshots_ids returns %s; "
                        "expected the ascending ids %s" % (got, want), line=fn.lineno)
        if w.effects:
            rep.finding("R.readers/C04.ids", construct, "writes", "temporal_snapshots_ids writes state: %s" % (w.effects[0][0],),
                        line=w.effects[0][1])
    rep.ob("R.readers", construct, "ascending ids on an index filled in non-chronological order")

    # -- interactions_per_snapshots ----------------------------------------------------------------------
    construct = repo.construct(rel, cls + ".interactions_per_snapshots")
    if [a.arg for a in methods["interactions_per_snapshots"].args.args] != ["self", "t"]:
        raise AnalysisError("%s: unexpected signature" % construct)
    for off, want in [(o, Fraction(c, divisor)) for o, c in INDEX] + [(3, Fraction(0)), (0, Fraction(0)), (9, Fraction(0))]:
        fn, results = run("interactions_per_snapshots", {"t": T(off)})
        present = off in [o for o, _ in INDEX]
        for (w, val, r) in results:
            n += 1
            tag = "present" if present else "absent"
            if r is not None:
                rep.finding("R.readers/C04.counts", construct, "raises:%s:%s" % (tag, r.exc),
                            "interactions_per_snapshots(t) raises %s for %s instant" % (r.exc, "an inhabited" if present else "an uninhabited"),
                            line=getattr(r.node, "lineno", 0))
                continue
            if w.effects:
                rep.finding("R.readers/C04.ids", construct, "query-creates-key", "interactions_per_snapshots(t) writes the snapshot index "
                            "(%s): asking about an uninhabited instant must not turn it into a snapshot id" % (w.effects[0][0],),
                            line=w.effects[0][1])
            got = to_py(val)
            ok = isinstance(got, (int, float)) and not isinstance(got, bool) and Fraction(got).limit_denominator(1000) == want
            if not ok:
                rep.finding("R.readers/C04.counts", construct, "%s-value" % tag,
                            "interactions_per_snapshots(t) answers %r where the index stores %s for t and the merge adds %d per interaction "
                            "(expected %s)" % (got, dict(INDEX).get(off, "nothing"), divisor, want), line=fn.lineno)
    fn, results = run("interactions_per_snapshots", {"t": NONE})
    for (w, val, r) in results:
        n += 1
        if r is not None:
            rep.finding("R.readers/C04.counts", construct, "raises:all:%s" % r.exc, "interactions_per_snapshots() raises %s" % r.exc,
                        line=getattr(r.node, "lineno", 0))
            continue
        got = to_py(val)
        want = {repr(T(o)): Fraction(c, divisor) for o, c in INDEX}
        ok = isinstance(got, dict) and {str(k): Fraction(v).limit_denominator(1000) for k, v in got.items()
                                        if isinstance(v, (int, float))} == want and len(got) == len(want)
        if not ok:
            rep.finding("R.readers/C04.counts", construct, "all-not-map", "interactions_per_snapshots() returns %s, expected %s" % (
                got, {k: float(v) for k, v in want.items()}), line=fn.lineno)
        if w.effects:
            rep.finding("R.readers/C04.ids", construct, "writes", "interactions_per_snapshots() writes state", line=w.effects[0][1])
    rep.ob("R.readers", construct, "counter/%d for ids, 0 and no key creation otherwise, map form" % divisor)
    return n


class AvgWorld(StatWorld):
    OFFS = (1, 2, 3)

    def __init__(self, *a, **k):
        super().__init__(*a, **k)
        inner = [T(o) for o in self.OFFS]
        self.materialise_timelines(inner)
        self.ids = [T(self.OFFS[0] - 3)] + inner + [T(self.OFFS[-1] + 3)]


def check_avg_number_of_nodes(repo: Repo, rep: Report, cls):
    rel = CLASSES[cls]
    methods = repo.class_methods(rel, cls)
    if "avg_number_of_nodes" not in methods:
        raise AnalysisError("anchor vanished: %s.avg_number_of_nodes" % cls)
    fn = methods["avg_number_of_nodes"]
    construct = repo.construct(rel, cls + ".avg_number_of_nodes")
    # directed: the shape with a reciprocal pair and an interaction that points back to an earlier node; undirected: the path and a
    # star (a node of degree three: one of its pairs may be present inside the run of another and a third may follow)
    if cls == "DynDiGraph":
        shapes = [SHAPES[True][1]]
    else:
        shapes = [SHAPES[False][0], Shape("star B-A, B-C, B-D", ["A", "B", "C", "D"], [("B", "A"), ("B", "C"), ("B", "D")], False)]
    n = 0
    for shape in shapes:
        n += _avg_on_shape(rep, cls, shape, methods, fn, construct)
    return n


def _avg_on_shape(rep, cls, shape, methods, fn, construct):
    keys = sorted({shape.key(*e) for e in shape.edges}, key=str)
    # varied exhaustively: both directions of the reciprocal pair (each may be the only one alive at an instant) and the
    # interaction that points back to an earlier node
    varied = keys if len(keys) <= 3 else [("A", "B"), ("B", "A"), ("C", "A")]
    ot = OrderType([["q"], ["t"]], [None], 12)
    offs = AvgWorld.OFFS
    all_ids = [offs[0] - 3] + list(offs) + [offs[-1] + 3]
    n = 0
    for vals in itertools.product((False, True), repeat=len(varied) * len(offs)):
        seed = {}
        it = iter(vals)
        for k in keys:
            for o in offs:
                seed[("present", k, repr(T(o)))] = next(it) if k in varied else False
            for o in (all_ids[0], all_ids[-1]):
                seed[("present", k, repr(T(o)))] = True       # the sentinel ids: everything stored is present
        # reference
        total = 0
        for o in all_ids:
            nodes = set()
            for k in keys:
                if seed[("present", k, repr(T(o)))]:
                    nodes |= set(k)
            total += len(nodes)
        want = Fraction(total, len(all_ids))

        def once(ch):
            w = AvgWorld(cls, shape, ch, methods, {})
            ip = Interp(w, ot, max_depth=10)
            try:
                return w, ip.call_function(fn, {"self": SelfV()}), None
            except AbstractRaise as r:
                return w, None, r
        for ch, (w, val, r) in run_all_choices(once, max_runs=64, seed=seed):
            n += 1
            wit = "%s | ids t-2,t+1,t+2,t+3,t+6 | present at t+1..t+3: %s" % (shape.name, "; ".join(
                "%s-%s@{%s}" % (k[0], k[1], ",".join("t+%d" % o for o in offs if seed[("present", k, repr(T(o)))])) for k in keys))
            if r is not None:
                rep.finding("R.readers/C04.avg", construct, "raises:%s" % r.exc, "avg_number_of_nodes raises %s (%s)" % (r.exc, r.detail),
                            witness=wit, line=getattr(r.node, "lineno", 0))
                continue
            got = to_py(val)
            if not (isinstance(got, (int, float)) and abs(got - float(want)) < 1e-9):
                rep.finding("R.readers/C04.avg", construct, "wrong-value",
                            "avg_number_of_nodes answers %s; the mean over the snapshot ids of the number of nodes with a present "
                            "interaction is %s (= %.4f)" % (got, want, float(want)), witness=wit, line=fn.lineno)
            if w.effects:
                rep.finding("R.readers/C04.avg", construct, "writes", "avg_number_of_nodes writes state", witness=wit, line=w.effects[0][1])
    rep.ob("R.readers", construct, "mean of |V_t| over the ids on %d presence valuations of '%s'" % (2 ** (len(varied) * len(offs)), shape.name))
    return n
