"""C02: every snapshot / flattened query projects the one presence relation.

The query methods of both classes and the functional forms are interpreted
abstractly on a small *symbolic graph*: a handful of node roles with a fixed
adjacency shape (a path, a reciprocal directed pair, an isolated node, optionally a
self-loop); the presence of every stored pair at the query instant is an
*uninterpreted predicate* - each call of ``__presence_test(u, v, t)`` is answered by a
choice keyed by the (ordered / unordered) pair and the instant, and the run is
repeated for every valuation.  The answer of each entry point is compared with what
the static graph {pairs whose predicate is true} gives.  No timeline is ever
evaluated here (that is C01); what is decided is that every query filters through
the presence relation with the right orientation, lists every interaction once,
restricts to nbunch through nbunch_iter, and forwards its arguments.
"""
from __future__ import annotations
import ast
import itertools
from .core import Repo, CLASSES, FUNCTION, AnalysisError, src
from .ordertype import OrderType
from .absint import (Interp, Int, Const, NONE, TRUE, FALSE, NodeV, SelfV, TupleV, ListObj, DictObj, SetObj, IterV,
                     AbstractRaise, Unsupported, Opaque, BoundMethod, Builtin, run_all_choices, Fork)
from .world_graph import bind_args, self_args


class Shape:
    def __init__(self, name, nodes, edges, directed):
        self.name, self.nodes, self.edges, self.directed = name, nodes, edges, directed

    def key(self, u, v):
        return (u, v) if self.directed else tuple(sorted((u, v)))


SHAPES = {
    False: [Shape("path A-B-C + isolated D", ["A", "B", "C", "D"], [("A", "B"), ("B", "C")], False),
            Shape("path + self-loop A-A", ["A", "B", "C", "D"], [("A", "B"), ("B", "C"), ("A", "A")], False)],
    True: [Shape("A->B, B->C + isolated D", ["A", "B", "C", "D"], [("A", "B"), ("B", "C")], True),
           Shape("reciprocal A<->B, B->C, C->A + isolated D", ["A", "B", "C", "D"], [("A", "B"), ("B", "A"), ("B", "C"), ("C", "A")], True),
           Shape("with self-loop", ["A", "B", "C", "D"], [("A", "B"), ("B", "C"), ("A", "A")], True)],
}


class QueryWorld:
    """self = a graph of fixed shape; presence is a choice per (pair, instant)."""

    def __init__(self, cls, shape: Shape, choices, methods, functions, removal=True):
        self.cls, self.shape, self.choices, self.methods, self.functions = cls, shape, choices, methods, functions
        self.directed = shape.directed
        self.removal = removal
        if not hasattr(self, "current_rel"):
            self.current_rel = CLASSES.get(cls)
        self.effects = []
        self.presence_asked = {}
        self.wants_yields = False
        self.dicts = {}
        for (u, v) in shape.edges:
            self.dicts[shape.key(u, v)] = DictObj({Const("t"): Opaque("timeline(%s,%s)" % shape.key(u, v))}, persistent=True,
                                                   tag="datadict(%s,%s)" % shape.key(u, v))
        self.node_attrs = {n: DictObj({Const("label"): Opaque("attr(%s)" % n)}, persistent=True, tag="attrs(%s)" % n)
                           for n in shape.nodes}
        self._node = DictObj({NodeV(n): self.node_attrs[n] for n in shape.nodes}, persistent=True, tag="_node")
        if self.directed:
            self.succ = self._rows(lambda n: [(v, shape.key(u, v)) for (u, v) in shape.edges if u == n], "succ")
            self.pred = self._rows(lambda n: [(u, shape.key(u, v)) for (u, v) in shape.edges if v == n], "pred")
        else:
            def nb(n):
                out = []
                for (u, v) in shape.edges:
                    if u == n:
                        out.append((v, shape.key(u, v)))
                    elif v == n:
                        out.append((u, shape.key(u, v)))
                return out
            self.adj = self._rows(nb, "adj")
        self.ids = [Int("t1"), Int("t2")]
        self.materialise_timelines([Int("q")])

    def materialise_timelines(self, instants):
        """Give every stored pair a concrete canonical timeline that agrees with the presence valuation at the given
        instants (terms over one base symbol): present instants form runs; where the pair is absent at an instant the
        timeline has a gap there *inside* its envelope.  Code that decides presence by reading the timeline itself (instead
        of calling the presence test) is then interpreted on consistent data."""
        if not instants or len({i.base for i in instants}) != 1:
            return
        base = instants[0].base
        offs = sorted(i.k for i in instants)
        for k, d in self.dicts.items():
            vals = {}
            for o in offs:
                key = ("present", k, repr(Int(base, o)))
                if key not in self.choices:
                    return
                vals[o] = self.choices[key]
            lo, hi = offs[0] - 3, offs[-1] + 3
            pres = {o for o in offs if vals[o]} | {lo, hi}        # sentinels keep every queried instant inside the envelope
            runs = []
            for o in sorted(pres):
                if runs and runs[-1][1] == o - 1:
                    runs[-1][1] = o
                else:
                    runs.append([o, o])
            d.entries[Const("t")] = ListObj([ListObj([Int(base, a), Int(base, b)], persistent=True, tag="interval")
                                             for a, b in runs], persistent=True, tag="timeline(%s,%s)" % k)

    def _rows(self, f, tag):
        outer = DictObj(persistent=True, tag=tag)
        for n in self.shape.nodes:
            outer.entries[NodeV(n)] = DictObj({NodeV(m): self.dicts[k] for (m, k) in f(n)}, persistent=True, tag="%s[%s]" % (tag, n))
        return outer

    # -- choices ------------------------------------------------------------------
    def choose(self, key):
        if key not in self.choices:
            raise Fork(key)
        return self.choices[key]

    def present(self, u, v, t):
        k = self.shape.key(u, v)
        if k not in self.dicts:
            return None
        tk = repr(t)
        r = self.choose(("present", k, tk))
        self.presence_asked[(k, tk)] = r
        return r

    def effect(self, eff, node=None):
        self.effects.append((eff, getattr(node, "lineno", 0)))

    # -- interpreter hooks ------------------------------------------------------------
    def cmp_special(self, a, b, op):
        return None

    def nodes_equal(self, a, b):
        return False

    def on_handler(self, ip, r, handler):
        pass

    def generic_elements(self, ip, it, node):
        return None

    def eval_fstring(self, ip, parts, node):
        return None

    def truth_of(self, ip, v):
        if isinstance(v, SnapView):
            return True         # the modelled graphs have snapshots
        return None

    def type_of(self, ip, v):
        return None

    def resolve_name(self, ip, name, node):
        if name in ("chain", "Counter", "combinations"):
            return Builtin(name)
        if name in self.functions:
            return FuncRef(self.functions[name])
        if name == "nx":
            return Opaque("module:nx")
        return None

    def concretise_iter(self, ip, it, node):
        if isinstance(it, SelfV):
            return ListObj([NodeV(n) for n in self.shape.nodes])
        return None

    def load_attr(self, ip, obj, attr, node):
        if isinstance(obj, SelfV):
            if attr in ("_adj", "adj") and not self.directed:
                return self.adj
            if self.directed and attr in ("_succ", "succ", "_adj", "adj"):
                return self.succ
            if self.directed and attr in ("_pred", "pred"):
                return self.pred
            if attr == "_node":
                return self._node
            if attr == "edge_removal":
                return Const(self.removal)
            if attr == "directed":
                return Const(self.directed)
            if attr == "snapshots":
                return SnapView()
            if attr == "graph":
                return Opaque("graph-attrs")
            if attr in self.__dict__.get("aux_attrs", {}):
                return self.aux_attrs[attr]
            return BoundMethod(obj, attr)
        if isinstance(obj, Opaque):
            return Opaque(obj.tag + "." + attr)
        if isinstance(obj, IterV):
            return BoundMethod(obj, attr)
        raise Unsupported(node, "attribute %s of %r" % (attr, obj))

    def store_attr(self, ip, obj, attr, v, node):
        if isinstance(obj, SelfV):
            self.effect(("self_attr_store", attr), node)
            self.__dict__.setdefault("aux_attrs", {})[attr] = v
            return
        raise Unsupported(node, "attribute store %r.%s" % (obj, attr))

    def contains(self, ip, container, x, node):
        if isinstance(container, SelfV):
            if isinstance(x, NodeV):
                return x.role in self.shape.nodes
            if isinstance(x, Const):
                return False
            return False        # unhashable nbunch: networkx answers False
        if isinstance(container, SnapView):
            return self.choose(("snapshot-id", repr(x)))
        if isinstance(container, IterV):
            items = container.drain()
            return any(ip.generic_eq(x, y, node) for y in items)
        raise Unsupported(node, "membership in %r" % (container,))

    def load_subscript(self, ip, obj, key, node):
        if isinstance(obj, SelfV) and isinstance(key, NodeV):
            row = (self.succ if self.directed else self.adj).entries.get(key)
            if row is None:
                raise AbstractRaise("KeyError", node)
            return row
        if isinstance(obj, Opaque):
            return Opaque(obj.tag + "[..]")
        if isinstance(obj, IterV):
            raise AbstractRaise("TypeError", node, detail="iterator is not subscriptable")
        raise Unsupported(node, "subscript %r[%r]" % (obj, key))

    def load_list_item(self, ip, obj, key, node):
        return None

    def list_len(self, ip, obj, node):
        return None

    def load_slice(self, ip, obj, sl, env, node):
        raise Unsupported(node, "slice of %r" % (obj,))

    def store_subscript(self, ip, obj, key, v, node, aug=None):
        raise Unsupported(node, "store %r[%r]" % (obj, key))

    def delete_subscript(self, ip, obj, key, node):
        raise Unsupported(node, "del %r[%r]" % (obj, key))

    def summarise_range_loop(self, ip, st, rng, env):
        raise Unsupported(st, "range loop over symbolic instants in a query")

    def exec_special_for(self, ip, st, it, env):
        raise Unsupported(st, "iteration over %r" % (it,))

    def eval_comprehension(self, ip, e, env):
        raise Unsupported(e, "comprehension over a non-concrete sequence")

    def binop(self, ip, a, op, b, node):
        return None

    def compare(self, ip, a, sym, b, node):
        return None

    def call_minmax(self, ip, name, args, node):
        return None

    def on_yield(self, ip, v, node):
        raise Unsupported(node, "yield outside a generator frame")

    def call_builtin(self, ip, name, args, kwargs, node):
        if name == "chain":
            out = []
            for a in args:
                q = ip._seq(a, node)
                if q is None:
                    return None
                out += q
            return IterV(out)
        if name == "Counter" and len(args) == 1:
            seq = args[0].drain() if isinstance(args[0], IterV) else (list(args[0].items) if isinstance(args[0], (ListObj, TupleV)) else None)
            if seq is None:
                return None
            d = DictObj()
            for x in seq:
                k = ip.dict_key(x, node)
                d.entries[k] = Const(d.entries[k].v + 1) if k in d.entries else Const(1)
            d.missing_value = Const(0)
            return d
        if name in ("max", "min") and len(args) == 1 and isinstance(args[0], SnapView) and not kwargs:
            return self.ids[-1] if name == "max" else self.ids[0]
        if name in ("sorted", "list") and len(args) == 1 and isinstance(args[0], SnapView) and not kwargs:
            return ListObj(list(self.ids))
        if name in ("max", "min") and len(args) == 1 and isinstance(args[0], DictObj):
            ks = list(args[0].entries.keys())
            if ks and all(isinstance(k, Const) for k in ks):
                return Const(max(k.v for k in ks) if name == "max" else min(k.v for k in ks))
            if not ks:
                raise AbstractRaise("ValueError", node, detail="max() of an empty mapping")
        return None

    def call(self, ip, f, args, kwargs, node):
        if isinstance(f, BoundMethod):
            return self.call_method(ip, f.obj, f.name, args, kwargs, node)
        if isinstance(f, FuncRef):
            return self._call_fn(ip, f.fn, list(args), kwargs, node)
        if isinstance(f, Opaque):
            return Opaque(f.tag + "()")
        raise Unsupported(node, "call of %r" % (f,))

    def _call_fn(self, ip, fn, pos, kwargs, node):
        if ip.depth >= 10:
            raise Unsupported(node, "call depth")
        decos = [src(d) for d in fn.decorator_list]
        if any("not_implemented" in d for d in decos):
            raise AbstractRaise("NetworkXNotImplemented", node, explicit=True)
        env = bind_args(fn, pos, kwargs, ip, node)
        ip.depth += 1
        try:
            return ip.call_function(fn, env)
        finally:
            ip.depth -= 1

    def call_method(self, ip, obj, name, args, kwargs, node):
        if isinstance(obj, SelfV):
            if name == "__presence_test" and len(args) == 3 and all(isinstance(a, NodeV) for a in args[:2]):
                r = self.present(args[0].role, args[1].role, args[2])
                if r is None:
                    if self.directed:
                        return FALSE
                    raise AbstractRaise("KeyError", node, detail="presence test on a pair without adjacency entry")
                return Const(r)
            if name == "__presence_test":
                # the predicate is only known through the valuation: a call the hook above does not recognise must not fall
                # through to an interpretation of its body on opaque timelines
                raise Unsupported(node, "presence test called as %s(%s%s)" % (name, ", ".join(map(repr, args)), "".join(", %s=.." % k for k in kwargs)))
            if name == "nbunch_iter":
                nb = args[0] if args else kwargs.get("nbunch", NONE)
                return self._nbunch_iter(ip, nb, node)
            if name == "is_directed" and not args:
                return Const(self.directed)
            if name == "temporal_snapshots_ids" and not args:
                return ListObj(list(self.ids))
            if name == "has_edge" and len(args) == 2:
                row = (self.succ if self.directed else self.adj).entries.get(args[0])
                return Const(row is not None and args[1] in row.entries)
            if name in self.methods:
                return self._call_fn(ip, self.methods[name], self_args(self.methods[name]) + list(args), kwargs, node)
            if name == "subgraph":
                return Opaque("subgraph")
            raise Unsupported(node, "call of self.%s" % name)
        if isinstance(obj, IterV) and name == "__next__":
            return ip.call_builtin("next", [obj], {}, node)
        if isinstance(obj, Opaque):
            return Opaque(obj.tag + "." + name + "()")
        raise Unsupported(node, "method %s of %r" % (name, obj))

    def _nbunch_iter(self, ip, nb, node):
        allnodes = [NodeV(n) for n in self.shape.nodes]
        if isinstance(nb, Const) and nb.v is None:
            return IterV(allnodes)
        if isinstance(nb, NodeV):
            if nb.role in self.shape.nodes:
                return IterV([nb])
            raise AbstractRaise("NetworkXError", node, detail="nbunch is a node that is not in the graph")
        if isinstance(nb, (ListObj, TupleV, SetObj)):
            seq = list(nb.items)
        elif isinstance(nb, IterV):
            seq = nb.drain()
        else:
            raise Unsupported(node, "nbunch %r" % (nb,))
        return IterV([x for x in seq if isinstance(x, NodeV) and x.role in self.shape.nodes])


class SnapView:
    def __repr__(self):
        return "self.snapshots"


class FuncRef:
    def __init__(self, fn):
        self.fn = fn


def to_py(v):
    """Abstract result -> plain Python structure for comparison."""
    if isinstance(v, Const):
        return v.v
    if isinstance(v, NodeV):
        return v.role
    if isinstance(v, Int):
        return repr(v)
    if isinstance(v, (ListObj,)):
        return [to_py(x) for x in v.items]
    if isinstance(v, TupleV):
        return tuple(to_py(x) for x in v.items)
    if isinstance(v, IterV):
        return [to_py(x) for x in v.drain()]
    if isinstance(v, SetObj):
        return {"__set__": sorted((to_py(x) for x in v.items), key=repr)}
    if isinstance(v, DictObj):
        if v.tag.startswith("datadict") or v.tag.startswith("attrs"):
            return v.tag
        return {to_py(k): to_py(x) for k, x in v.entries.items()}
    if isinstance(v, Opaque):
        return "<%s>" % v.tag
    return repr(v)


# ---------------------------------------------------------------------------------------
# reference answers from the static graph
# ---------------------------------------------------------------------------------------
class Static:
    def __init__(self, shape: Shape, present):
        self.shape = shape
        self.present = present      # callable key -> bool

    def edges(self):
        return [e for e in self.shape.edges if self.present(self.shape.key(*e))]

    def nb_filter(self, nb):
        if nb is None:
            return list(self.shape.nodes)
        if isinstance(nb, str):
            return [nb] if nb in self.shape.nodes else []
        return [n for n in nb if n in self.shape.nodes]

    def succ(self, n):
        return [v for (u, v) in self.edges() if u == n]

    def pred(self, n):
        return [u for (u, v) in self.edges() if v == n]

    def nbrs(self, n):
        out = []
        for (u, v) in self.edges():
            if u == n:
                out.append(v)
            elif v == n:
                out.append(u)
        return out

    def degree(self, n):
        # a self-loop adds two to the degree of its node (in + out on directed graphs, networkx's convention on undirected ones)
        if self.shape.directed:
            return len(self.succ(n)) + len(self.pred(n))
        return len(self.nbrs(n)) + sum(1 for (u, v) in self.edges() if u == v == n)


def _pairs(result, directed):
    out = []
    for x in result:
        if not (isinstance(x, tuple) and len(x) >= 2):
            return None
        out.append((x[0], x[1]) if directed else tuple(sorted((x[0], x[1]))))
    return sorted(out)


NBUNCHES = [("none", None), ("node A", "A"), ("[A]", ["A"]), ("[A, B]", ["A", "B"]), ("[B, Z]", ["B", "Z"]),
            ("iterator(A, C)", ("iter", ["A", "C"])), ("[A, A]", ["A", "A"])]


def _mk_nbunch(nb):
    if nb is None:
        return NONE
    if isinstance(nb, str):
        return NodeV(nb)
    if isinstance(nb, tuple) and nb[0] == "iter":
        return IterV([NodeV(x) for x in nb[1]])
    return ListObj([NodeV(x) for x in nb])


def _nb_nodes(nb):
    if isinstance(nb, tuple) and nb and nb[0] == "iter":
        return nb[1]
    return nb


class QueryChecker:
    def __init__(self, repo: Repo, tier="quick"):
        self.repo = repo
        self.tier = tier
        self.findings = {}
        self.n_runs = 0
        self.n_cases = 0
        self.entry_points = set()
        self.samples = []
        self.functions = repo.functions(FUNCTION)

    def add(self, construct, key, msg, wit, line=0):
        k = (construct, key)
        if k not in self.findings:
            self.findings[k] = dict(construct=construct, key=key, message=msg, witness=wit, line=line, count=0)
        self.findings[k]["count"] += 1

    # ------------------------------------------------------------------
    def _run(self, cls, shape, fn, env_of, with_t, judge, construct, label):
        """Interpret fn for every presence valuation, on removal-enabled and accumulative graphs."""
        for removal in ((True, False) if with_t else (True,)):
            self._run_mode(cls, shape, fn, env_of, with_t, judge, construct, label + ("" if removal else " [edge_removal=False]"), removal)

    def _run_mode(self, cls, shape, fn, env_of, with_t, judge, construct, label, removal):
        methods = self.repo.class_methods(CLASSES[cls], cls)
        ot = OrderType([["q"], ["t1"], ["t2"]], [None, None], 2)
        self.n_cases += 1

        def once(ch):
            w = QueryWorld(cls, shape, ch, methods, self.functions, removal=removal)
            w.lazy_zero_window = (-1, 1)        # a query that looks at the truth of its instant is also run with q == 0
            ip = Interp(w, ot, max_depth=10)
            try:
                return w, ip.call_function(fn, env_of(w)), None
            except AbstractRaise as r:
                return w, None, r
        # the presence of every stored pair at the query instant is enumerated up front (a query that
        # never asks about a pair must still be judged in the valuation where that pair is present)
        keys = sorted({shape.key(*e) for e in shape.edges}, key=str)
        seeds = [dict()]
        if with_t:
            seeds = [{("present", k, "q"): v for k, v in zip(keys, vals)} for vals in itertools.product((False, True), repeat=len(keys))]
        results = []
        for seed in seeds:
            results += run_all_choices(once, max_runs=4096, seed=seed)
        for ch, (w, val, r) in results:
            self.n_runs += 1
            if removal and any(k[0] == "snapshot-id" and v is False for k, v in ch.items() if isinstance(k, tuple)) and \
                    any(k[0] == "present" and v for k, v in ch.items() if isinstance(k, tuple)):
                continue        # unreachable: on removal graphs presence at t makes t a snapshot id
            tq = "q"

            def present(key, tk=tq, ch=ch, with_t=with_t):
                if not with_t:
                    return True
                return bool(ch.get(("present", key, tk), False))
            asked = {k[1] for k in ch if isinstance(k, tuple) and k[0] == "present"}
            st = Static(shape, present)
            pres = ", ".join("%s%s%s:%s" % (k[1][0], "->" if shape.directed else "-", k[1][1], "in" if v else "out")
                             for k, v in sorted(ch.items(), key=str) if isinstance(k, tuple) and k[0] == "present")
            zero = next((" (the literal 0 %s)" % ("far below q" if k[0] == "zero-far-below" else ("far above q" if k[0] == "zero-far-above" else "= q%+d" % k[2]))
                         for k, v in ch.items() if v and isinstance(k, tuple) and str(k[0]).startswith("zero-")), "")
            wit = "%s | %s | %s%s%s" % (shape.name, label, "t=q" if with_t else "t=None", zero, (" | presence: " + pres) if pres else "")
            if w.effects:
                self.add(construct, "query-writes", "the query writes graph state: %s" % (w.effects[0][0],), wit, w.effects[0][1])
            judge(st, val, r, wit, asked, ch)

    def _env(self, fn, cls, **values):
        env = {}
        for a in fn.args.args:
            if a.arg in ("self", "G", "graph"):
                env[a.arg] = SelfV()
            elif a.arg in values:
                env[a.arg] = values[a.arg]
        defaults = dict(zip([a.arg for a in fn.args.args][len(fn.args.args) - len(fn.args.defaults):], fn.args.defaults))
        for a in fn.args.args:
            if a.arg not in env:
                if a.arg in defaults and isinstance(defaults[a.arg], ast.Constant):
                    env[a.arg] = Const(defaults[a.arg].value)
                else:
                    raise AnalysisError("%s: no value for parameter %s" % (fn.name, a.arg))
        return env

    def _mismatch(self, construct, key, what, got, want, wit):
        self.add(construct, key, "%s: the code answers %s, the static graph of present interactions gives %s" % (what, got, want), wit)

    # ------------------------------------------------------------------
    def check_class(self, cls):
        rel = CLASSES[cls]
        directed = cls == "DynDiGraph"
        methods = self.repo.class_methods(rel, cls)
        shapes = SHAPES[directed]
        loopfree = [s for s in shapes if not any(u == v for u, v in s.edges)]

        def C(name):
            return self.repo.construct(rel, cls + "." + name)

        def get(name):
            if name not in methods:
                raise AnalysisError("anchor vanished: %s.%s" % (cls, name))
            self.entry_points.add(cls + "." + name)
            return methods[name]
        # --- enumerations of interactions ---------------------------------------
        enum = [("interactions", "out"), ("interactions_iter", "out")]
        if directed:
            enum += [("in_interactions", "in"), ("in_interactions_iter", "in"), ("out_interactions", "out"),
                     ("out_interactions_iter", "out")]
        for name, side in enum:
            fn = get(name)
            for shape in shapes:
                for (nlabel, nb) in NBUNCHES:
                    for with_t in (True, False):
                        def judge(st, val, r, wit, asked, ch, name=name, side=side, nb=nb, shape=shape, with_t=with_t):
                            if r is not None:
                                self.add(C(name), "raises:%s" % r.exc, "%s raises %s (%s)" % (name, r.exc, r.detail), wit, getattr(r.node, "lineno", 0))
                                return
                            res = to_py(val)
                            got = _pairs(res, directed)
                            NB = st.nb_filter(_nb_nodes(nb))
                            if directed:
                                want = sorted((u, v) for (u, v) in st.edges() if (u in NB if side == "out" else v in NB))
                            else:
                                want = sorted(set(tuple(sorted(e)) for e in st.edges() if set(e) & set(NB)))
                            if got is None:
                                self.add(C(name), "shape", "%s yields %r, expected (u, v, data) triples" % (name, res), wit)
                                return
                            if got != want:
                                missing = [p for p in want if p not in got]
                                extra = [p for p in got if p not in want or got.count(p) > want.count(p)]
                                kind = []
                                if missing:
                                    order = {n: i for i, n in enumerate(shape.nodes)}
                                    seen_sig = directed and all(order[p[1]] < order[p[0]] for p in missing)
                                    kind.append("missing(target-enumerated-before-source)" if seen_sig else "missing")
                                if extra:
                                    swapped = directed and all((p[1], p[0]) in want for p in extra)
                                    kind.append("reversed" if swapped and missing else ("duplicate" if all(p in want for p in extra) else "extra"))
                                self._mismatch(C(name), "%s:%s:%s" % ("+".join(kind), "t" if with_t else "flat", "nbunch" if nb is not None else "all"),
                                               "%s(nbunch=%s)" % (name, nlabel), got, want, wit)
                                return
                            # third component
                            for x in res:
                                if with_t and not (isinstance(x[2], dict) and list(x[2].keys()) == ["t"] and x[2]["t"] == ["q"]):
                                    self.add(C(name), "payload:t", "with a snapshot id the third component is %r, expected {'t': [t]}" % (x[2],), wit)
                                    break
                                if not with_t:
                                    k = shape.key(x[0], x[1])
                                    if x[2] != "datadict(%s,%s)" % k:
                                        self.add(C(name), "payload:flat", "the flattened enumeration yields %r as data of %s, expected the pair's stored dict" % (x[2], k), wit)
                                        break
                        self._run(cls, shape, fn, lambda w, fn=fn, nb=nb, with_t=with_t: self._env(
                            fn, cls, nbunch=_mk_nbunch(nb), t=Int("q") if with_t else NONE), with_t, judge, C(name),
                            "%s(nbunch=%s)" % (name, nlabel))
        # --- neighbourhoods ------------------------------------------------------------
        nbr = [("neighbors", "succ" if directed else "nbrs"), ("neighbors_iter", "succ" if directed else "nbrs")]
        if directed:
            nbr += [("successors", "succ"), ("successors_iter", "succ"), ("predecessors", "pred"), ("predecessors_iter", "pred")]
        for name, rel_ in nbr:
            fn = get(name)
            for shape in shapes:
                for n in ("A", "B", "D"):
                    for with_t in (True, False):
                        def judge(st, val, r, wit, asked, ch, name=name, rel_=rel_, n=n):
                            if r is not None:
                                self.add(C(name), "raises:%s" % r.exc, "%s(%s) raises %s" % (name, n, r.exc), wit, getattr(r.node, "lineno", 0))
                                return
                            got = to_py(val)
                            got = sorted(got) if isinstance(got, list) else got
                            want = sorted(getattr(st, rel_)(n))
                            if got != want:
                                self._mismatch(C(name), "%s:%s" % (_diffkind(got, want), "t" if with_t else "flat"), "%s(%s)" % (name, n), got, want, wit)
                        self._run(cls, shape, fn, lambda w, fn=fn, n=n, with_t=with_t: self._env(fn, cls, n=NodeV(n), t=Int("q") if with_t else NONE),
                                  with_t, judge, C(name), "%s(%s)" % (name, n))
        # --- degrees -----------------------------------------------------------------------
        deg = [("degree", "degree"), ("degree_iter", "degree")]
        if directed:
            deg += [("in_degree", "pred"), ("in_degree_iter", "pred"), ("out_degree", "succ"), ("out_degree_iter", "succ")]
        for name, what in deg:
            fn = get(name)
            for shape in loopfree:
                for (nlabel, nb) in NBUNCHES:
                    for with_t in (True, False):
                        def judge(st, val, r, wit, asked, ch, name=name, what=what, nb=nb):
                            if r is not None:
                                self.add(C(name), "raises:%s" % r.exc, "%s raises %s" % (name, r.exc), wit, getattr(r.node, "lineno", 0))
                                return
                            res = to_py(val)
                            f = (lambda n: st.degree(n)) if what == "degree" else (lambda n: len(getattr(st, what)(n)))
                            NB = st.nb_filter(_nb_nodes(nb))
                            if isinstance(nb, str) and not name.endswith("_iter"):
                                want = f(nb)
                                got = res
                            else:
                                want = {n: f(n) for n in NB}
                                got = dict(res) if isinstance(res, list) and all(isinstance(x, tuple) and len(x) == 2 for x in res) else res
                            if got != want:
                                self._mismatch(C(name), "%s:%s:%s" % ("degree", "t" if with_t else "flat", "iterator-nbunch" if isinstance(nb, tuple) else "nbunch" if nb is not None else "all"),
                                               "%s(nbunch=%s)" % (name, nlabel), got, want, wit)
                        self._run(cls, shape, fn, lambda w, fn=fn, nb=nb, with_t=with_t: self._env(
                            fn, cls, nbunch=_mk_nbunch(nb), t=Int("q") if with_t else NONE), with_t, judge, C(name), "%s(nbunch=%s)" % (name, nlabel))
        # --- nodes ---------------------------------------------------------------------------
        for name in ("nodes", "nodes_iter"):
            fn = get(name)
            for shape in shapes:
                for data in (False, True):
                    for with_t in (True, False):
                        def judge(st, val, r, wit, asked, ch, name=name, data=data, with_t=with_t, shape=shape):
                            if r is not None:
                                self.add(C(name), "raises:%s" % r.exc, "%s raises %s" % (name, r.exc), wit, getattr(r.node, "lineno", 0))
                                return
                            res = to_py(val)
                            alive = [n for n in shape.nodes if (not with_t) or st.degree(n) > 0 or any(u == v == n for u, v in st.edges())]
                            if data:
                                want = {n: "attrs(%s)" % n for n in alive}
                                got = dict(res) if isinstance(res, list) else res
                            else:
                                want = sorted(alive)
                                got = sorted(res) if isinstance(res, list) else res
                            if got != want:
                                self._mismatch(C(name), "nodes:%s:%s" % ("t" if with_t else "flat", "data" if data else "ids"), "%s(data=%s)" % (name, data), got, want, wit)
                        self._run(cls, shape, fn, lambda w, fn=fn, data=data, with_t=with_t: self._env(fn, cls, data=Const(data), t=Int("q") if with_t else NONE),
                                  with_t, judge, C(name), "%s(data=%s)" % (name, data))
        for name in ("has_node",):
            fn = get(name)
            for shape in shapes:
                for n in ("A", "C", "D", "Z"):
                    for with_t in (True, False):
                        def judge(st, val, r, wit, asked, ch, n=n, with_t=with_t, shape=shape):
                            if r is not None:
                                self.add(C("has_node"), "raises:%s" % r.exc, "has_node(%s) raises %s" % (n, r.exc), wit, getattr(r.node, "lineno", 0))
                                return
                            want = n in shape.nodes and ((not with_t) or st.degree(n) > 0 or any(u == v == n for u, v in st.edges()))
                            if to_py(val) is not want and to_py(val) != want:
                                self._mismatch(C("has_node"), "has_node:%s" % ("t" if with_t else "flat"), "has_node(%s)" % n, to_py(val), want, wit)
                        self._run(cls, shape, fn, lambda w, fn=fn, n=n, with_t=with_t: self._env(fn, cls, n=NodeV(n), t=Int("q") if with_t else NONE),
                                  with_t, judge, C("has_node"), "has_node(%s)" % n)
        count = ["number_of_nodes"] + (["order"] if "order" in methods else [])
        for name in count:
            fn = get(name)
            for shape in shapes:
                for with_t in (True, False):
                    def judge(st, val, r, wit, asked, ch, name=name, with_t=with_t, shape=shape):
                        if r is not None:
                            self.add(C(name), "raises:%s" % r.exc, "%s raises %s" % (name, r.exc), wit, getattr(r.node, "lineno", 0))
                            return
                        want = len([n for n in shape.nodes if (not with_t) or st.degree(n) > 0 or any(u == v == n for u, v in st.edges())])
                        if to_py(val) != want:
                            self._mismatch(C(name), "count:%s" % ("t" if with_t else "flat"), name, to_py(val), want, wit)
                    self._run(cls, shape, fn, lambda w, fn=fn, with_t=with_t: self._env(fn, cls, t=Int("q") if with_t else NONE), with_t, judge, C(name), name)
        # --- number_of_interactions / size (loop-free shapes: self-loop arithmetic is not decided) ----------
        fn = get("number_of_interactions")
        for shape in loopfree:
            pairs = [(None, None), ("A", "B"), ("B", "A"), ("A", "C")]
            for (u, v) in pairs:
                for with_t in (True, False):
                    def judge(st, val, r, wit, asked, ch, u=u, v=v, shape=shape):
                        if r is not None:
                            self.add(C("number_of_interactions"), "raises:%s" % r.exc, "number_of_interactions raises %s" % r.exc, wit, getattr(r.node, "lineno", 0))
                            return
                        if u is None:
                            want = len(st.edges())
                        else:
                            want = 1 if ((u, v) in st.edges() or (not directed and (v, u) in st.edges())) else 0
                        if to_py(val) != want:
                            self._mismatch(C("number_of_interactions"), "noi:%s:%s" % ("total" if u is None else ("pair" if shape.key(u, v) in [shape.key(*e) for e in shape.edges] else "non-adjacent-pair"), "t" if with_t else "flat"),
                                           "number_of_interactions(%s, %s)" % (u, v), to_py(val), want, wit)
                    self._run(cls, shape, fn, lambda w, fn=fn, u=u, v=v, with_t=with_t: self._env(
                        fn, cls, u=NodeV(u) if u else NONE, v=NodeV(v) if v else NONE, t=Int("q") if with_t else NONE), with_t, judge,
                        C("number_of_interactions"), "number_of_interactions(%s,%s)" % (u, v))
        fn = get("size")
        for shape in loopfree:
            for with_t in (True, False):
                def judge(st, val, r, wit, asked, ch):
                    if r is not None:
                        self.add(C("size"), "raises:%s" % r.exc, "size raises %s" % r.exc, wit, getattr(r.node, "lineno", 0))
                        return
                    if to_py(val) != len(st.edges()):
                        self._mismatch(C("size"), "size:%s" % ("t" if with_t else "flat"), "size", to_py(val), len(st.edges()), wit)
                self._run(cls, shape, fn, lambda w, fn=fn, with_t=with_t: self._env(fn, cls, t=Int("q") if with_t else NONE), with_t, judge, C("size"), "size")
        if directed:
            for name, swap in (("has_successor", False), ("has_predecessor", True)):
                fn = get(name)
                shape = shapes[1]
                for (u, v) in (("A", "B"), ("B", "C"), ("C", "B"), ("A", "D")):
                    for with_t in (True, False):
                        def judge(st, val, r, wit, asked, ch, name=name, swap=swap, u=u, v=v):
                            if r is not None:
                                self.add(C(name), "raises:%s" % r.exc, "%s raises %s" % (name, r.exc), wit, getattr(r.node, "lineno", 0))
                                return
                            want = ((v, u) if swap else (u, v)) in st.edges()
                            if to_py(val) != want:
                                self._mismatch(C(name), "orientation:%s" % ("t" if with_t else "flat"), "%s(%s,%s)" % (name, u, v), to_py(val), want, wit)
                        self._run(cls, shape, fn, lambda w, fn=fn, u=u, v=v, with_t=with_t: self._env(fn, cls, u=NodeV(u), v=NodeV(v), t=Int("q") if with_t else NONE),
                                  with_t, judge, C(name), "%s(%s,%s)" % (name, u, v))
        # --- get_node_snapshots: presence over the snapshot ids, timelines materialised consistently with the mode ---
        fn = get("get_node_snapshots")
        shape = loopfree[0]
        from .stats_interp import StatWorld
        keys = sorted({shape.key(*e) for e in shape.edges}, key=str)
        offs = (1, 2, 3)
        for removal in (True, False):
            if removal:
                # any presence pattern on t+1..t+3; two sentinel ids t-2, t+6 at which every stored pair is present
                ids = [-2, 1, 2, 3, 6]
                patterns = [{**dict(zip(offs, p)), -2: True, 6: True} for p in itertools.product((False, True), repeat=3)]
            else:
                # accumulative: a pair is present from its first appearance f to the largest id; it is stored as [[f, f]]
                patterns = [{o: o >= f for o in offs} for f in offs]
            for combo in itertools.product(patterns, repeat=len(keys)):
                if not removal:
                    ids = sorted({min(o for o in offs if pat[o]) for pat in combo})
                    if max(ids) != max(o for pat in combo for o in offs if pat[o]):
                        pass
                seed = {("present", k, repr(Int("t", o))): pat.get(o, False) for k, pat in zip(keys, combo) for o in ids}
                for n in ("A", "B", "D"):
                    self.n_cases += 1
                    ot = OrderType([["t"]], [], 12)

                    def once(ch, n=n, ids=ids, combo=combo, removal=removal):
                        w = StatWorld(cls, shape, ch, methods, self.functions, removal=removal)
                        w.ids = [Int("t", o) for o in ids]
                        if removal:
                            w.materialise_timelines([Int("t", o) for o in offs])
                        else:
                            for k, pat in zip(keys, combo):
                                f = min(o for o in offs if pat[o])
                                w.dicts[k].entries[Const("t")] = ListObj([ListObj([Int("t", f), Int("t", f)], persistent=True, tag="interval")],
                                                                        persistent=True, tag="timeline(%s,%s)" % k)
                        ip = Interp(w, ot, max_depth=10)
                        try:
                            return w, ip.call_function(fn, {"self": SelfV(), "n": NodeV(n)}), None
                        except AbstractRaise as r:
                            return w, None, r
                    for ch, (w, val, r) in run_all_choices(once, max_runs=64, seed=seed):
                        self.n_runs += 1
                        wit = "%s | get_node_snapshots(%s) | %s | ids %s | %s" % (
                            shape.name, n, "removal" if removal else "accumulative", ["t%+d" % o for o in ids],
                            "; ".join("%s-%s@{%s}" % (k[0], k[1], ",".join("t%+d" % o for o in ids if pat.get(o))) for k, pat in zip(keys, combo)))
                        if r is not None:
                            self.add(C("get_node_snapshots"), "raises:%s" % r.exc, "get_node_snapshots raises %s" % r.exc, wit,
                                     getattr(r.node, "lineno", 0))
                            continue
                        want = [repr(Int("t", o)) for o in ids if any(pat.get(o) and n in k for k, pat in zip(keys, combo))]
                        if to_py(val) != want:
                            self._mismatch(C("get_node_snapshots"), "snapshots-of-node:%s" % ("removal" if removal else "accumulative"),
                                           "get_node_snapshots(%s)" % n, to_py(val), want, wit)
                        if w.effects:
                            self.add(C("get_node_snapshots"), "query-writes", "the query writes graph state: %s" % (w.effects[0][0],), wit,
                                     w.effects[0][1])

    # ------------------------------------------------------------------
    def check_self_loops(self, cls):
        """Counting queries on the shapes with a self-loop: degree (a loop counts twice), size / number_of_interactions (a loop
        is one interaction), degree_histogram - methods and functional forms."""
        directed = cls == "DynDiGraph"
        methods = self.repo.class_methods(CLASSES[cls], cls)
        F = self.functions
        loops = [s for s in SHAPES[directed] if any(u == v for u, v in s.edges)]
        refs = [
            ("m", "degree", lambda st, shape: {n: st.degree(n) for n in shape.nodes}),
            ("m", "size", lambda st, shape: len(st.edges())),
            ("m", "number_of_interactions", lambda st, shape: len(st.edges())),
            ("f", "degree", lambda st, shape: {n: st.degree(n) for n in shape.nodes}),
            ("f", "number_of_interactions", lambda st, shape: len(st.edges())),
            ("f", "degree_histogram", lambda st, shape: _hist([st.degree(n) for n in shape.nodes])),
        ]
        for kind, name, ref in refs:
            table = methods if kind == "m" else F
            if name not in table:
                raise AnalysisError("anchor vanished: %s%s" % ("" if kind == "m" else "function.", name))
            fn = table[name]
            construct = (self.repo.construct(CLASSES[cls], cls + "." + name) if kind == "m"
                         else self.repo.construct(FUNCTION, name) + "[G:%s]" % cls)
            for shape in loops:
                for with_t in (True, False):
                    def judge(st, val, r, wit, asked, ch, name=name, ref=ref, shape=shape, with_t=with_t, construct=construct):
                        if r is not None:
                            self.add(construct, "self-loop:raises:%s" % r.exc, "%s raises %s" % (name, r.exc), wit, getattr(r.node, "lineno", 0))
                            return
                        got, want = to_py(val), ref(st, shape)
                        if got != want:
                            self._mismatch(construct, "self-loop:%s:%s" % (name, "t" if with_t else "flat"),
                                           "%s on a graph with a self-loop" % name, got, want, wit)
                    values = dict(t=Int("q") if with_t else NONE, nbunch=NONE, u=NONE, v=NONE)
                    self._run(cls, shape, fn, lambda w, fn=fn, values=values: self._env(fn, cls, **{
                        k: v for k, v in values.items() if k in [a.arg for a in fn.args.args]}), with_t, judge, construct, name)

    # ------------------------------------------------------------------
    def check_functions(self, cls):
        directed = cls == "DynDiGraph"
        shapes = SHAPES[directed]
        loopfree = [s for s in shapes if not any(u == v for u, v in s.edges)]
        F = self.functions

        def C(name):
            return self.repo.construct(FUNCTION, name) + "[G:%s]" % cls

        def get(name):
            if name not in F:
                raise AnalysisError("anchor vanished: function.%s" % name)
            self.entry_points.add("function." + name)
            return F[name]
        simple = {
            "nodes": lambda st, shape, with_t, a: sorted(n for n in shape.nodes if (not with_t) or st.degree(n) > 0),
            "number_of_nodes": lambda st, shape, with_t, a: len([n for n in shape.nodes if (not with_t) or st.degree(n) > 0]),
            "degree": lambda st, shape, with_t, a: {n: st.degree(n) for n in shape.nodes},
            "interactions": lambda st, shape, with_t, a: sorted((u, v) if directed else tuple(sorted((u, v))) for u, v in st.edges()),
            "degree_histogram": lambda st, shape, with_t, a: _hist([st.degree(n) for n in shape.nodes]),
            "density": lambda st, shape, with_t, a: _density(st, shape, with_t, directed),
        }
        for name, ref in simple.items():
            fn = get(name)
            for shape in loopfree:
                for with_t in (True, False):
                    def judge(st, val, r, wit, asked, ch, name=name, ref=ref, shape=shape, with_t=with_t):
                        if r is not None:
                            self.add(C(name), "raises:%s" % r.exc, "%s raises %s (%s)" % (name, r.exc, r.detail), wit, getattr(r.node, "lineno", 0))
                            return
                        got = to_py(val)
                        if name == "interactions":
                            got = _pairs(got, directed)
                            want0 = ref(st, shape, with_t, None)
                            if got is not None and got != want0 and directed:
                                order = {n: i for i, n in enumerate(shape.nodes)}
                                missing = [p for p in want0 if p not in got]
                                extra = [p for p in got if p not in want0]
                                if missing and not extra and all(order[p[1]] < order[p[0]] for p in missing):
                                    self._mismatch(C(name), "interactions:missing(target-enumerated-before-source):%s" % ("t" if with_t else "flat"),
                                                   "dn.interactions", got, want0, wit)
                                    return
                        if name == "nodes" and isinstance(got, list):
                            got = sorted(got)
                        want = ref(st, shape, with_t, None)
                        if got != want and not (isinstance(got, (int, float)) and isinstance(want, (int, float)) and abs(got - want) < 1e-12):
                            self._mismatch(C(name), "%s:%s" % (name, "t" if with_t else "flat"), "dn.%s" % name, got, want, wit)
                    self._run(cls, shape, fn, lambda w, fn=fn, with_t=with_t: self._env(fn, cls, t=Int("q") if with_t else NONE, nbunch=NONE),
                              with_t, judge, C(name), "dn.%s" % name)
        fn = get("number_of_interactions")
        for shape in loopfree:
            for with_t in (True, False):
                def judge(st, val, r, wit, asked, ch):
                    if r is not None:
                        self.add(C("number_of_interactions"), "raises:%s" % r.exc, "raises %s" % r.exc, wit)
                        return
                    if to_py(val) != len(st.edges()):
                        self._mismatch(C("number_of_interactions"), "total:%s" % ("t" if with_t else "flat"), "dn.number_of_interactions", to_py(val), len(st.edges()), wit)
                self._run(cls, shape, fn, lambda w, fn=fn, with_t=with_t: self._env(fn, cls, u=NONE, v=NONE, t=Int("q") if with_t else NONE), with_t, judge,
                          C("number_of_interactions"), "dn.number_of_interactions")
        for name, ref in (("neighbors", lambda st, n: sorted(st.succ(n) if directed else st.nbrs(n))),
                          ("all_neighbors", lambda st, n: sorted(st.pred(n) + st.succ(n)) if directed else sorted(st.nbrs(n))),
                          ("non_neighbors", lambda st, n: sorted(set(st.shape.nodes) - set(st.pred(n) + st.succ(n) if directed else st.nbrs(n)) - {n}))):
            fn = get(name)
            for shape in loopfree:
                for n in ("A", "B", "D"):
                    for with_t in (True, False):
                        def judge(st, val, r, wit, asked, ch, name=name, ref=ref, n=n):
                            if r is not None:
                                self.add(C(name), "raises:%s" % r.exc, "%s raises %s (%s)" % (name, r.exc, r.detail), wit, getattr(r.node, "lineno", 0))
                                return
                            got = to_py(val)
                            got = sorted(got) if isinstance(got, list) else got
                            want = ref(st, n)
                            if got != want:
                                self._mismatch(C(name), "%s:%s:%s" % (name, _diffkind(got, want), "t" if with_t else "flat"), "dn.%s(%s)" % (name, n), got, want, wit)
                        pname = "n" if name == "neighbors" else "node"
                        self._run(cls, shape, fn, lambda w, fn=fn, n=n, with_t=with_t, pname=pname: self._env(fn, cls, **{pname: NodeV(n), "t": Int("q") if with_t else NONE}),
                                  with_t, judge, C(name), "dn.%s(%s)" % (name, n))
        fn = get("non_interactions")
        for shape in loopfree:
            for with_t in (True, False):
                def judge(st, val, r, wit, asked, ch, shape=shape):
                    if r is not None:
                        self.add(C("non_interactions"), "raises:%s" % r.exc, "raises %s (%s)" % (r.exc, r.detail), wit, getattr(r.node, "lineno", 0))
                        return
                    got = to_py(val)
                    got = sorted(tuple(sorted(p)) for p in got) if isinstance(got, list) else got
                    # unordered pairs u != v such that v is not an (out-)neighbour of u when enumerated from u
                    linked = set()
                    for (u, v) in st.edges():
                        linked.add((u, v))
                        if not directed:
                            linked.add((v, u))
                    if directed:
                        return      # the directed form is order dependent (documented as commented-out code): not decided
                    want = sorted(tuple(sorted((a, b))) for a, b in itertools.combinations(shape.nodes, 2) if (a, b) not in linked)
                    if got != want:
                        self._mismatch(C("non_interactions"), "non_interactions:%s" % ("t" if with_t else "flat"), "dn.non_interactions", got, want, wit)
                self._run(cls, shape, fn, lambda w, fn=fn, with_t=with_t: self._env(fn, cls, t=Int("q") if with_t else NONE), with_t, judge,
                          C("non_interactions"), "dn.non_interactions")
        fn = get("is_empty")
        for shape in shapes + [Shape("no interactions", ["A", "B"], [], directed),
                               Shape("only a self-loop A-A", ["A", "B"], [("A", "A")], directed)]:
            def judge(st, val, r, wit, asked, ch, shape=shape):
                if r is not None:
                    self.add(C("is_empty"), "raises:%s" % r.exc, "raises %s" % r.exc, wit)
                    return
                if to_py(val) != (len(shape.edges) == 0):
                    self._mismatch(C("is_empty"), "is_empty", "dn.is_empty", to_py(val), len(shape.edges) == 0, wit)
            self._run(cls, shape, fn, lambda w, fn=fn: self._env(fn, cls), False, judge, C("is_empty"), "dn.is_empty")


def _diffkind(got, want):
    if not isinstance(got, list):
        return "shape"
    missing = [x for x in want if x not in got]
    extra = [x for x in got if x not in want]
    if missing and extra:
        return "wrong-members"
    if missing:
        return "missing"
    if extra:
        return "not-filtered"
    return "multiplicity"


def _hist(degs):
    m = max(degs)
    return [degs.count(i) for i in range(m + 1)]


def _density(st, shape, with_t, directed):
    n = len([x for x in shape.nodes if (not with_t) or st.degree(x) > 0])
    m = len(st.edges())
    if m == 0 or n <= 1:
        return 0
    d = m / (n * (n - 1))
    return d if directed else d * 2


def check_enumeration_dependency(repo: Repo, rep, users):
    """The constructors / writers named in ``users`` (qualified name -> (class, enumeration method)) re-create or emit a
    graph from the flattened enumeration of its interactions; a pair the enumeration drops is a pair they drop."""
    n = 0
    for user, (cls, name) in sorted(users.items()):
        qc = QueryChecker(repo)
        rel = CLASSES[cls]
        methods = repo.class_methods(rel, cls)
        if name not in methods:
            raise AnalysisError("anchor vanished: %s.%s" % (cls, name))
        fn = methods[name]
        directed = cls == "DynDiGraph"
        for shape in SHAPES[directed]:
            n += 1

            def judge(st, val, r, wit, asked, ch, shape=shape):
                if r is not None:
                    qc.add(user, "enumeration-raises:%s" % r.exc, "%s.%s raises %s" % (cls, name, r.exc), wit)
                    return
                got = _pairs(to_py(val), directed)
                want = sorted((u, v) if directed else tuple(sorted((u, v))) for (u, v) in st.edges())
                if not directed:
                    want = sorted(set(want))
                if got != want:
                    order = {x: i for i, x in enumerate(shape.nodes)}
                    missing = [p for p in want if p not in (got or [])]
                    extra = [p for p in (got or []) if p not in want]
                    sig = "missing(target-enumerated-before-source)" if (directed and missing and not extra and all(
                        order[p[1]] < order[p[0]] for p in missing)) else "wrong-enumeration"
                    qc.add(user, "%s:%s.%s" % (sig, cls, name),
                           "%s builds its result from %s.%s(), which yields %s where the stored pairs are %s: the dropped pairs are "
                           "missing from the result" % (user.split("::")[-1], cls, name, got, want), wit)
            qc._run(cls, shape, fn, lambda w, fn=fn: qc._env(fn, cls, nbunch=NONE, t=NONE), False, judge, user, "%s()" % name)
        for k, f in sorted(qc.findings.items()):
            rep.finding("Q.enumeration", f["construct"], f["key"], f["message"], witness=f["witness"])
        rep.ob("Q.enumeration", user, "flattened enumeration %s.%s used as source" % (cls, name), ok=not qc.findings)
    return n
