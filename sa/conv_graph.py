"""Graph-level interpretation of the conversions (C16) and of time_slice (C06) on symbolic temporal graphs.

ctor_check decides how ONE stored pair is re-added for every ordering of its interval ends.  What it cannot see is
anything that depends on several adjacency entries at once: the two directions of a reciprocal pair, the order in
which pairs are enumerated, a de-duplication filter, a union computed by hand.  Here the function is interpreted on a
4-node symbolic graph whose stored pairs carry concrete canonical timelines over the instants t+1..t+3 (every
combination of presence of the varied pairs at those instants is enumerated; two sentinel instants t-2 and t+6 keep
the envelopes equal); the result is a recording graph; the calls it received are replayed by the *specification* of
add_interaction (C01: union of spans, rejection of a span that starts before the start of the latest run) and the
presence relation so obtained is compared, pair by pair and instant by instant, with what the property states.
"""
from __future__ import annotations
import itertools
from .core import Repo, Report, CLASSES, AnalysisError
from .ordertype import OrderType
from .absint import (Fork, Interp, Int, Const, NONE, TRUE, FALSE, NodeV, SelfV, TupleV, ListObj, DictObj, SetObj, IterV, AbstractRaise,
                     Unsupported, Opaque, BoundMethod, Builtin, RangeV, run_all_choices)
from .world_graph import bind_args
from .query_check import QueryWorld, Shape, SHAPES

OFFS = (1, 2, 3)


def T(k):
    return Int("t", k)


class ClassRef:
    def __init__(self, name):
        self.name = name

    def __repr__(self):
        return "class %s" % self.name


class RecGraph:
    """A graph created by the function under analysis: records what it is told."""

    def __init__(self, cls, kwargs):
        self.cls, self.kwargs = cls, kwargs
        self.calls = []          # (u, v, t, e)
        self.nodes = []          # roles added explicitly
        self.attr_stores = {}
        self.from_graph = None

    def __repr__(self):
        return "new %s(%d add_interaction calls)" % (self.cls, len(self.calls))


class AttrOf:
    def __init__(self, obj, attr):
        self.obj, self.attr = obj, attr

    def __repr__(self):
        return "%r.%s" % (self.obj, self.attr)


class DeepCopy:
    def __init__(self, of):
        self.of = of


class ConvWorld(QueryWorld):
    def __init__(self, cls, shape, choices, methods, functions, all_methods, node_order):
        super().__init__(cls, shape, choices, methods, functions)
        self.all_methods = all_methods
        self.ids = [T(k) for k in OFFS]
        self.materialise_timelines(self.ids)
        # the snapshot ids of the source are the instants at which something is present (an instant that nothing inhabits is no
        # id: code that walks the ids instead of the integers sees a hole there)
        keys = sorted({shape.key(*e) for e in shape.edges}, key=str)
        try:
            self.ids = [t for t in self.ids if any(self.present(k[0], k[1], t) for k in keys)]
        except Fork:
            pass            # presence not seeded up front: keep every instant
        self.node_order = node_order
        self.id_order_asked = []
        self.new_graphs = []

    def resolve_name(self, ip, name, node):
        if name in CLASSES:
            return ClassRef(name)
        if name in ("deepcopy", "copy"):
            return Builtin(name)
        return super().resolve_name(ip, name, node)

    def compare(self, ip, a, sym, b, node):
        if isinstance(a, NodeV) and isinstance(b, NodeV) and sym in ("<", "<=", ">", ">="):
            if a.role != b.role:
                self.id_order_asked.append((a.role, sym, b.role, getattr(node, "lineno", 0)))
            ia, ib = self.node_order.index(a.role), self.node_order.index(b.role)
            return {"<": ia < ib, "<=": ia <= ib, ">": ia > ib, ">=": ia >= ib}[sym]
        return super().compare(ip, a, sym, b, node)

    def load_attr(self, ip, obj, attr, node):
        if isinstance(obj, SelfV):
            if attr == "__class__":
                return ClassRef(self.cls)
            if attr in ("name", "graph"):
                return AttrOf("self", attr)
        if isinstance(obj, RecGraph):
            if attr in ("_node", "graph", "name"):
                return AttrOf(obj, attr)
            return BoundMethod(obj, attr)
        if isinstance(obj, (AttrOf, Builtin)):
            return BoundMethod(obj, attr)
        return super().load_attr(ip, obj, attr, node)

    def store_attr(self, ip, obj, attr, v, node):
        if isinstance(obj, RecGraph):
            obj.attr_stores[attr] = v
            return
        return super().store_attr(ip, obj, attr, v, node)

    def _result_nodes(self, g):
        have = list(g.nodes) + [x.role for c in g.calls if _adds(c) for x in c[:2] if isinstance(x, NodeV)]
        return [NodeV(r) for r in dict.fromkeys(have)]

    def concretise_iter(self, ip, it, node):
        if isinstance(it, AttrOf) and isinstance(it.obj, RecGraph) and it.attr == "_node":
            return ListObj(self._result_nodes(it.obj))
        if isinstance(it, RecGraph):
            return ListObj(self._result_nodes(it))
        return super().concretise_iter(ip, it, node)

    def store_subscript(self, ip, obj, key, v, node, aug=None):
        if isinstance(obj, AttrOf) and isinstance(obj.obj, RecGraph) and obj.attr == "_node" and isinstance(key, NodeV):
            if key.role not in obj.obj.nodes:
                obj.obj.nodes.append(key.role)
            return
        return super().store_subscript(ip, obj, key, v, node, aug)

    def contains(self, ip, container, x, node):
        if isinstance(container, AttrOf) and isinstance(container.obj, RecGraph) and container.attr == "_node" and isinstance(x, NodeV):
            g = container.obj
            return x.role in g.nodes or any(x in (c[0], c[1]) for c in g.calls)
        return super().contains(ip, container, x, node)

    def call(self, ip, f, args, kwargs, node):
        if isinstance(f, ClassRef):
            g = RecGraph(f.name, kwargs)
            if args and not (isinstance(args[0], Const) and args[0].v is None):
                raise Unsupported(node, "graph constructed from data")
            self.new_graphs.append(g)
            return g
        return super().call(ip, f, args, kwargs, node)

    def call_builtin(self, ip, name, args, kwargs, node):
        if name in ("deepcopy", "copy") and len(args) == 1:
            return DeepCopy(args[0])
        if name in ("set", "frozenset", "list", "sorted", "tuple") and len(args) == 1 and isinstance(args[0], RangeV) and not kwargs:
            lo, hi = args[0].lo, args[0].hi
            if isinstance(lo, Int) and isinstance(hi, Int) and lo.base == hi.base and getattr(args[0], "step", None) in (None, 1):
                items = [Int(lo.base, k) for k in range(lo.k, hi.k)]
                return SetObj(items) if name in ("set", "frozenset") else (ListObj(items) if name != "tuple" else TupleV(items))
        return super().call_builtin(ip, name, args, kwargs, node)

    def _node_roles(self, ip, arg, node):
        if isinstance(arg, SelfV) or arg is self._node:
            return list(self.shape.nodes)
        if isinstance(arg, IterV):
            arg = ListObj(arg.drain())
        if isinstance(arg, DictObj):
            seq = list(arg.entries.keys())
        elif isinstance(arg, (ListObj, TupleV, SetObj)):
            seq = list(arg.items)
        else:
            raise Unsupported(node, "add_nodes_from(%r)" % (arg,))
        out = []
        for x in seq:
            if isinstance(x, TupleV) and x.items and isinstance(x.items[0], NodeV):
                x = x.items[0]
            if not isinstance(x, NodeV):
                raise Unsupported(node, "node %r" % (x,))
            out.append(x.role)
        return out

    def call_method(self, ip, obj, name, args, kwargs, node):
        if isinstance(obj, RecGraph):
            if name == "add_interaction":
                fn = self.all_methods[obj.cls]["add_interaction"]
                env = bind_args(fn, [SelfV()] + list(args), kwargs, ip, node)
                obj.calls.append((env["u"], env["v"], env["t"], env["e"]))
                return NONE
            if name == "add_interactions_from":
                fn = self.all_methods[obj.cls]["add_interactions_from"]
                env = bind_args(fn, [SelfV()] + list(args), kwargs, ip, node)
                eb = env["ebunch"]
                seq = eb.drain() if isinstance(eb, IterV) else list(eb.items)
                for pr in seq:
                    obj.calls.append((pr.items[0], pr.items[1], env["t"], env["e"]))
                return NONE
            if name == "add_nodes_from" and len(args) == 1:
                for r in self._node_roles(ip, args[0], node):
                    if r not in obj.nodes:
                        obj.nodes.append(r)
                return NONE
            if name == "add_node" and args and isinstance(args[0], NodeV):
                if args[0].role not in obj.nodes:
                    obj.nodes.append(args[0].role)
                return NONE
            if name in ("nodes", "nodes_iter", "__iter__") and not args and not kwargs:
                # the nodes the result has so far: the ones added explicitly and the endpoints of the recorded interactions
                have = list(obj.nodes) + [x.role for c in obj.calls if _adds(c) for x in c[:2] if isinstance(x, NodeV)]
                return ListObj([NodeV(r) for r in dict.fromkeys(have)])
            raise Unsupported(node, "method %s of the result graph" % name)
        if isinstance(obj, AttrOf) and name == "update":
            return NONE
        if isinstance(obj, AttrOf) and name in ("copy",):
            return DeepCopy(obj)
        return super().call_method(ip, obj, name, args, kwargs, node)


def _adds(call):
    """does the recorded add_interaction(u, v, t, e) add anything (an empty span e <= t does not)"""
    u, v, t, e = call
    return not (isinstance(t, Int) and isinstance(e, Int) and t.base == e.base and e.k <= t.k)


# -------------------------------------------------------------------------------------------------------
def _stored(w: ConvWorld):
    """stored pair key -> set of offsets at which it is present (read from the materialised timeline)."""
    out = {}
    for k, d in w.dicts.items():
        s = set()
        for iv in d.entries[Const("t")].items:
            a, b = iv.items
            s |= set(range(a.k, b.k + 1))
        out[k] = s
    return out


def _replay(calls, directed):
    """The specification of add_interaction applied to the recorded calls.
    -> (presence: key -> set of offsets, first rejected call or None, malformed call or None)"""
    pres, runs = {}, {}
    for (u, v, t, e) in calls:
        if not (isinstance(u, NodeV) and isinstance(v, NodeV)):
            return pres, None, "endpoints %r, %r" % (u, v)
        if not (isinstance(t, Int) and t.base == "t"):
            return pres, None, "t=%r is not an instant" % (t,)
        if isinstance(e, Const) and e.v is None:
            lo, hi = t.k, t.k
        elif isinstance(e, Int) and e.base == "t":
            lo, hi = t.k, e.k - 1
            if hi < lo:
                continue           # e <= t: an empty span adds nothing (C01)
        else:
            return pres, None, "e=%r is not an instant" % (e,)
        k = (u.role, v.role) if directed else tuple(sorted((u.role, v.role)))
        tl = runs.setdefault(k, [])
        if not tl:
            tl.append([lo, hi])
        elif lo < tl[-1][0]:
            return pres, (k, lo, tl[-1][0]), None
        elif lo <= tl[-1][1] + 1:
            tl[-1][1] = max(tl[-1][1], hi)
        else:
            tl.append([lo, hi])
        pres[k] = set().union(*[set(range(x, y + 1)) for x, y in tl])
    return pres, None, None


def _fmt(s):
    return "{" + ",".join("t%+d" % o for o in sorted(s)) + "}"


LOOP_SHAPES = {
    True: Shape("self-loop A->A, reciprocal A<->B, B->C + isolated D", ["A", "B", "C", "D"],
                [("A", "A"), ("A", "B"), ("B", "A"), ("B", "C")], True),
    False: Shape("self-loop A-A, path A-B-C + isolated D", ["A", "B", "C", "D"], [("A", "A"), ("A", "B"), ("B", "C")], False),
}


def _job_shapes(directed_src):
    """(shape, the pairs whose presence is varied exhaustively).  The second shape carries a self-loop: a pair that is its own
    reverse, present in the reciprocal projection exactly when it is present."""
    first = SHAPES[True][1] if directed_src else SHAPES[False][0]
    return [(first, [{"A", "B"}]), (LOOP_SHAPES[directed_src], [{"A"}])]


def check_conversions_on_graphs(repo: Repo, rep: Report, tier="quick", which=("to_undirected", "to_undirected[reciprocal]", "to_directed")):
    all_methods = {c: repo.class_methods(rel, c) for c, rel in CLASSES.items()}
    ot = OrderType([["t"]], [], 8)
    n_runs = 0
    jobs = []
    if "to_undirected" in which:
        jobs.append(("DynDiGraph", "to_undirected", False))
    if "to_undirected[reciprocal]" in which:
        jobs.append(("DynDiGraph", "to_undirected", True))
    if "to_directed" in which:
        jobs.append(("DynGraph", "to_directed", None))
    for (cls, mname, recip) in jobs:
        rel = CLASSES[cls]
        methods = all_methods[cls]
        if mname not in methods:
            raise AnalysisError("anchor vanished: %s.%s" % (cls, mname))
        fn = methods[mname]
        construct = repo.construct(rel, cls + "." + mname) + ("[reciprocal]" if recip else "") + "[graph]"
        directed_src = cls == "DynDiGraph"
        for shape, varied_sets in _job_shapes(directed_src):
            keys = sorted(shape.key(*e) for e in shape.edges)
            # the pairs whose presence is varied exhaustively; the others get two fixed patterns
            varied = [k for k in keys if set(k) in varied_sets]
            fixed = [k for k in keys if k not in varied]
            fixed_patterns = [(True, False, False), (True, True, True)] if tier == "quick" else list(itertools.product((False, True), repeat=3))
            orders = [list(shape.nodes), list(reversed(shape.nodes))]
            n_val = 0
            for vals in itertools.product((False, True), repeat=len(varied) * len(OFFS)):
                for fp in fixed_patterns:
                    seed = {}
                    it = iter(vals)
                    for k in varied:
                        for o in OFFS:
                            seed[("present", k, repr(T(o)))] = next(it)
                    for k in fixed:
                        for o, p in zip(OFFS, fp):
                            seed[("present", k, repr(T(o)))] = p
                    n_val += 1
                    for order in (orders if recip else orders[:1]):
                        def once(ch, order=order):
                            w = ConvWorld(cls, shape, ch, methods, {}, all_methods, order)
                            ip = Interp(w, ot, max_depth=10)
                            env = {"self": SelfV()}
                            for a in fn.args.args[1:]:
                                env[a.arg] = (TRUE if recip else FALSE) if a.arg == "reciprocal" else NONE
                            if fn.args.kwarg:
                                env[fn.args.kwarg.arg] = DictObj()
                            try:
                                return w, ip.call_function(fn, env), None
                            except AbstractRaise as r:
                                return w, None, r
                        for ch, (w, val, r) in run_all_choices(once, max_runs=16, seed=seed):
                            n_runs += 1
                            _judge(rep, construct, cls, mname, recip, shape, w, val, r, order)
            rep.ob("C16.graph", construct, "result presence = specification on %d presence valuations of '%s' (instants t+1..t+3)" % (
                n_val, shape.name))
    rep.stats["abstract_runs"] = rep.stats.get("abstract_runs", 0) + n_runs
    return n_runs


def _judge(rep, construct, cls, mname, recip, shape, w, val, r, order):
    st = _stored(w)
    wit = "%s | stored: %s%s" % (shape.name, "; ".join("%s%s%s=%s" % (k[0], "->" if shape.directed else "-", k[1], _fmt(s - {-2, 6}))
                                                        for k, s in sorted(st.items())),
                                 " | node order %s" % "".join(order) if recip else "")
    if r is not None:
        rep.finding("C16.graph", construct, "raises:%s" % r.exc, "%s raises %s (%s)" % (mname, r.exc, r.detail), witness=wit,
                    line=getattr(r.node, "lineno", 0))
        return
    target_directed = mname == "to_directed"
    want_cls = "DynDiGraph" if target_directed else "DynGraph"
    if isinstance(val, Opaque):
        raise Unsupported(None, "%s returns a value the interpretation does not know: %r" % (mname, val))
    if not isinstance(val, RecGraph) or val.cls != want_cls:
        rep.finding("C16.graph", construct, "wrong-class", "%s returns %r, expected a new %s" % (mname, val, want_cls), witness=wit)
        return
    if w.id_order_asked:
        a, sym, b, line = w.id_order_asked[0]
        rep.finding("C16.graph", construct, "orders-node-ids",
                    "%s compares the node ids %s %s %s: node ids need only be hashable, and a graph whose ids cannot be ordered (1 and 'a') "
                    "makes the conversion raise TypeError" % (mname, a, sym, b), witness=wit, line=line)
    if w.effects:
        rep.finding("C16.graph", construct, "writes-source", "%s writes the source graph: %s" % (mname, w.effects[0][0]), witness=wit,
                    line=w.effects[0][1])
    pres, rejected, malformed = _replay(val.calls, target_directed)
    if malformed:
        rep.finding("C16.graph", construct, "malformed-call", "add_interaction receives %s" % malformed, witness=wit)
        return
    if rejected:
        k, lo, start = rejected
        rep.finding("C16.graph", construct, "re-add-rejected",
                    "the spans of %s-%s are re-added out of order: a span starting at t%+d follows a run starting at t%+d, which "
                    "add_interaction rejects with ValueError" % (k[0], k[1], lo, start), witness=wit)
        return
    # specification
    want = {}
    if mname == "to_directed":
        for (u, v), s in st.items():
            want[(u, v)] = set(s)
            want[(v, u)] = set(s)
    elif recip:
        for (u, v), s in st.items():
            if (v, u) in st:
                inter = s & st[(v, u)]
                if inter:
                    want[tuple(sorted((u, v)))] = inter
    else:
        for (u, v), s in st.items():
            want.setdefault(tuple(sorted((u, v))), set()).update(s)
    idx = {n: i for i, n in enumerate(shape.nodes)}
    for k in sorted(set(want) | set(pres)):
        g, wn = pres.get(k, set()), want.get(k, set())
        if g == wn:
            continue
        missing, extra = wn - g, g - wn
        if extra:
            rep.finding("C16.graph", construct, "extra", "%s: {%s,%s} is present at %s in the result although the property gives %s" % (
                mname, k[0], k[1], _fmt(extra), _fmt(wn)), witness=wit)
        if missing:
            if mname == "to_undirected" and not recip:
                a, b = sorted(k, key=lambda n: idx[n])
                first = st.get((a, b), set())
                origin = "in-first-enumerated-direction" if missing & first else "only-in-second-enumerated-direction"
            elif mname == "to_directed":
                origin = "reverse-direction" if (k not in st and not g) else "partial"
            else:
                origin = "shared-instants"
            rep.finding("C16.graph", construct, "missing(%s)" % origin,
                        "%s: {%s,%s} is absent at %s in the result; the property gives %s, the result has %s" % (
                            mname, k[0], k[1], _fmt(missing), _fmt(wn), _fmt(g)), witness=wit)
    # nodes
    have = set(val.nodes) | {x.role for c in val.calls for x in c[:2] if isinstance(x, NodeV)}
    lost = [n for n in shape.nodes if n not in have]
    if lost:
        rep.finding("C16.graph", construct, "nodes-lost", "%s: node(s) %s of the source are not in the result" % (mname, ",".join(lost)),
                    witness=wit)


# =======================================================================================================================
# time_slice at graph level (C06): several pairs at once - what one pair's clipping does to the window of the next, ties
# between pairs, node ids that are never ordered, the node set of the slice
# =======================================================================================================================
SLICE_WINDOWS = [(1, 1), (1, 2), (2, 3), (1, 3), (3, 3), (2, None)]


def check_time_slice_on_graphs(repo: Repo, rep: Report, tier="quick"):
    all_methods = {c: repo.class_methods(rel, c) for c, rel in CLASSES.items()}
    ot = OrderType([["t"]], [], 8)
    n_runs = 0
    for cls in CLASSES:
        rel = CLASSES[cls]
        methods = all_methods[cls]
        if "time_slice" not in methods:
            raise AnalysisError("anchor vanished: %s.time_slice" % cls)
        fn = methods["time_slice"]
        params = [a.arg for a in fn.args.args]
        if params != ["self", "t_from", "t_to"]:
            raise AnalysisError("%s.time_slice: unexpected signature %s" % (cls, params))
        construct = repo.construct(rel, cls + ".time_slice") + "[graph]"
        directed = cls == "DynDiGraph"
        n_val = 0
        for shape, varied_sets in _job_shapes(directed):
            keys = sorted(shape.key(*e) for e in shape.edges)
            varied = [k for k in keys if set(k) in varied_sets]
            fixed = [k for k in keys if k not in varied]
            fixed_patterns = [(True, False, False), (False, True, True)] if tier == "quick" else list(itertools.product((False, True), repeat=3))
            for vals in itertools.product((False, True), repeat=len(varied) * len(OFFS)):
                for fp in fixed_patterns:
                    seed = {}
                    it = iter(vals)
                    for k in varied:
                        for o in OFFS:
                            seed[("present", k, repr(T(o)))] = next(it)
                    for k in fixed:
                        for o, p in zip(OFFS, fp):
                            seed[("present", k, repr(T(o)))] = p
                    n_val += 1
                    for (lo, hi) in SLICE_WINDOWS:
                        def once(ch, lo=lo, hi=hi):
                            w = ConvWorld(cls, shape, ch, methods, {}, all_methods, list(shape.nodes))
                            ip = Interp(w, ot, max_depth=10)
                            env = {"self": SelfV(), "t_from": T(lo), "t_to": T(hi) if hi is not None else NONE}
                            try:
                                return w, ip.call_function(fn, env), None
                            except AbstractRaise as r:
                                return w, None, r
                        for ch, (w, val, r) in run_all_choices(once, max_runs=16, seed=seed):
                            n_runs += 1
                            _judge_slice(rep, construct, cls, shape, w, val, r, lo, hi if hi is not None else lo)
        rep.ob("C06.graph", construct, "presence of the slice = presence of the source inside the window, pair by pair and instant by instant, "
               "and nodes = endpoints, on %d presence valuations x %d windows" % (n_val, len(SLICE_WINDOWS)))
    rep.stats["abstract_runs"] = rep.stats.get("abstract_runs", 0) + n_runs
    return n_runs


def _judge_slice(rep, construct, cls, shape, w, val, r, lo, hi):
    st = _stored(w)
    arrow = "->" if shape.directed else "-"
    wit = "%s | stored: %s | window [t%+d, t%+d]" % (shape.name, "; ".join("%s%s%s=%s" % (k[0], arrow, k[1], _fmt(s - {-2, 6}))
                                                                             for k, s in sorted(st.items())), lo, hi)
    if r is not None:
        rep.finding("C06.graph", construct, "raises:%s" % r.exc, "time_slice raises %s (%s) for a valid window" % (r.exc, r.detail), witness=wit,
                    line=getattr(r.node, "lineno", 0))
        return
    if isinstance(val, Opaque):
        raise Unsupported(None, "time_slice returns a value the interpretation does not know: %r" % (val,))
    if not isinstance(val, RecGraph) or val.cls != cls:
        rep.finding("C06.graph", construct, "wrong-class", "time_slice returns %r, expected a new %s" % (val, cls), witness=wit)
        return
    if w.id_order_asked:
        a, sym, b, line = w.id_order_asked[0]
        rep.finding("C06.graph", construct, "orders-node-ids",
                    "time_slice compares the node ids %s %s %s: node ids need only be hashable, and a graph whose ids cannot be ordered (1 and 'a') "
                    "makes the slice raise TypeError" % (a, sym, b), witness=wit, line=line)
    if w.effects:
        rep.finding("C06.graph", construct, "writes-source", "time_slice writes the source graph: %s" % (w.effects[0][0],), witness=wit,
                    line=w.effects[0][1])
    pres, rejected, malformed = _replay(val.calls, shape.directed)
    if malformed:
        rep.finding("C06.graph", construct, "malformed-call", "add_interaction receives %s" % malformed, witness=wit)
        return
    if rejected:
        k, lo_, start = rejected
        rep.finding("C06.graph", construct, "re-add-rejected", "the spans of %s%s%s are re-added out of order: a span starting at t%+d follows a run "
                    "starting at t%+d, which add_interaction rejects with ValueError" % (k[0], arrow, k[1], lo_, start), witness=wit)
        return
    window = set(range(lo, hi + 1))
    want = {}
    for (u, v), s in st.items():
        k = (u, v) if shape.directed else tuple(sorted((u, v)))
        inside = s & window
        if inside:
            want.setdefault(k, set()).update(inside)
    idx = {n: i for i, n in enumerate(shape.nodes)}
    for k in sorted(set(want) | set(pres)):
        g, wn = pres.get(k, set()), want.get(k, set())
        if g == wn:
            continue
        missing, extra = wn - g, g - wn
        if extra:
            rep.finding("C06.graph", construct, "extra", "{%s,%s} is present at %s in the slice although the window holds %s of it" % (
                k[0], k[1], _fmt(extra), _fmt(wn)), witness=wit)
        if missing:
            origin = "target-enumerated-before-source" if shape.directed and idx[k[1]] < idx[k[0]] else "inside-the-window"
            rep.finding("C06.graph", construct, "missing(%s)" % origin, "%s%s%s is absent at %s in the slice; the window holds %s of it, the slice has %s" % (
                k[0], arrow, k[1], _fmt(missing), _fmt(wn), _fmt(g)), witness=wit)
    have = set(val.nodes) | {x.role for c in val.calls if _adds(c) for x in c[:2] if isinstance(x, NodeV)}
    want_nodes = {x for k in want for x in k}
    if not (set(pres) ^ set(want)) and have != want_nodes:
        rep.finding("C06.graph", construct, "nodes", "the slice has the nodes %s; the endpoints of the interactions inside the window are %s" % (
            sorted(have), sorted(want_nodes)), witness=wit)
