"""O/K engine instance for the library's own constructors and writers (C06, C16, C09, C11; C03 closure).

``time_slice`` (both classes), ``to_directed``, ``to_undirected`` (plain branch),
``generate_snapshots`` and ``node_link_data`` are interpreted abstractly on a source
graph holding one generic pair (U, V) whose timeline is an explicit canonical list
of n intervals [a1,b1] < [a2,b2] < ... (n = 1..2, thorough 3).  The result graph is a
*recording* object: every ``add_interaction`` it receives, every attribute stored on
it, every row / link emitted is logged and compared with the specification:

  time_slice(F, T)   for every interval meeting the window, in stored order, exactly one
                     add_interaction(U, V, max(ai,F), min(bi,T)+1); nothing for the others;
                     ValueError iff T < F; T defaults to F; result of the source's class;
                     node attributes copied for exactly the result's nodes; source untouched
  to_directed / to_undirected   add_interaction(U, V, ai, bi+1) per interval (closed end -> vanishing
                     time), every node added, graph / node attributes deep-copied
  generate_snapshots / node_link_data   one row / link (U, V, x) for every x in [ai, bi]
"""
from __future__ import annotations
import ast
from .core import Repo, CLASSES, EDGELIST, NODELINK, AnalysisError, src
from .ordertype import enumerate_order_types, OrderType, Undetermined
from .absint import (IterV, NeedZero, Interp, Int, Const, NONE, TRUE, FALSE, NodeV, SelfV, TupleV, ListObj, DictObj, RangeV,
                     LoopVar, AbstractRaise, Unsupported, Opaque, BoundMethod, Builtin, TypeV, run_all_choices)
from .world_graph import GraphWorld, bind_args, AdjMap, NodeMap


class ClassRef:
    def __init__(self, name):
        self.name = name

    def __repr__(self):
        return "<class %s>" % self.name


class NewGraph:
    """A graph created by the interpreted function: records what is done to it."""

    def __init__(self, cls, kwargs):
        self.cls = cls
        self.kwargs = kwargs
        self.calls = []         # (u, v, t, e, context)
        self.attr_stores = {}
        self.other = []

    def __repr__(self):
        return "new %s" % self.cls


class DeepCopy:
    def __init__(self, of):
        self.of = of

    def __repr__(self):
        return "deepcopy(%r)" % (self.of,)


class AttrOf:
    def __init__(self, obj, attr):
        self.obj, self.attr = obj, attr

    def __repr__(self):
        return "%r.%s" % (self.obj, self.attr)


class Triples:
    def __init__(self, materialised):
        self.materialised = materialised


class NodesOf:
    def __init__(self, g):
        self.g = g


class NodeAttrs:
    def __init__(self, g, node):
        self.g, self.node = g, node

    def __repr__(self):
        return "%r._node[%r]" % (self.g, self.node)


class GraphParamV:
    """The graph argument G of a module-level function: behaves like ``self``."""


class CtorWorld(GraphWorld):
    wants_yields = True

    def __init__(self, cfg, ot, choices, methods, all_methods):
        super().__init__(cfg, ot, choices, methods)
        self.all_methods = all_methods      # cls -> methods
        self.new_graphs = []
        self.emitted = []                   # rows / links: (payload, range-or-None)
        self.range_ctx = []
        self.yields = []

    def resolve_name(self, ip, name, node):
        if name in CLASSES:
            return ClassRef(name)
        if name in ("deepcopy", "make_str", "map", "chain", "dict", "str"):
            return Builtin(name)
        if name == "NotImplemented":
            return TypeV("NotImplemented")
        return None

    def generic_elements(self, ip, it, node):
        if isinstance(it, Triples):
            return [TupleV([NodeV("U"), NodeV("U" if self.cfg.get("loop") else "V"), self.datadict])]
        if isinstance(it, RangeV):
            if ip.cmp_int(it.lo, it.hi, ">=", node):
                return []
            return [LoopVar(it)]
        if isinstance(it, NodesOf):
            return [NodeV("n-of-result")]
        return None

    def concretise_iter(self, ip, it, node):
        if isinstance(it, NodesOf) and not isinstance(node, ast.For):
            return ListObj([NodeV("n-of-result")])
        if isinstance(it, GraphParamV):
            it = SelfV()
        if isinstance(it, SelfV):
            return ListObj([NodeV("n-of-G")]) if getattr(self, "generic_nodes", False) else super().concretise_iter(ip, NodeMap(), node)
        return super().concretise_iter(ip, it, node)

    def load_attr(self, ip, obj, attr, node):
        if isinstance(obj, AttrOf) and isinstance(obj.obj, NewGraph) and obj.attr == "_node":
            return BoundMethod(obj, attr)
        if isinstance(obj, GraphParamV):
            obj = SelfV()
        if isinstance(obj, SelfV):
            if attr == "__class__":
                return ClassRef(self.cfg["cls"])
            if attr in ("name", "graph"):
                return AttrOf("self", attr)
            if attr == "_node":
                return NodeMap()
        if isinstance(obj, NewGraph):
            if attr == "_node":
                return AttrOf(obj, "_node")
            if attr == "graph":
                return AttrOf(obj, "graph")
            return BoundMethod(obj, attr)
        if isinstance(obj, Builtin):
            return BoundMethod(obj, attr)
        if isinstance(obj, Const) and isinstance(obj.v, str):
            return BoundMethod(obj, attr)
        return super().load_attr(ip, obj, attr, node)

    def store_attr(self, ip, obj, attr, v, node):
        if isinstance(obj, NewGraph):
            obj.attr_stores[attr] = v
            return
        if isinstance(obj, (SelfV, GraphParamV)):
            self.effect(("self_attr_store", attr), node)
            return
        raise Unsupported(node, "attribute store %r.%s" % (obj, attr))

    def call(self, ip, f, args, kwargs, node):
        if isinstance(f, ClassRef):
            g = NewGraph(f.name, kwargs)
            if args:
                g.other.append(("ctor-args", args))
            self.new_graphs.append(g)
            return g
        return super().call(ip, f, args, kwargs, node)

    def call_builtin(self, ip, name, args, kwargs, node):
        if name == "deepcopy" and len(args) == 1:
            return DeepCopy(args[0])
        if name == "make_str" and len(args) == 1:
            return args[0]
        if name == "map" and len(args) == 2 and isinstance(args[0], Builtin) and args[0].name in ("make_str", "str") \
                and isinstance(args[1], (ListObj, TupleV)):
            return ListObj(list(args[1].items))
        if name == "dict" and len(args) == 1 and isinstance(args[0], ListObj):
            d = DictObj()
            for it in args[0].items:
                if isinstance(it, TupleV) and len(it.items) == 2:
                    d.entries[ip.dict_key(it.items[0], node)] = it.items[1]
                else:
                    return None
            return d
        return None

    def call_method(self, ip, obj, name, args, kwargs, node):
        if isinstance(obj, GraphParamV):
            obj = SelfV()
        if isinstance(obj, NodeMap) and name in ("items", "keys", "values") and not args:
            n = NodeV("n-of-G")
            return ListObj([{"items": TupleV([n, NodeAttrs("self", n)]), "keys": n, "values": NodeAttrs("self", n)}[name]])
        if isinstance(obj, SelfV):
            if name in ("nodes", "nodes_iter") and not args and set(kwargs) <= {"data"}:
                n = NodeV("n-of-G")
                with_data = "data" in kwargs and ip.truth(kwargs["data"], node)
                return ListObj([TupleV([n, NodeAttrs("self", n)])] if with_data else [n])
            if name in ("interactions_iter", "interactions") and not args and not kwargs:
                return Triples(name == "interactions")
            if name == "is_directed" and not args:
                return Const(bool(self.directed))
        if isinstance(obj, AttrOf) and isinstance(obj.obj, NewGraph) and obj.attr == "_node" and name == "update" and len(args) == 1 \
                and isinstance(args[0], DictObj):
            for k, v in args[0].entries.items():
                obj.obj.other.append(("node_attr_store", k, v, len(obj.obj.calls)))
            return NONE
        if isinstance(obj, AttrOf) and isinstance(obj.obj, NewGraph) and obj.attr == "_node" and name == "update" and len(args) == 1 \
                and not isinstance(args[0], DictObj):
            seq = ip._seq(args[0], node)
            if seq is not None and all(isinstance(x, (TupleV, ListObj)) and len(x.items) == 2 for x in seq):
                for x in seq:
                    obj.obj.other.append(("node_attr_store", x.items[0], x.items[1], len(obj.obj.calls)))
                return NONE
        if isinstance(obj, NewGraph):
            if name == "add_interaction":
                fn = self.all_methods[obj.cls]["add_interaction"]
                env = bind_args(fn, [SelfV()] + list(args), kwargs, ip, node)
                obj.calls.append((env["u"], env["v"], env["t"], env["e"], list(self.range_ctx), ip_in_try(ip)))
                return NONE
            if name == "add_nodes_from" and len(args) == 1:
                obj.other.append(("add_nodes_from", args[0]))
                return NONE
            if name == "add_node" and len(args) == 1 and isinstance(args[0], NodeV):
                attrs = kwargs.get("__attrs__")
                if attrs is not None and set(kwargs) == {"__attrs__"}:
                    obj.other.append(("node_attr_store", args[0], attrs, len(obj.calls)))
                elif not kwargs:
                    obj.other.append(("add_node", args[0], len(obj.calls)))
                else:
                    raise Unsupported(node, "add_node with attributes %s" % sorted(kwargs))
                return NONE
            if name == "nodes" and not args and not kwargs:
                return NodesOf(obj)
            if name == "to_directed" and not args:
                g = NewGraph("DynDiGraph", {})
                g.other.append(("converted-from", obj))
                self.new_graphs.append(g)
                return g
            obj.other.append(("call", name, args))
            return Opaque("result of %s" % name)
        if isinstance(obj, Const) and isinstance(obj.v, str) and name == "join" and len(args) == 1:
            if isinstance(args[0], IterV):
                args = [ListObj(args[0].drain())]
            if isinstance(args[0], (ListObj, TupleV)):
                return TupleV(["row"] + list(args[0].items)) if False else RowV(obj.v, list(args[0].items))
        return super().call_method(ip, obj, name, args, kwargs, node)

    def exec_special_for(self, ip, st, it, env):
        if isinstance(it, Triples):
            trip = TupleV([NodeV("U"), NodeV("U" if self.cfg.get("loop") else "V"), self.datadict])
            ip.assign(st.target, trip, env)
            ip.run_loop_body(st, env)
            return
        if isinstance(it, NodesOf):
            n = NodeV("n-of-result")
            ip.assign(st.target, n, env)
            ip.run_loop_body(st, env)
            return
        raise Unsupported(st, "iteration over %r" % (it,))

    def load_subscript(self, ip, obj, key, node):
        if isinstance(obj, NodeMap) and isinstance(key, NodeV):
            return NodeAttrs("self", key)
        return super().load_subscript(ip, obj, key, node)

    def store_subscript(self, ip, obj, key, v, node, aug=None):
        if isinstance(obj, AttrOf) and isinstance(obj.obj, NewGraph) and obj.attr == "_node":
            obj.obj.other.append(("node_attr_store", key, v, self.calls_so_far(obj.obj)))
            return
        return super().store_subscript(ip, obj, key, v, node, aug)

    def calls_so_far(self, g):
        return len(g.calls)

    def splice_kwargs(self, ip, v, node):
        if isinstance(v, NodeAttrs):
            return {"__attrs__": v}
        return None

    def contains(self, ip, container, x, node):
        if isinstance(container, AttrOf) and isinstance(container.obj, NewGraph) and container.attr == "_node" and isinstance(x, NodeV):
            # is x already a node of the result?  yes once an interaction touching it was added (or attrs were stored)
            g = container.obj
            if x.role == "n-of-result":
                return True
            return any(x in (c[0], c[1]) for c in g.calls) or any(o[0] == "node_attr_store" and o[1] == x for o in g.other)
        return super().contains(ip, container, x, node)

    def summarise_range_loop(self, ip, st, rng, env):
        """Emission loops: the body is run once for the generic element of the range."""
        if not isinstance(st.target, ast.Name):
            raise Unsupported(st, "loop target")
        if ip.cmp_int(rng.lo, rng.hi, ">=", st):
            return
        lv = LoopVar(rng)
        env2 = dict(env)
        env2[st.target.id] = lv
        self.range_ctx.append(rng)
        try:
            ip.run_loop_body(st, env2)
        finally:
            self.range_ctx.pop()
        for k in env2:
            if k != st.target.id and k in env and env[k] is not env2[k]:
                env[k] = env2[k]

    def on_yield(self, ip, v, node):
        self.emitted.append((v, list(self.range_ctx)))

    def call_method_list_append(self, lst, v):
        pass


class RowV:
    def __init__(self, delim, fields):
        self.delim, self.fields = delim, fields

    def __repr__(self):
        return "row%r" % (self.fields,)


def ip_in_try(ip):
    return getattr(ip, "in_try", 0)


class CtorInterp(Interp):
    in_try = 0

    def exec_try(self, st, env):
        self.in_try += 1
        try:
            return super().exec_try(st, env)
        finally:
            self.in_try -= 1

    def call_method(self, bm, args, kwargs, node):
        # list.append on the emitted-links list: log with the enclosing range
        obj, name = bm.obj, bm.name
        if isinstance(obj, ListObj) and name == "append" and getattr(obj, "is_links", False):
            self.w.emitted.append((args[0], list(self.w.range_ctx)))
            return NONE
        return super().call_method(bm, args, kwargs, node)


def _timeline_symbols(n):
    syms, cons = [], []
    for i in range(1, n + 1):
        syms += ["a%d" % i, "b%d" % i]
        cons.append(("a%d" % i, 0, "<=", "b%d" % i, 0))
        if i > 1:
            cons.append(("b%d" % (i - 1), 2, "<=", "a%d" % i, 0))
    return syms, cons


class CtorChecker:
    def __init__(self, repo: Repo, R=2, max_n=2):
        self.repo, self.R, self.max_n = repo, R, max_n
        self.all_methods = {c: repo.class_methods(rel, c) for c, rel in CLASSES.items()}
        self.findings = {}
        self.n_ordertypes = 0
        self.n_runs = 0
        self.samples = []
        self.instances = 0

    def add(self, clause, construct, key, msg, wit, line=0):
        k = (clause, construct, key)
        if k not in self.findings:
            self.findings[k] = dict(clause=clause, construct=construct, key=key, message=msg, witness=wit, line=line, count=0)
        self.findings[k]["count"] += 1

    # ------------------------------------------------------------------
    def _each_world(self, cls, fn, env_of, syms, cons, judge, n, world_cls=None, extra_cfg=None):
        """Run fn over all order types (retrying with the symbol '0' when a literal comparison needs it)."""
        for zero in (False, True):
            try:
                ots = enumerate_order_types(syms + (["0"] if zero else []), cons, self.R)
                for ot in ots:
                    cfg = dict(cls=cls, directed=cls == "DynDiGraph", removal=True, exists=True, intervals=n)
                    cfg.update(extra_cfg or {})

                    def once(ch, ot=ot, cfg=cfg):
                        w = (world_cls or CtorWorld)(cfg, ot, ch, self.all_methods[cls], self.all_methods)
                        ip = CtorInterp(w, ot)
                        try:
                            return ("ok", w, ip.call_function(fn, env_of(w)))
                        except AbstractRaise as r:
                            return ("raise", w, r)
                    for ch, (kind, w, val) in run_all_choices(once):
                        self.n_runs += 1
                        judge(ot, w, kind, val)
                    self.n_ordertypes += 1
                return
            except NeedZero:
                if zero:
                    raise
                continue

    # -- time_slice -------------------------------------------------------------
    def check_time_slice(self, cls):
        rel = CLASSES[cls]
        fn = self.repo.get(rel, cls + ".time_slice")
        construct = self.repo.construct(rel, cls + ".time_slice")
        params = [a.arg for a in fn.args.args]
        if params != ["self", "t_from", "t_to"]:
            raise AnalysisError("%s: unexpected signature %s" % (construct, params))
        for n in range(1, self.max_n + 1):
            tsyms, tcons = _timeline_symbols(n)
            for given in (True, False):
                self.instances += 1
                syms = tsyms + ["F"] + (["T"] if given else [])
                env_of = lambda w, given=given: {"self": SelfV(), "t_from": Int("F"), "t_to": Int("T") if given else NONE}
                self._each_world(cls, fn, env_of, syms, tcons,
                                 lambda ot, w, kind, val, n=n, given=given: self._judge_slice(
                                     cls, construct, n, given, ot, w, kind, val), n)

    def check_time_slice_functional(self, cls):
        """dynetx.time_slice(G, t_from, t_to): the functional form, interpreted through to the method (one interval; every
        placement of the window, the literal 0 included when the wrapper looks at the truth of a bound)."""
        from .core import FUNCTION
        fn = self.repo.get(FUNCTION, "time_slice")
        construct = self.repo.construct(FUNCTION, "time_slice") + "[G:%s]" % cls
        params = [a.arg for a in fn.args.args]
        if params != ["G", "t_from", "t_to"]:
            raise AnalysisError("%s: unexpected signature %s" % (construct, params))
        tsyms, tcons = _timeline_symbols(1)
        for given in (True, False):
            self.instances += 1
            syms = tsyms + ["F"] + (["T"] if given else [])
            env_of = lambda w, given=given: {"G": SelfV(), "t_from": Int("F"), "t_to": Int("T") if given else NONE}
            self._each_world(cls, fn, env_of, syms, tcons,
                             lambda ot, w, kind, val, given=given: self._judge_slice(cls, construct, 1, given, ot, w, kind, val), 1)

    def check_time_slice_selfloop(self, cls):
        """Same table for a pair that is a self-loop (u == v): its adjacency row contains the node itself."""
        rel = CLASSES[cls]
        fn = self.repo.get(rel, cls + ".time_slice")
        construct = self.repo.construct(rel, cls + ".time_slice")
        tsyms, tcons = _timeline_symbols(1)
        self.instances += 1
        env_of = lambda w: {"self": SelfV(), "t_from": Int("F"), "t_to": Int("T")}
        self._each_world(cls, fn, env_of, tsyms + ["F", "T"], tcons,
                         lambda ot, w, kind, val: self._judge_slice(cls, construct, 1, True, ot, w, kind, val, loop=True), 1,
                         extra_cfg={"loop": True})

    def _judge_slice(self, cls, construct, n, given, ot, w, kind, val, loop=False):
        T = "T" if given else "F"
        wit = "%d interval(s), t_to %s | order: %s" % (n, "given" if given else "omitted", ot.describe())
        bad_window = given and ot.cmp_terms(("T", 0), ("F", 0), "<")
        if kind == "raise":
            if bad_window and val.exc == "ValueError" and val.explicit:
                return
            self.add("C06.window", construct, "raises:%s:%s" % (val.exc, "explicit" if val.explicit else "implicit"),
                     "time_slice raises %s (%s) for a valid window" % (val.exc, val.detail), wit, getattr(val.node, "lineno", 0))
            return
        if bad_window:
            self.add("C06.window", construct, "bad-window-accepted", "t_to < t_from does not raise ValueError", wit)
            return
        if isinstance(val, Opaque):
            raise Unsupported(None, "time_slice returns a value the interpretation does not know: %r" % (val,))
        if not isinstance(val, NewGraph):
            self.add("C06.result", construct, "not-a-new-graph", "time_slice returns %r instead of a new graph" % (val,), wit)
            return
        if val.cls != cls:
            self.add("C06.result", construct, "wrong-class", "the slice of a %s is a %s" % (cls, val.cls), wit)
        if val.kwargs:
            self.add("C06.result", construct, "ctor-kwargs", "the slice is created with %s (the property is stated for "
                     "removal-enabled results)" % sorted(val.kwargs), wit)
        if w.effects:
            self.add("C06.pure", construct, "writes-source", "time_slice writes the source graph: %s" % (w.effects[0][0],), wit,
                     w.effects[0][1])
        want = []
        for i in range(1, n + 1):
            a, b = ("a%d" % i, 0), ("b%d" % i, 0)
            if ot.cmp_terms((T, 0), a, "<") or ot.cmp_terms(("F", 0), b, ">"):
                continue
            lo = a if ot.cmp_terms(a, ("F", 0), ">=") else ("F", 0)
            hi = b if ot.cmp_terms(b, (T, 0), "<=") else (T, 0)
            want.append((lo, (hi[0], hi[1] + 1)))
        got = []
        ok_nodes = True
        for (u, v, t, e, rctx, intry) in val.calls:
            if not (u == NodeV("U") and v == NodeV("U" if loop else "V")):
                ok_nodes = False
            got.append((t, e))
        if not ok_nodes:
            self.add("C06.orientation", construct, "endpoints", "the pair (u, v) of the source is not forwarded unswapped "
                     "to add_interaction: %s" % ([(c[0], c[1]) for c in val.calls],), wit)
        same = len(got) == len(want) and all(
            isinstance(t, Int) and isinstance(e, Int) and ot.cmp_terms(t.term(), wl, "==") and ot.cmp_terms(e.term(), wh, "==")
            for (t, e), (wl, wh) in zip(got, want))
        if not same:
            key = self._slice_key(ot, n, T, got, want) + (":self-loop" if loop else "")
            self.add("C06.clip", construct, key,
                     "the slice re-adds %s; the presence inside the window is %s (start, vanishing time)" % (
                         [(repr(t), repr(e)) for t, e in got], [("%s%+d" % l if l[1] else l[0], "%s%+d" % h if h[1] else h[0]) for l, h in want]),
                     wit)
        # node attributes: H._node[n] = self._node[n] for n in H.nodes()
        stores = [o for o in val.other if o[0] == "node_attr_store"]
        if want and not stores:
            self.add("C06.attrs", construct, "attrs-not-copied", "node attributes of the source are not carried to the slice", wit)
        for o in stores:
            key, v = o[1], o[2]
            if not (isinstance(key, NodeV) and isinstance(v, NodeAttrs) and v.node == key):
                self.add("C06.attrs", construct, "attrs-wrong", "node attribute transfer stores %r under %r" % (v, key), wit)
            elif key.role != "n-of-result" and not got:
                # attributes stored for an endpoint although no interaction of the pair falls in the window:
                # the node would exist in the slice without any interaction
                self.add("C06.nodes", construct, "ghost-node", "node attributes of %r are stored in the slice although none of its "
                         "interactions lies in the window: the slice gains an isolated node" % (key,), wit)
        for o in val.other:
            if o[0] == "add_node" and not got:
                self.add("C06.nodes", construct, "ghost-node", "node %r is added to the slice although none of its interactions lies "
                         "in the window: the slice gains an isolated node" % (o[1],), wit)
        if len(self.samples) < 4 and want and n == 2:
            self.samples.append(dict(function=construct, world=wit, calls=[(repr(t), repr(e)) for t, e in got]))

    def _slice_key(self, ot, n, T, got, want):
        """Stable description: relation of the window to the (first mismatching) interval."""
        if len(got) != len(want):
            kind = "extra-call" if len(got) > len(want) else "missing-call"
        else:
            kind = "wrong-bounds"
        rel = []
        for i in range(1, n + 1):
            a, b = ("a%d" % i, 0), ("b%d" % i, 0)
            c = ot.cmp_terms
            if c((T, 0), a, "<"):
                r = "window-before"
            elif c(("F", 0), b, ">"):
                r = "window-after" + ("-adjacent" if c(("F", 0), (b[0], 1), "==") else "")
            else:
                r = ("F<=a" if c(("F", 0), a, "<=") else "F>a") + "," + ("T>=b" if c((T, 0), b, ">=") else "T<b")
            rel.append(r)
        return "%s:%s" % (kind, "|".join(rel))

    # -- conversions ----------------------------------------------------------------
    def check_conversion(self, cls, method, target_cls):
        rel = CLASSES[cls]
        fn = self.repo.get(rel, cls + "." + method)
        construct = self.repo.construct(rel, cls + "." + method)
        for n in range(1, self.max_n + 1):
            tsyms, tcons = _timeline_symbols(n)
            self.instances += 1

            def env_of(w):
                env = {"self": SelfV()}
                for a in fn.args.args[1:]:
                    env[a.arg] = FALSE if a.arg == "reciprocal" else NONE
                if fn.args.kwarg:
                    env[fn.args.kwarg.arg] = DictObj()
                return env
            self._each_world(cls, fn, env_of, tsyms, tcons,
                             lambda ot, w, kind, val, n=n: self._judge_conv(cls, method, target_cls, construct, n, ot, w, kind, val), n)

    def _judge_conv(self, cls, method, target_cls, construct, n, ot, w, kind, val):
        wit = "%d interval(s) | order: %s" % (n, ot.describe())
        if kind == "raise":
            self.add("C16.convert", construct, "raises:%s" % val.exc, "%s raises %s (%s)" % (method, val.exc, val.detail), wit,
                     getattr(val.node, "lineno", 0))
            return
        if not isinstance(val, NewGraph) or val.cls != target_cls:
            self.add("C16.result", construct, "wrong-class", "%s returns %r, expected a new %s" % (method, val, target_cls), wit)
            return
        if w.effects:
            self.add("C16.pure", construct, "writes-source", "%s writes the source graph: %s" % (method, w.effects[0][0]), wit,
                     w.effects[0][1])
        if any(c[5] for c in val.calls):
            self.add("C16.swallow", construct, "call-inside-try", "add_interaction is called inside a try block", wit)
        want = [(("a%d" % i, 0), ("b%d" % i, 1)) for i in range(1, n + 1)]
        calls_uv = [(t, e) for (u, v, t, e, _, _) in val.calls if (u, v) == (NodeV("U"), NodeV("V"))]
        calls_vu = [(t, e) for (u, v, t, e, _, _) in val.calls if (u, v) == (NodeV("V"), NodeV("U"))]
        others = [c for c in val.calls if (c[0], c[1]) not in ((NodeV("U"), NodeV("V")), (NodeV("V"), NodeV("U")))]
        if others:
            self.add("C16.convert", construct, "foreign-pair", "add_interaction on a pair that is not the source pair: %r" % (others[0][:2],), wit)

        def same(got):
            return len(got) == len(want) and all(
                isinstance(t, Int) and isinstance(e, Int) and ot.cmp_terms(t.term(), wl, "==") and ot.cmp_terms(e.term(), wh, "==")
                for (t, e), (wl, wh) in zip(got, want))
        if not same(calls_uv):
            self.add("C16.convert", construct, "intervals:%s" % ("count" if len(calls_uv) != len(want) else "bounds"),
                     "%s re-adds the pair as %s; its stored intervals [a, b] must be re-added as (a, b+1)" % (
                         method, [(repr(t), repr(e)) for t, e in calls_uv]), wit)
        for (t, e) in calls_uv + calls_vu:
            if not isinstance(t, Int):
                self.add("C16.isolate", construct, "t-not-an-instant", "add_interaction receives t=%r: a stored list object "
                         "would be shared between the two graphs" % (t,), wit)
        if target_cls == "DynDiGraph":
            if not calls_vu:
                self.add("C16.convert", construct, "missing-reverse-direction",
                         "to_directed adds u->v only: v->u is never added although {u,v} is present", wit)
            elif not same(calls_vu):
                self.add("C16.convert", construct, "reverse-intervals", "the reverse direction is re-added as %s" % (
                    [(repr(t), repr(e)) for t, e in calls_vu],), wit)
        elif calls_vu:
            pass
        nodes = [o for o in val.other if o[0] == "add_nodes_from"]

        def all_nodes(arg):
            if isinstance(arg, (SelfV, NodeMap)):
                return True
            if isinstance(arg, ListObj) and len(arg.items) == 1:
                x = arg.items[0]
                if isinstance(x, NodeV) and x.role == "n-of-G":
                    return True
                if isinstance(x, TupleV) and len(x.items) == 2 and isinstance(x.items[0], NodeV) and x.items[0].role == "n-of-G":
                    return True
            return False
        if not any(all_nodes(o[1]) for o in nodes):
            self.add("C16.nodes", construct, "nodes-not-added", "%s does not add every node of the source "
                     "(add_nodes_from(self) missing): isolated nodes get no adjacency row" % method, wit)
        for attr, src_attr in (("graph", "graph"), ("_node", "_node")):
            v = val.attr_stores.get(attr)
            ok = isinstance(v, DeepCopy) and (
                (isinstance(v.of, AttrOf) and v.of.obj == "self" and v.of.attr == src_attr) or
                (src_attr == "_node" and isinstance(v.of, NodeMap)))
            if not ok:
                self.add("C16.isolate", construct, "not-deepcopied:%s" % attr,
                         "the result's %s is %r, expected deepcopy(self.%s)" % (attr, v, src_attr), wit)
        if len(self.samples) < 6 and n == 2:
            self.samples.append(dict(function=construct, world=wit, calls=[(repr(c[0]), repr(c[1]), repr(c[2]), repr(c[3])) for c in val.calls]))

    # -- writers -----------------------------------------------------------------------
    def check_generate_snapshots(self, cls):
        fn = self.repo.get(EDGELIST, "generate_snapshots")
        construct = self.repo.construct(EDGELIST, "generate_snapshots") + "[G:%s]" % cls
        for n in range(1, self.max_n + 1):
            tsyms, tcons = _timeline_symbols(n)
            self.instances += 1

            def env_of(w):
                return {"G": GraphParamV(), "delimiter": Const("|")}
            self._each_world(cls, fn, env_of, tsyms, tcons,
                             lambda ot, w, kind, val, n=n: self._judge_rows(construct, "C09.rows", n, ot, w, kind, val), n)
            if n == 1:
                # the stored pair is a self-loop (u == v)
                self._each_world(cls, fn, env_of, tsyms, tcons,
                                 lambda ot, w, kind, val, n=n: self._judge_rows(construct, "C09.rows", n, ot, w, kind, val, loop=True), n,
                                 extra_cfg=dict(loop=True))

    def _judge_rows(self, construct, clause, n, ot, w, kind, val, loop=False):
        wit = "%s%d interval(s) | order: %s" % ("self-loop, " if loop else "", n, ot.describe())
        if kind == "raise":
            self.add(clause, construct, "raises:%s" % val.exc, "the writer raises %s (%s)" % (val.exc, val.detail), wit,
                     getattr(val.node, "lineno", 0))
            return
        if w.effects:
            self.add(clause, construct, "writes-graph", "the writer writes the graph: %s" % (w.effects[0][0],), wit, w.effects[0][1])
        # every emitted row must be (U, V, x) with x ranging over [ai, bi]; rows may be emitted as a range or as single instants
        cover = []      # (lo, hi_excl)
        for (payload, rctx) in w.emitted:
            fields = payload.fields if isinstance(payload, RowV) else None
            if isinstance(payload, DictObj):
                e = payload.entries
                fields = [e.get(Const("source")), e.get(Const("target")), e.get(Const("time"))]
                if set(e) != {Const("source"), Const("target"), Const("time")}:
                    self.add(clause, construct, "link-keys", "a link carries the keys %s, expected source/target/time" % sorted(map(repr, e)), wit)
            if fields is None or len(fields) != 3:
                self.add(clause, construct, "row-shape", "emits %r, expected the three fields u, v, instant" % (payload,), wit)
                return
            if isinstance(payload, RowV) and payload.delim != "|":
                self.add(clause, construct, "delimiter", "rows are joined with %r instead of the requested delimiter" % payload.delim, wit)
            if not (fields[0] == NodeV("U") and fields[1] == NodeV("U" if loop else "V")):
                self.add(clause, construct, "orientation", "row fields are (%r, %r), expected (u, v) as enumerated" % (fields[0], fields[1]), wit)
            x = fields[2]
            if isinstance(x, LoopVar):
                cover.append((x.rng.lo, x.rng.hi))
            elif isinstance(x, Int):
                cover.append((x, Int(x.base, x.k + 1)))
            else:
                self.add(clause, construct, "time-field", "third field is %r, not an instant" % (x,), wit)
                return
        want = [(Int("a%d" % i), Int("b%d" % i, 1)) for i in range(1, n + 1)]
        pts = []
        for (l, h) in cover + want:
            for x in (l, h):
                if not any(ot.cmp_terms(x.term(), y.term(), "==") for y in pts):
                    pts.append(x)
        import functools
        pts.sort(key=functools.cmp_to_key(lambda x, y: 0 if ot.cmp_terms(x.term(), y.term(), "==") else (
            -1 if ot.cmp_terms(x.term(), y.term(), "<") else 1)))
        for i in range(len(pts) - 1):
            p = pts[i]
            def cnt(lst):
                return sum(1 for (l, h) in lst if ot.cmp_terms(l.term(), p.term(), "<=") and ot.cmp_terms(p.term(), h.term(), "<"))
            a, e = cnt(cover), cnt(want)
            if a != e:
                where = "missing" if a < e else "duplicated"
                self.add(clause, construct, "coverage:%s%s" % (where, ":self-loop" if loop else ""),
                         "instants from %r up to %r are emitted %d time(s), expected %d (one row per instant of presence)" % (
                             p, pts[i + 1], a, e), wit)
                break
        if len(self.samples) < 8 and n == 2:
            self.samples.append(dict(function=construct, world=wit, emitted=[repr(p) for p, _ in w.emitted][:4]))

    def check_node_link_data(self, cls):
        fn = self.repo.get(NODELINK, "node_link_data")
        construct = self.repo.construct(NODELINK, "node_link_data") + "[G:%s]" % cls
        for n in range(1, self.max_n + 1):
            tsyms, tcons = _timeline_symbols(n)
            self.instances += 1

            def env_of(w):
                # a caller-chosen id key: the writer must file every node under it (the default key would hide a dropped argument)
                attrs = DictObj({Const("id"): IDKEY, Const("source"): Const("source"), Const("target"): Const("target")})
                return {"G": GraphParamV(), "attrs": attrs}
            self._each_world(cls, fn, env_of, tsyms, tcons,
                             lambda ot, w, kind, val, n=n: self._judge_links(cls, construct, n, ot, w, kind, val), n,
                             world_cls=LinkWorld)
            if n == 1:
                self._each_world(cls, fn, env_of, tsyms, tcons,
                                 lambda ot, w, kind, val, n=n: self._judge_links(cls, construct, n, ot, w, kind, val, loop=True), n,
                                 world_cls=LinkWorld, extra_cfg=dict(loop=True))

    def _judge_links(self, cls, construct, n, ot, w, kind, val, loop=False):
        wit = "%s%d interval(s) | order: %s" % ("self-loop, " if loop else "", n, ot.describe())
        if kind == "ok":
            if isinstance(val, Opaque):
                raise Unsupported(None, "node_link_data returns a value the interpretation does not know: %r" % (val,))
            if not isinstance(val, DictObj):
                self.add("C11.data", construct, "not-a-dict", "node_link_data returns %r" % (val,), wit)
                return
            e = val.entries
            d = e.get(Const("directed"))
            if not (isinstance(d, Const) and d.v is (cls == "DynDiGraph")):
                self.add("C11.data", construct, "directed-flag", "data['directed'] is %r for a %s" % (d, cls), wit)
            g = e.get(Const("graph"))
            if not (isinstance(g, AttrOf) and g.attr == "graph"):
                self.add("C11.data", construct, "graph-attrs", "data['graph'] is %r, expected the graph attributes" % (g,), wit)
            nodes = e.get(Const("nodes"))
            ok_nodes = isinstance(nodes, NodeList)
            if isinstance(nodes, ListObj):
                # concrete enumeration of the modelled graph's nodes: every node once, attributes + id
                norm = []
                for x in nodes.items:
                    norm.append(_as_node_entry(x))
                roles = [x.node.role for x in norm if isinstance(x, NodeEntry) and x.idkey == IDKEY]
                ok_nodes = len(roles) == len(nodes.items) and sorted(roles) == sorted({"U"} if loop else {"U", "V"})
            if not ok_nodes:
                self.add("C11.data", construct, "nodes", "data['nodes'] is %r, expected one entry per node of G with its attributes and its id "
                         "under the requested key %r" % (nodes, IDKEY.v), wit)
            links = e.get(Const("links"))
            if not isinstance(links, ListObj):
                self.add("C11.links", construct, "links-not-a-list", "data['links'] is %r" % (links,), wit)
                return
            w.emitted = [(x, []) for x in links.items]
        self._judge_rows(construct, "C11.links", n, ot, w, kind, val, loop=loop)


IDKEY = Const("name")          # attrs['id'] handed to node_link_data by the check


class NodeList:
    def __repr__(self):
        return "[attrs+id for every node of G]"


class LinkWorld(CtorWorld):
    """node_link_data builds data = {..., 'links': []} and appends to data['links']."""

    def eval_comprehension(self, ip, e, env):
        # [dict(chain(G._node[n].items(), [(id_, n)])) for n in G]
        if isinstance(e, ast.ListComp) and len(e.generators) == 1 and not e.generators[0].ifs:
            g = e.generators[0]
            it = ip.eval(g.iter, env)
            if isinstance(it, (GraphParamV, SelfV)) and isinstance(g.target, ast.Name):
                n = NodeV("n-of-G")
                env2 = dict(env)
                env2[g.target.id] = n
                v = _as_node_entry(ip.eval(e.elt, env2))
                if isinstance(v, NodeEntry) and v.node == n and v.idkey == IDKEY:
                    return NodeList()
                return Opaque("node entries %r" % (v,))
        return super().eval_comprehension(ip, e, env)

    def concretise_mapping(self, ip, v, node):
        if isinstance(v, NodeAttrs):
            return DictObj({Const("__attrs_of__"): v.node}, tag="attr-copy")
        return None

    def call_builtin(self, ip, name, args, kwargs, node):
        if name == "dict" and len(args) == 1 and isinstance(args[0], (NodeAttrs, DictObj)) and kwargs:
            base = self.concretise_mapping(ip, args[0], node) if isinstance(args[0], NodeAttrs) else DictObj(dict(args[0].entries))
            for k, v in kwargs.items():
                base.entries[Const(k)] = v
            return base
        if name == "dict" and len(args) == 1 and isinstance(args[0], NodeAttrs):
            # a fresh dict holding the node's attributes
            return DictObj({Const("__attrs_of__"): args[0].node}, tag="attr-copy")
        if name == "dict" and len(args) == 1 and isinstance(args[0], AttrItems):
            return DictObj({Const("__attrs_of__"): args[0].node}, tag="attr-copy")
        if name == "chain" and len(args) == 2 and isinstance(args[0], AttrItems) and isinstance(args[1], ListObj) \
                and len(args[1].items) == 1 and isinstance(args[1].items[0], TupleV) and len(args[1].items[0].items) == 2:
            k, v = args[1].items[0].items
            if isinstance(v, NodeV) and v == args[0].node:
                return NodeEntry(v, k)
        if name == "dict" and len(args) == 1 and isinstance(args[0], NodeEntry):
            return args[0]
        return super().call_builtin(ip, name, args, kwargs, node)

    def call_method(self, ip, obj, name, args, kwargs, node):
        if isinstance(obj, NodeAttrs) and name == "items" and not args:
            return AttrItems(obj.node)
        return super().call_method(ip, obj, name, args, kwargs, node)

    def load_attr(self, ip, obj, attr, node):
        if isinstance(obj, NodeAttrs):
            return BoundMethod(obj, attr)
        return super().load_attr(ip, obj, attr, node)


def _as_node_entry(x):
    """{**attrs(n), key: n} in its dict form -> NodeEntry(n, key)"""
    if isinstance(x, DictObj) and len(x.entries) == 2 and Const("__attrs_of__") in x.entries:
        (k, v), = [(k, v) for k, v in x.entries.items() if k != Const("__attrs_of__")]
        if v == x.entries[Const("__attrs_of__")]:
            return NodeEntry(v, k)
    return x


class AttrItems:
    def __init__(self, node):
        self.node = node


class NodeEntry:
    def __init__(self, node, idkey):
        self.node, self.idkey = node, idkey

    def __repr__(self):
        return "{attrs of %r, %r: %r}" % (self.node, self.idkey, self.node)


class Events:
    pass


class ReplayWorld(CtorWorld):
    """parse_interactions: the graph being built is a recorder whose adjacency shows the pair's timeline."""

    def load_attr(self, ip, obj, attr, node):
        if isinstance(obj, NewGraph) and attr in ("adj", "_adj", "succ", "_succ"):
            return AdjMap("succ" if self.directed else "adj")
        return super().load_attr(ip, obj, attr, node)


def _find_op_dispatch(fn):
    for n in ast.walk(fn):
        if isinstance(n, ast.If) and isinstance(n.test, ast.Compare) and isinstance(n.test.left, ast.Name) \
                and n.test.left.id == "op" and isinstance(n.test.ops[0], (ast.Eq, ast.NotEq)) \
                and isinstance(n.test.comparators[0], ast.Constant) and n.test.comparators[0].value in ("+", "-"):
            return n
    return None


def check_event_replay(cc: "CtorChecker", cls):
    """The '+' / '-' dispatch of parse_interactions, interpreted for one event row (u, v, op, s)."""
    fn = cc.repo.get(EDGELIST, "parse_interactions")
    construct = cc.repo.construct(EDGELIST, "parse_interactions") + "[%s]" % cls
    disp = _find_op_dispatch(fn)
    if disp is None:
        raise AnalysisError("parse_interactions: the dispatch on op was not found")
    for op in ("+", "-"):
        for has_prefix in (False, True):
            cc.instances += 1
            syms, cons = ["a", "b", "s"], [("a", 0, "<=", "b", 0)]
            for zero in (False, True):
                try:
                    ots = enumerate_order_types(syms + (["0"] if zero else []), cons, cc.R)
                    for ot in ots:
                        cfg = dict(cls=cls, directed=cls == "DynDiGraph", removal=True, exists=True, has_prefix=has_prefix,
                                   closed=False, L="uv")

                        def once(ch, ot=ot, cfg=cfg):
                            w = ReplayWorld(cfg, ot, ch, cc.all_methods[cls], cc.all_methods)
                            ip = CtorInterp(w, ot)
                            g = NewGraph(cls, {})
                            env = {"G": g, "u": NodeV("U"), "v": NodeV("V"), "op": Const(op), "s": Int("s"),
                                   "keys": NONE, "nodetype": NONE, "timestamptype": NONE}
                            try:
                                ip.exec_stmt(disp, env)
                                return ("ok", w, g)
                            except AbstractRaise as r:
                                return ("raise", w, r)
                        for ch, (kind, w, val) in run_all_choices(once):
                            cc.n_runs += 1
                            _judge_replay(cc, construct, op, ot, w, kind, val)
                        cc.n_ordertypes += 1
                    break
                except NeedZero:
                    if zero:
                        raise


def _judge_replay(cc, construct, op, ot, w, kind, val):
    wit = "row 'u v %s s', pair's last interval [a,b] | order: %s" % (op, ot.describe())
    if kind == "raise":
        cc.add("C10.replay", construct, "raises:%s:%s" % (op, val.exc), "replaying a '%s' row raises %s (%s)" % (op, val.exc, val.detail), wit,
               getattr(val.node, "lineno", 0))
        return
    calls = [(u, v, t, e) for (u, v, t, e, _, _) in val.calls]
    if any((u, v) != (NodeV("U"), NodeV("V")) for (u, v, _, _) in calls):
        cc.add("C10.replay", construct, "endpoints:%s" % op, "the row's (u, v) is not forwarded unswapped", wit)
    if op == "+":
        ok = len(calls) == 1 and isinstance(calls[0][2], Int) and calls[0][2].term() == ("s", 0) and \
            isinstance(calls[0][3], Const) and calls[0][3].v is None
        if not ok:
            cc.add("C10.replay", construct, "plus-row", "a '+' row at s is replayed as %s, expected add_interaction(u, v, t=s)" % (calls,), wit)
        return
    # '-' at s: present from its latest appearance through s-1, vanishing logged at s
    if ot.cmp_terms(("b", 0), ("s", 0), ">="):
        if calls:
            cc.add("C10.replay", construct, "minus-row:not-after-run", "a '-' at or before the last end re-adds %s" % (calls,), wit)
        return
    ok = len(calls) == 1
    if ok:
        u, v, t, e = calls[0]
        ok = isinstance(t, Int) and isinstance(e, Int) and ot.cmp_terms(e.term(), ("s", 0), "==") and \
            ot.cmp_terms(("a", 0), t.term(), "<=") and ot.cmp_terms(t.term(), ("b", 1), "<=")
    if not ok:
        gap = "s=b+1" if ot.cmp_terms(("s", 0), ("b", 1), "==") else "s>b+1"
        cc.add("C10.replay", construct, "minus-row:%s" % gap,
               "a '-' row at s (%s) is replayed as %s; the pair must stay present through s-1 and the vanishing must be "
               "logged at s: add_interaction(u, v, t=<instant of the last run>, e=s)" % (gap, [(repr(c[2]), repr(c[3])) for c in calls]), wit)


def check_generate_interactions(cc: "CtorChecker", cls):
    fn = cc.repo.get(EDGELIST, "generate_interactions")
    construct = cc.repo.construct(EDGELIST, "generate_interactions") + "[G:%s]" % cls
    cc.instances += 1
    ot = OrderType([["tau"]], [], cc.R)
    cfg = dict(cls=cls, directed=cls == "DynDiGraph", removal=True, exists=False)
    w = EventWorld(cfg, ot, {}, cc.all_methods[cls], cc.all_methods)
    ip = CtorInterp(w, ot)
    try:
        ip.call_function(fn, {"G": GraphParamV(), "delimiter": Const("|")})
    except AbstractRaise as r:
        cc.add("C10.rows", construct, "raises:%s" % r.exc, "generate_interactions raises %s" % r.exc, "", getattr(r.node, "lineno", 0))
        return
    cc.n_runs += 1
    rows = [p for p, _ in w.emitted]
    ok = len(rows) == 1 and isinstance(rows[0], RowV) and rows[0].delim == "|" and len(rows[0].fields) == 4 and \
        rows[0].fields[0] == NodeV("X") and rows[0].fields[1] == NodeV("Y") and isinstance(rows[0].fields[2], Opaque) and \
        rows[0].fields[2].tag == "op" and isinstance(rows[0].fields[3], Int) and rows[0].fields[3].term() == ("tau", 0)
    if not ok:
        cc.add("C10.rows", construct, "row-shape", "for a stream event (X, Y, op, tau) the writer emits %s, expected the row "
               "'X<delim>Y<delim>op<delim>tau' once" % (rows,), "generic event")
    if w.effects:
        cc.add("C10.rows", construct, "writes-graph", "the writer writes the graph", "")


class EventWorld(CtorWorld):
    def call_method(self, ip, obj, name, args, kwargs, node):
        if isinstance(obj, GraphParamV):
            obj = SelfV()
        if isinstance(obj, SelfV) and name == "stream_interactions" and not args:
            return Events()
        return super().call_method(ip, obj, name, args, kwargs, node)

    def exec_special_for(self, ip, st, it, env):
        if isinstance(it, Events):
            ev = TupleV([NodeV("X"), NodeV("Y"), Opaque("op"), Int("tau")])
            ip.assign(st.target, ev, env)
            ip.run_loop_body(st, env)
            return
        return super().exec_special_for(ip, st, it, env)


# ---------------------------------------------------------------------------------------
# reciprocal to_undirected: two timelines (u->v and v->u), interval-set arithmetic
# ---------------------------------------------------------------------------------------
class IntervalSetV:
    """set(range(lo, hi)) - a set of consecutive instants, half open."""

    def __init__(self, lo, hi, ordered=False, unordered_list=False):
        self.lo, self.hi, self.ordered, self.unordered_list = lo, hi, ordered, unordered_list

    def __repr__(self):
        return "%s[%r, %r)" % ("sorted" if self.ordered else ("list-of-set" if self.unordered_list else "set"), self.lo, self.hi)


class LenV:
    def __init__(self, lo, hi):
        self.lo, self.hi = lo, hi

    def __repr__(self):
        return "len[%r, %r)" % (self.lo, self.hi)


class RecipWorld(CtorWorld):
    def __init__(self, cfg, ot, choices, methods, all_methods, n_out, n_in):
        super().__init__(dict(cfg, exists=False), ot, choices, methods, all_methods)
        def tl(prefix, n):
            ivs = [ListObj([Int("%sa%d" % (prefix, i)), Int("%sb%d" % (prefix, i))], persistent=True, tag="%s-interval:%d" % (prefix, i))
                   for i in range(1, n + 1)]
            return DictObj({Const("t"): ListObj(ivs, persistent=True, tag="%s-timeline" % prefix)}, persistent=True, tag="%s-dict" % prefix)
        self.d_out = tl("o", n_out)       # U -> V
        self.d_in = tl("i", n_in)         # V -> U

    def node_exists(self, role):
        return True

    def pair_exists(self, store, r1, r2):
        return {r1, r2} == {"U", "V"}

    def pair_dict(self, store, r1, r2, node):
        if {r1, r2} != {"U", "V"}:
            raise AbstractRaise("KeyError", node, detail="no adjacency entry %s[%s][%s]" % (store, r1, r2))
        fwd = (store == "succ" and (r1, r2) == ("U", "V")) or (store == "pred" and (r1, r2) == ("V", "U"))
        return self.d_out if fwd else self.d_in

    def adjacency_rows(self, store):
        """both directions are stored: U->V carries d_out, V->U carries d_in"""
        if store == "succ":
            return {"U": {"V": self.d_out}, "V": {"U": self.d_in}}
        return {"V": {"U": self.d_out}, "U": {"V": self.d_in}}

    def concretise_iter(self, ip, it, node):
        if isinstance(it, (NodeMap, SelfV)):
            return ListObj([NodeV("U"), NodeV("V")])
        return super().concretise_iter(ip, it, node)

    def compare(self, ip, a, sym, b, node):
        if isinstance(a, NodeV) and isinstance(b, NodeV) and sym in ("<", "<=", ">", ">="):
            if a.role == b.role:
                return sym in ("<=", ">=")
            u_gt_v = self.choose("node-order:U>V")
            a_gt_b = u_gt_v if a.role == "U" else not u_gt_v
            return a_gt_b if sym in (">", ">=") else not a_gt_b
        if isinstance(a, LenV) and isinstance(b, Const) and isinstance(b.v, int):
            c = b.v
            lo, hi = a.lo, a.hi
            if c <= 0:
                nonempty = ip.cmp_int(hi, lo, ">", node)
                return {"==": (not nonempty) if c == 0 else False, "!=": nonempty if c == 0 else True,
                        ">": nonempty if c == 0 else True, ">=": True, "<": False, "<=": (not nonempty) if c == 0 else False}[sym]
            ref = Int(lo.base, lo.k + c)
            if sym in ("==", "!="):
                r = ip.cmp_int(hi, ref, "==", node)
                return r if sym == "==" else not r
            return ip.cmp_int(hi, ref, sym, node)
        return super().compare(ip, a, sym, b, node)

    def call_builtin(self, ip, name, args, kwargs, node):
        if name in ("set", "frozenset") and len(args) == 1 and isinstance(args[0], RangeV):
            return IntervalSetV(args[0].lo, args[0].hi)
        if name in ("set", "frozenset") and len(args) == 1 and isinstance(args[0], IntervalSetV):
            return IntervalSetV(args[0].lo, args[0].hi)
        if name == "sorted" and len(args) == 1 and isinstance(args[0], (IntervalSetV, RangeV)):
            if kwargs:
                raise Unsupported(node, "sorted with options")
            return IntervalSetV(args[0].lo, args[0].hi, ordered=True)
        if name in ("list", "tuple") and len(args) == 1 and isinstance(args[0], IntervalSetV):
            return IntervalSetV(args[0].lo, args[0].hi, ordered=args[0].ordered, unordered_list=not args[0].ordered)
        if name == "len" and len(args) == 1 and isinstance(args[0], IntervalSetV):
            return LenV(args[0].lo, args[0].hi)
        return super().call_builtin(ip, name, args, kwargs, node)

    def load_attr(self, ip, obj, attr, node):
        if isinstance(obj, IntervalSetV):
            return BoundMethod(obj, attr)
        return super().load_attr(ip, obj, attr, node)

    def truth_of(self, ip, v):
        if isinstance(v, IntervalSetV):
            return bool(ip.cmp_int(v.hi, v.lo, ">", None))         # a set / list of consecutive instants is true iff it is not empty
        return super().truth_of(ip, v)

    def call_method(self, ip, obj, name, args, kwargs, node):
        if isinstance(obj, IntervalSetV) and name == "intersection" and len(args) == 1 and isinstance(args[0], (IntervalSetV, RangeV)) and not kwargs:
            return self.binop(ip, IntervalSetV(obj.lo, obj.hi), ast.BitAnd(), args[0], node)
        return super().call_method(ip, obj, name, args, kwargs, node)

    def binop(self, ip, a, op, b, node):
        if isinstance(op, ast.BitAnd) and isinstance(a, (IntervalSetV, RangeV)) and isinstance(b, (IntervalSetV, RangeV)):
            lo = a.lo if ip.cmp_int(a.lo, b.lo, ">=", node) else b.lo
            hi = a.hi if ip.cmp_int(a.hi, b.hi, "<=", node) else b.hi
            return IntervalSetV(lo, hi)
        return super().binop(ip, a, op, b, node)

    def load_subscript(self, ip, obj, key, node):
        if isinstance(obj, IntervalSetV) and isinstance(key, Const) and key.v in (0, -1):
            if not ip.cmp_int(obj.hi, obj.lo, ">", node):
                raise AbstractRaise("IndexError", node, detail="index into an empty list of shared instants")
            if not obj.ordered:
                self.unordered_uses = getattr(self, "unordered_uses", 0) + 1
                return Opaque("arbitrary-element")
            return obj.lo if key.v == 0 else Int(obj.hi.base, obj.hi.k - 1)
        return super().load_subscript(ip, obj, key, node)


def check_reciprocal(cc: "CtorChecker", shapes=((1, 1), (1, 2), (2, 1))):
    cls = "DynDiGraph"
    rel = CLASSES[cls]
    fn = cc.repo.get(rel, cls + ".to_undirected")
    construct = cc.repo.construct(rel, cls + ".to_undirected") + "[reciprocal]"
    for (n_out, n_in) in shapes:
        cc.instances += 1
        syms, cons = [], []
        for pre, n in (("o", n_out), ("i", n_in)):
            for i in range(1, n + 1):
                syms += ["%sa%d" % (pre, i), "%sb%d" % (pre, i)]
                cons.append(("%sa%d" % (pre, i), 0, "<=", "%sb%d" % (pre, i), 0))
                if i > 1:
                    cons.append(("%sb%d" % (pre, i - 1), 2, "<=", "%sa%d" % (pre, i), 0))
        # eight interval ends at resolution 3 are > 300 000 order types; the branch only compares ends and adds 1,
        # so resolution 2 decides it (an Undetermined comparison would still escalate the whole check)
        R = cc.R if n_out + n_in <= 3 else min(cc.R, 2)
        for zero in (False, True):
            try:
                for ot in enumerate_order_types(syms + (["0"] if zero else []), cons, R):
                    cfg = dict(cls=cls, directed=True, removal=True, exists=False)

                    def once(ch, ot=ot):
                        w = RecipWorld(cfg, ot, ch, cc.all_methods[cls], cc.all_methods, n_out, n_in)
                        ip = CtorInterp(w, ot)
                        env = {"self": SelfV(), "reciprocal": TRUE}
                        if fn.args.kwarg:
                            env[fn.args.kwarg.arg] = DictObj()
                        try:
                            return ("ok", w, ip.call_function(fn, env))
                        except AbstractRaise as r:
                            return ("raise", w, r)
                    for ch, (kind, w, val) in run_all_choices(once):
                        cc.n_runs += 1
                        _judge_recip(cc, construct, n_out, n_in, ot, w, kind, val)
                    cc.n_ordertypes += 1
                break
            except NeedZero:
                if zero:
                    raise


def _judge_recip(cc, construct, n_out, n_in, ot, w, kind, val):
    wit = "u->v has %d interval(s) [oa,ob], v->u has %d [ia,ib] | order: %s" % (n_out, n_in, ot.describe())
    if kind == "raise":
        cc.add("C16.reciprocal", construct, "raises:%s" % val.exc, "to_undirected(reciprocal=True) raises %s (%s)" % (val.exc, val.detail),
               wit, getattr(val.node, "lineno", 0))
        return
    if not isinstance(val, NewGraph) or val.cls != "DynGraph":
        cc.add("C16.reciprocal", construct, "wrong-class", "returns %r" % (val,), wit)
        return
    # expected: the non-empty intersections, in increasing order
    want = []
    for i in range(1, n_out + 1):
        for j in range(1, n_in + 1):
            oa, ob, ia, ib = ("oa%d" % i, 0), ("ob%d" % i, 0), ("ia%d" % j, 0), ("ib%d" % j, 0)
            lo = oa if ot.cmp_terms(oa, ia, ">=") else ia
            hi = ob if ot.cmp_terms(ob, ib, "<=") else ib
            if ot.cmp_terms(lo, hi, "<="):
                want.append((lo, hi))
    import functools
    want.sort(key=functools.cmp_to_key(lambda x, y: 0 if ot.cmp_terms(x[0], y[0], "==") else (-1 if ot.cmp_terms(x[0], y[0], "<") else 1)))
    got = []
    for (u, v, t, e, _, intry) in val.calls:
        if {getattr(u, "role", None), getattr(v, "role", None)} != {"U", "V"}:
            cc.add("C16.reciprocal", construct, "foreign-pair", "add_interaction on %r, %r" % (u, v), wit)
            return
        if not isinstance(t, Int):
            cc.add("C16.reciprocal", construct, "t-not-an-instant", "add_interaction receives t=%r (%s)" % (
                t, "an arbitrary element of an unordered set: list(set) has no defined order" if isinstance(t, Opaque) else "not an instant"), wit)
            return
        # closed span [t, end]
        if isinstance(e, Const) and e.v is None:
            end = t
        elif isinstance(e, Int):
            end = Int(e.base, e.k - 1)
        else:
            cc.add("C16.reciprocal", construct, "e-not-an-instant", "add_interaction receives e=%r" % (e,), wit)
            return
        got.append((t.term(), end.term()))
    same = len(got) == len(want) and all(ot.cmp_terms(g[0], w_[0], "==") and ot.cmp_terms(g[1], w_[1], "==") for g, w_ in zip(got, want))
    if not same:
        kind2 = "missing" if len(got) < len(want) else ("extra" if len(got) > len(want) else "bounds")
        cc.add("C16.reciprocal", construct, "intersection:%s:%dx%d" % (kind2, n_out, n_in),
               "reciprocal conversion re-adds the closed spans %s; the instants shared by both directions are %s" % (got, want), wit)
