"""Substrate shared by all rules: module index, definitions lookup, findings.

Everything here works on the *text* of /repo's working tree parsed with ``ast``;
dynetx is never imported.
"""
from __future__ import annotations
import ast
import hashlib
import os
from dataclasses import dataclass, field


class AnalysisError(Exception):
    """The analyser cannot give a verdict (unknown shape, vanished anchor...).

    Reported as ANALYSIS-ERROR, exit status 2: never a pass, never a violation.
    """


@dataclass
class Finding:
    prop: str                # property id the finding is reported under
    rule: str                # rule id, e.g. "O.merge.timeline"
    construct: str           # e.g. "dynetx/classes/dyngraph.py::DynGraph.add_interaction"
    key: str                 # structural key (never a line number)
    message: str
    line: int = 0
    witness: object = None

    def fullkey(self):
        return "%s|%s|%s" % (self.rule, self.construct, self.key)


@dataclass
class Obligation:
    """One thing a rule had to establish (a rule instance)."""
    rule: str
    construct: str
    what: str
    ok: bool = True
    nontrivial: bool = True
    detail: object = None


class Report:
    """Collects obligations, findings and samples for one property check."""

    def __init__(self, prop):
        self.prop = prop
        self.obligations: list[Obligation] = []
        self.findings: list[Finding] = []
        self.samples: list = []
        self.stats: dict = {}
        self.assumptions: list[str] = []
        self.floors: list = []      # (name, found, floor)

    def ob(self, rule, construct, what, ok=True, nontrivial=True, detail=None):
        o = Obligation(rule, construct, what, ok, nontrivial, detail)
        self.obligations.append(o)
        return o

    def finding(self, rule, construct, key, message, line=0, witness=None, prop=None):
        f = Finding(prop or self.prop, rule, construct, key, message, line, witness)
        # de-duplicate on the structural key
        for g in self.findings:
            if g.fullkey() == f.fullkey():
                return g
        self.findings.append(f)
        return f

    def sample(self, s):
        if len(self.samples) < 12:
            self.samples.append(s)

    def floor(self, name, found, floor):
        self.floors.append((name, found, floor))
        if found < floor:
            raise AnalysisError("instance count for %s fell to %d (floor %d): the rule no longer "
                                "sees the constructs it was written for" % (name, found, floor))

    def assume(self, *items):
        for s in items:
            if s not in self.assumptions:
                self.assumptions.append(s)

    def absorb(self, other):
        for o in other.obligations:
            self.obligations.append(o)
        for f in other.findings:
            self.finding(f.rule, f.construct, f.key, f.message, f.line, f.witness)
        for x in other.samples:
            self.sample(x)
        for k, v in other.stats.items():
            self.stats[k] = self.stats.get(k, 0) + v if isinstance(v, (int, float)) and not isinstance(v, bool) else v
        self.assume(*other.assumptions)
        self.floors.extend(other.floors)

    def merge_stats(self, **kw):
        for k, v in kw.items():
            self.stats[k] = self.stats.get(k, 0) + v if isinstance(v, (int, float)) else v


PROD_EXCLUDE = ("test",)


class Repo:
    """Index of the production modules of the dynetx working tree."""

    def __init__(self, root="/repo"):
        self.root = root
        self.pkg = os.path.join(root, "dynetx")
        if not os.path.isdir(self.pkg):
            raise AnalysisError("no dynetx package under %s" % root)
        self.modules: dict[str, ast.Module] = {}
        self.sources: dict[str, str] = {}
        for dirpath, dirnames, filenames in os.walk(self.pkg):
            dirnames[:] = [d for d in dirnames if d not in PROD_EXCLUDE and d != "__pycache__"]
            for fn in sorted(filenames):
                if fn.endswith(".py"):
                    p = os.path.join(dirpath, fn)
                    rel = os.path.relpath(p, root)
                    try:
                        src = open(p, encoding="utf-8").read()
                        tree = ast.parse(src, filename=p)
                    except (SyntaxError, UnicodeDecodeError, OSError) as ex:
                        raise AnalysisError("cannot parse %s: %s" % (rel, ex))
                    self.modules[rel] = tree
                    self.sources[rel] = src
        self._defs = {}
        for rel, tree in self.modules.items():
            self._index(rel, tree)

    def _index(self, rel, tree):
        for node in tree.body:
            if isinstance(node, (ast.FunctionDef, ast.AsyncFunctionDef)):
                self._defs[(rel, node.name)] = node
            elif isinstance(node, ast.ClassDef):
                self._defs[(rel, node.name)] = node
                for sub in node.body:
                    if isinstance(sub, (ast.FunctionDef, ast.AsyncFunctionDef)):
                        self._defs[(rel, node.name + "." + sub.name)] = sub
                    elif isinstance(sub, ast.Assign):
                        # class-body aliases: neighbors = successors
                        if (len(sub.targets) == 1 and isinstance(sub.targets[0], ast.Name)
                                and isinstance(sub.value, ast.Name)):
                            self._defs.setdefault((rel, node.name + ".__alias__"), {})[
                                sub.targets[0].id] = sub.value.id

    # ------------------------------------------------------------------
    def digest(self):
        h = hashlib.sha256()
        for rel in sorted(self.sources):
            h.update(rel.encode())
            h.update(self.sources[rel].encode())
        return h.hexdigest()[:16]

    def has(self, rel, qual):
        return (rel, qual) in self._defs

    def get(self, rel, qual):
        """Definition node; a vanished anchor is an analysis error, never a pass."""
        try:
            return self._defs[(rel, qual)]
        except KeyError:
            raise AnalysisError("anchor vanished: %s::%s is not defined in the working tree" % (rel, qual))

    def method(self, rel, cls, name):
        """Resolve a method through class-body aliases."""
        aliases = self._defs.get((rel, cls + ".__alias__"), {})
        seen = set()
        while name in aliases and name not in seen:
            seen.add(name)
            name = aliases[name]
        return self.get(rel, cls + "." + name)

    def class_methods(self, rel, cls):
        c = self.get(rel, cls)
        out = {}
        for sub in c.body:
            if isinstance(sub, (ast.FunctionDef, ast.AsyncFunctionDef)):
                out[sub.name] = sub
        for k, v in self._defs.get((rel, cls + ".__alias__"), {}).items():
            if v in out:
                out[k] = out[v]
        return out

    def functions(self, rel):
        return {n.name: n for n in self.modules[rel].body if isinstance(n, ast.FunctionDef)}

    def construct(self, rel, qual):
        return "%s::%s" % (rel, qual)


DYNGRAPH = "dynetx/classes/dyngraph.py"
DYNDIGRAPH = "dynetx/classes/dyndigraph.py"
FUNCTION = "dynetx/classes/function.py"
EDGELIST = "dynetx/readwrite/edgelist.py"
NODELINK = "dynetx/readwrite/json_graph/node_link.py"
PATHS = "dynetx/algorithms/paths.py"
DECORATORS = "dynetx/utils/decorators.py"
TRANSFORM = "dynetx/utils/transform.py"

CLASSES = {"DynGraph": DYNGRAPH, "DynDiGraph": DYNDIGRAPH}


def src(node):
    """Normalised source text of a node (position independent)."""
    try:
        return ast.unparse(node)
    except Exception:       # pragma: no cover
        return ast.dump(node)


def strip_doc(body):
    if body and isinstance(body[0], ast.Expr) and isinstance(body[0].value, ast.Constant) \
            and isinstance(body[0].value.value, str):
        return body[1:]
    return body


def is_name(node, *names):
    return isinstance(node, ast.Name) and node.id in names


def is_self_attr(node, *attrs):
    return (isinstance(node, ast.Attribute) and isinstance(node.value, ast.Name)
            and node.value.id == "self" and (not attrs or node.attr in attrs))


def const_value(node, default=None):
    if isinstance(node, ast.Constant):
        return node.value
    if isinstance(node, ast.UnaryOp) and isinstance(node.op, ast.USub) and isinstance(node.operand, ast.Constant):
        return -node.operand.value
    return default


def walk_no_nested(node):
    """ast.walk that does not descend into nested function/class definitions."""
    stack = list(ast.iter_child_nodes(node))
    while stack:
        n = stack.pop()
        yield n
        if isinstance(n, (ast.FunctionDef, ast.AsyncFunctionDef, ast.ClassDef, ast.Lambda)):
            continue
        stack.extend(ast.iter_child_nodes(n))
