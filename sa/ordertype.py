"""Order types: the finite abstract domain for integer time values (DESIGN.md 3.2).

An order type over symbols x1..xn is a weak ordering of the symbols (groups of
equal symbols, ascending) together with, for every pair of adjacent groups, the
gap between them: an exact integer in 1..R-1, or ``None`` meaning "at least R".
Every integer valuation of the symbols belongs to exactly one order type, and
every predicate of the form  x + c1  (op)  y + c2  with |c2 - c1| < R has the
same truth value on all valuations of one order type.  Predicates that are not
constant on an order type raise ``Undetermined`` (the caller re-runs at a
higher resolution R); they are never guessed.

No valuation is ever built and nothing is executed: comparisons are decided by
summing gaps.
"""
from __future__ import annotations
import itertools


class Undetermined(Exception):
    """The predicate is not constant on this order type (resolution too low)."""


class OrderType:
    __slots__ = ("groups", "gaps", "R", "_pos")

    def __init__(self, groups, gaps, R):
        self.groups = [tuple(g) for g in groups]
        self.gaps = list(gaps)
        self.R = R
        self._pos = {}
        for i, g in enumerate(self.groups):
            for s in g:
                self._pos[s] = i

    # -- basic queries --------------------------------------------------
    def symbols(self):
        return list(self._pos)

    def has(self, s):
        return s in self._pos

    def diff(self, x, y):
        """Return (lo, hi) bounds (hi/lo may be None = unbounded) of x - y."""
        px, py = self._pos[x], self._pos[y]
        if px == py:
            return (0, 0)
        lo_i, hi_i = (py, px) if px > py else (px, py)
        total = 0
        exact = True
        for g in self.gaps[lo_i:hi_i]:
            if g is None:
                exact = False
                total += self.R
            else:
                total += g
        if px > py:
            return (total, total if exact else None)
        return (-total if exact else None, -total)

    def cmp_terms(self, tx, ty, op):
        """Decide (x + kx) op (y + ky) for op in < <= > >= == !=."""
        (x, kx), (y, ky) = tx, ty
        lo, hi = self.diff(x, y)
        c = ky - kx          # (x - y) op c
        return _decide(lo, hi, c, op)

    def describe(self):
        out = []
        for i, g in enumerate(self.groups):
            if i:
                gap = self.gaps[i - 1]
                out.append(" <(+%s) " % (gap if gap is not None else ">=%d" % self.R))
            out.append("=".join(g))
        return "".join(out)

    def key(self):
        return (tuple(self.groups), tuple(self.gaps))


def _decide(lo, hi, c, op):
    # D in [lo, hi] (None = unbounded);  decide  D op c
    def lt():   # D < c
        if hi is not None and hi < c:
            return True
        if lo is not None and lo >= c:
            return False
        raise Undetermined()

    def le():
        if hi is not None and hi <= c:
            return True
        if lo is not None and lo > c:
            return False
        raise Undetermined()

    def eq():
        if lo is not None and hi is not None and lo == hi:
            return lo == c
        if lo is not None and lo > c:
            return False
        if hi is not None and hi < c:
            return False
        raise Undetermined()

    if op == "<":
        return lt()
    if op == "<=":
        return le()
    if op == ">":
        return not le()
    if op == ">=":
        return not lt()
    if op == "==":
        return eq()
    if op == "!=":
        return not eq()
    raise ValueError(op)


def enumerate_order_types(symbols, constraints, R):
    """All order types over ``symbols`` satisfying ``constraints``.

    constraints: iterable of (x, kx, op, y, ky) meaning x+kx op y+ky; every
    constraint must be decidable on every surviving order type (else
    Undetermined is raised: pick a larger R).
    """
    symbols = list(symbols)
    constraints = list(constraints)
    results = []

    def ok(ot, placed, final):
        for (x, kx, op, y, ky) in constraints:
            if x in placed and y in placed:
                try:
                    if not ot.cmp_terms((x, kx), (y, ky), op):
                        return False
                except Undetermined:
                    if final:
                        raise
        return True

    def rec(groups, gaps, idx):
        if idx == len(symbols):
            ot = OrderType(groups, gaps, R)
            if ok(ot, set(symbols), True):
                results.append(ot)
            return
        s = symbols[idx]
        placed = set(symbols[:idx + 1])
        cands = []
        # join an existing group
        for i in range(len(groups)):
            g2 = [list(g) for g in groups]
            g2[i].append(s)
            cands.append((g2, list(gaps)))
        gap_choices = list(range(1, R)) + [None]
        if not groups:
            cands.append(([[s]], []))
        else:
            # before the first group
            for g in gap_choices:
                cands.append(([[s]] + [list(x) for x in groups], [g] + list(gaps)))
            # after the last group
            for g in gap_choices:
                cands.append(([list(x) for x in groups] + [[s]], list(gaps) + [g]))
            # strictly between two adjacent groups
            for i, old in enumerate(gaps):
                if old is not None:
                    splits = [(a, old - a) for a in range(1, old)]
                else:
                    splits = []
                    for a in gap_choices:
                        for b in gap_choices:
                            if a is not None and b is not None and a + b < R:
                                continue
                            splits.append((a, b))
                for (a, b) in splits:
                    g2 = [list(x) for x in groups]
                    g2.insert(i + 1, [s])
                    gp = list(gaps)
                    gp[i:i + 1] = [a, b]
                    cands.append((g2, gp))
        for (g2, gp) in cands:
            # keep exact sums that reach R as exact (finer than needed, still a partition)
            ot = OrderType(g2, gp, R)
            if ok(ot, placed, False):
                rec(g2, gp, idx + 1)

    rec([], [], 0)
    # de-duplicate (different insertion orders cannot collide, but be safe)
    seen = {}
    for ot in results:
        seen.setdefault(ot.key(), ot)
    return list(seen.values())
