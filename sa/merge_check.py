"""O engine instance: ``add_interaction`` decided over all order types (DESIGN.md 3.2, 4).

For both graph classes the body of ``add_interaction`` is interpreted abstractly
(sa/absint.py) once per *world*:

  class x edge_removal x (e given?) x (pair exists?) x (earlier intervals?) x
  (last run closed by a '-' event?) x (orientation under which an undirected pair
  was logged) x order type of {s, E, a, b} x lazily discovered choices
  (do the end nodes exist? does some other pair own an event at this instant? ...)

and the abstract post-state is compared with the specification written from the
property statements:

  C01/C03  timeline  = pre-timeline merged with [s, f]   (f = s or E-1)
  C07      a rejected call has no effect at all
  C05      this pair's events = '+' at run starts, '-' only at run end + 1
  C04      counters rise by the reader's divisor exactly on newly present instants
  C08      accumulative mode: '+' only for a new pair, no '-', snapshot key {s}
  C01      no exception other than the documented ones
"""
from __future__ import annotations
import ast
import itertools
from .core import AnalysisError, Repo, CLASSES, src, walk_no_nested, is_self_attr
from .ordertype import OrderType, enumerate_order_types, Undetermined
from .absint import (NeedZero, Interp, Int, Const, NONE, NodeV, SelfV, ListObj, DictObj, RangeV, LoopVar, AbstractRaise,
                     Unsupported, Fork, run_all_choices, Opaque)
from .world_graph import GraphWorld


def counter_divisor(repo: Repo, rel, cls):
    """The divisor interactions_per_snapshots applies to the stored counters, read off by *interpreting* the reader on an
    index that stores 4 under one id (sa/readers_interp.py): divisor = 4 / answer.  (None, reason) when the reader gives no
    number there - readers_interp reports that as a finding of its own (C04.counts)."""
    from .readers_interp import interpreted_divisor
    return interpreted_divisor(repo, cls)


def worlds_for(directed, R):
    """Yield (cfg, symbols, constraints) for every combination of the finite flags.
    A vanishing time e <= t describes an *empty* span t..e-1: on removal-enabled graphs these calls form their own
    family (empty=True: nothing may change); accumulative graphs ignore e, so there e is unconstrained."""
    for removal in (True, False):
        for has_e, empty in ((False, False), (True, False)) + (((True, True),) if removal else ()):
            # new pair
            syms = ["s"] + (["E"] if has_e else [])
            cons = []
            if has_e and removal:
                cons = [("E", 0, "<=", "s", 0)] if empty else [("s", 0, "<", "E", 0)]
            yield dict(removal=removal, has_e=has_e, exists=False, empty=empty), syms, cons
            for has_prefix in (False, True):
                for closed in ((False, True) if removal else (False,)):
                    for L in (("uv",) if directed else ("uv", "vu")):
                        syms2 = syms + ["a", "b"]
                        cons2 = cons + [("a", 0, "<=", "b", 0)]
                        yield dict(removal=removal, has_e=has_e, exists=True, has_prefix=has_prefix,
                                   closed=closed, L=L, empty=empty), syms2, cons2


def case_of(cfg, ot: OrderType):
    """Semantic class of the call relative to the pair's last run (used in finding keys)."""
    if cfg.get("empty"):
        if cfg["exists"] and ot.cmp_terms(("s", 0), ("a", 0), "<"):
            return "empty-span-before-latest-run"
        return "empty-span-new-pair" if not cfg["exists"] else "empty-span"
    if not cfg["exists"]:
        return "new-pair"
    s, a, b = ("s", 0), ("a", 0), ("b", 0)
    f = ("E", -1) if (cfg["has_e"] and cfg["removal"]) else ("s", 0)
    c = ot.cmp_terms
    if c(s, a, "<"):
        return "before-latest-run"
    if c(f, b, "<="):
        return "contained"
    if c(s, ("b", 1), "=="):
        return "adjacent" if not c(a, b, "==") else "adjacent-to-one-instant-run"
    if c(s, b, "<="):
        return "overlap-extend"
    return "gap"


class MergeChecker:
    def __init__(self, repo: Repo, clsname: str, R=2):
        self.repo = repo
        self.cls = clsname
        self.rel = CLASSES[clsname]
        self.directed = clsname == "DynDiGraph"
        self.R = R
        self.fn = repo.get(self.rel, clsname + ".add_interaction")
        self.methods = {k: v for k, v in repo.class_methods(self.rel, clsname).items()}
        self.construct = repo.construct(self.rel, clsname + ".add_interaction")
        self.div, self.div_problem = counter_divisor(repo, self.rel, clsname)
        from .ownership import container_types
        kinds = container_types(repo, clsname)
        self.kinds = {}
        self.kind_problems = []
        for attr, ks in kinds.items():
            if len(ks) != 1:
                self.kind_problems.append("self.%s is created with different container types %s" % (attr, sorted(ks)))
                self.kinds[attr] = sorted(ks)[0] if ks else "dict"
            else:
                self.kinds[attr] = next(iter(ks))
            if self.kinds[attr] not in ("dict", "defaultdict(int)", "defaultdict(dict)"):
                raise AnalysisError("%s: self.%s is created as %s, a container the abstract state does not model" % (
                    clsname, attr, self.kinds[attr]))
        self.findings = {}      # key -> dict
        self.n_worlds = 0
        self.n_ordertypes = 0
        self.n_runs = 0
        self.cases_seen = {}
        self.samples = []
        self.zero = False
        params = [a.arg for a in self.fn.args.args]
        if params[:3] != ["self", "u", "v"] or "t" not in params or "e" not in params:
            raise AnalysisError("%s: unexpected signature %s" % (self.construct, params))
        self.params = params

    # ------------------------------------------------------------------
    def add(self, clause, key, msg, witness, line=0):
        k = (clause, key)
        if k not in self.findings:
            self.findings[k] = dict(clause=clause, key=key, message=msg, witness=witness, line=line, count=0)
        self.findings[k]["count"] += 1

    def run(self):
        """Decide every world; if the body compares a time with an integer literal the whole
        enumeration is repeated with the symbol '0' in every order type."""
        try:
            return self._run(zero=False)
        except NeedZero:
            self.findings, self.n_worlds, self.n_ordertypes, self.n_runs = {}, 0, 0, 0
            self.cases_seen, self.samples = {}, []
            self.zero = True
            return self._run(zero=True)

    def _run(self, zero):
        self.zero = zero
        # the missing-t world
        self._run_missing_t()
        for cfg, syms, cons in worlds_for(self.directed, self.R):
            cfg = dict(cfg, cls=self.cls, directed=self.directed, tte_kind=self.kinds["time_to_edge"],
                       snap_kind=self.kinds["snapshots"])
            ots = enumerate_order_types(syms + (["0"] if zero else []), cons, self.R)
            self.n_worlds += 1
            for ot in ots:
                if cfg["exists"] and cfg["removal"] and not cfg.get("closed"):
                    # reachable-state invariant: a run of three or more instants is always closed
                    if ot.cmp_terms(("b", 0), ("a", 2), ">="):
                        continue
                self.n_ordertypes += 1
                self._run_world(cfg, ot)
        # rejected calls against a timeline with an explicit earlier run [p, q]: the rejected start (or vanishing time) may
        # coincide with an instant at which that run left an event - taking back the events of the rejected call must not
        # take those with it
        for has_e in (False, True):
            for closed in (False, True):
                for prev_closed in (False, True):
                    for L in (("uv",) if self.directed else ("uv", "vu")):
                        cfg = dict(removal=True, has_e=has_e, exists=True, has_prefix=False, closed=closed, L=L, prev_run=True,
                                   prev_closed=prev_closed, cls=self.cls, directed=self.directed, tte_kind=self.kinds["time_to_edge"],
                                   snap_kind=self.kinds["snapshots"])
                        syms = ["s"] + (["E"] if has_e else []) + ["p", "q", "a", "b"]
                        cons = ([("s", 0, "<", "E", 0)] if has_e else []) + [("p", 0, "<=", "q", 0), ("q", 2, "<=", "a", 0),
                                                                              ("a", 0, "<=", "b", 0), ("s", 0, "<", "a", 0)]
                        self.n_worlds += 1
                        for ot in enumerate_order_types(syms + (["0"] if zero else []), cons, self.R):
                            if not closed and ot.cmp_terms(("b", 0), ("a", 2), ">="):
                                continue
                            if not prev_closed and ot.cmp_terms(("q", 0), ("p", 2), ">="):
                                continue
                            self.n_ordertypes += 1
                            self._run_world(cfg, ot)
        return self

    def _env(self, has_e, t_missing=False):
        env = {"self": SelfV(), "u": NodeV("U"), "v": NodeV("V"),
               "t": NONE if t_missing else Int("s"), "e": Int("E") if has_e else NONE}
        # other defaulted parameters, if any
        a = self.fn.args
        defaults = dict(zip([x.arg for x in a.args][len(a.args) - len(a.defaults):], a.defaults))
        for p in self.params:
            if p not in env:
                if p in defaults and isinstance(defaults[p], ast.Constant):
                    env[p] = Const(defaults[p].value)
                else:
                    raise AnalysisError("%s: parameter %s has no modelled value" % (self.construct, p))
        return env

    def _run_missing_t(self):
        for has_e in (False, True):
            for exists in (False, True):
                cfg = dict(cls=self.cls, directed=self.directed, removal=True, has_e=has_e, exists=exists,
                           has_prefix=False, closed=False, L="uv", tte_kind=self.kinds["time_to_edge"],
                           snap_kind=self.kinds["snapshots"])
                syms = (["E"] if has_e else []) + (["a", "b"] if exists else [])
                cons = [("a", 0, "<=", "b", 0)] if exists else []
                if self.zero:
                    syms = syms + ["0"]
                for ot in (enumerate_order_types(syms, cons, self.R) if syms else [OrderType([], [], self.R)]):
                    def once(ch, cfg=cfg, ot=ot):
                        w = GraphWorld(cfg, ot, ch, self.methods)
                        ip = Interp(w, ot)
                        try:
                            ip.call_function(self.fn, self._env(has_e, t_missing=True))
                            return ("ok", w, None)
                        except AbstractRaise as r:
                            return ("raise", w, r)
                    for ch, (kind, w, r) in run_all_choices(once):
                        self.n_runs += 1
                        wit = "t=None, e %s, pair %s" % ("given" if has_e else "omitted", "exists" if exists else "new")
                        if kind != "raise" or r.exc != "NetworkXError" or not r.explicit:
                            self.add("C01.reject", "missing-t:not-rejected",
                                     "a call without t must raise NetworkXError; the interpreted body %s" % (
                                         "returned" if kind == "ok" else "raised %s (%s)" % (r.exc, r.detail)), wit,
                                     getattr(r.node, "lineno", 0) if r else 0)
                        net = w.net_changes()
                        if net:
                            self.add("C07.atomic", "missing-t:write-before-raise",
                                     "state written before the NetworkXError for a missing t is still there when it is raised: %s" % (
                                         net[0][0],), wit, net[0][1])

    # ------------------------------------------------------------------
    def _run_world(self, cfg, ot):
        def once(ch):
            w = GraphWorld(cfg, ot, ch, self.methods)
            ip = Interp(w, ot)
            try:
                ip.call_function(self.fn, self._env(cfg["has_e"]))
                return ("ok", w, None)
            except AbstractRaise as r:
                return ("raise", w, r)
        try:
            results = run_all_choices(once)
        except Undetermined:
            raise
        case = case_of(cfg, ot)
        self.cases_seen[case] = self.cases_seen.get(case, 0) + 1
        for ch, (kind, w, r) in results:
            self.n_runs += 1
            self._judge(cfg, ot, case, ch, kind, w, r)

    def _wit(self, cfg, ot, ch):
        flags = "removal=%s e=%s" % (cfg["removal"], "given" if cfg["has_e"] else "None")
        if cfg["exists"]:
            flags += " last=[a,b]%s%s%s logged-as=%s" % (
                " +earlier-intervals" if cfg.get("has_prefix") else "",
                (" previous-run=[p,q]%s" % (" closed('-'@q+1)" if cfg.get("prev_closed") else " unclosed")) if cfg.get("prev_run") else "",
                " closed('-'@b+1)" if cfg.get("closed") else " unclosed", cfg["L"])
        else:
            flags += " new pair"
        chs = ", ".join("%s=%s" % (k if isinstance(k, str) else "/".join(map(str, k)), v) for k, v in sorted(
            ch.items(), key=lambda kv: str(kv[0])))
        return "%s | order: %s%s" % (flags, ot.describe(), (" | " + chs) if chs else "")

    # ------------------------------------------------------------------
    def _judge(self, cfg, ot, case, ch, kind, w: GraphWorld, r):
        wit = self._wit(cfg, ot, ch)
        mode = "removal" if cfg["removal"] else "accumulative"
        ek = "e" if cfg["has_e"] else "noe"
        should_reject = case == "before-latest-run"
        empty = bool(cfg.get("empty"))
        may_reject = case == "empty-span-before-latest-run"     # an empty span that starts too early: rejected or ignored
        if len(self.samples) < 6 and kind == "ok" and cfg["exists"] and not self.samples_has(case):
            self.samples.append(dict(case=case, world=wit, effects=[e for e, _ in w.effects][:12]))
        # ---- exceptions ------------------------------------------------
        if kind == "raise":
            line = getattr(r.node, "lineno", 0)
            if r.exc == "ForeignPairAccess":
                self.add("C01.isolation", "%s:%s:%s:reverse-pair-data" % (mode, case, ek),
                         "add_interaction(u, v) reaches for the stored data of the reverse pair (v, u): on a directed graph the two "
                         "are different interactions and must not affect each other", wit, line)
                return
            if (should_reject or may_reject) and r.exc == "ValueError" and r.explicit:
                net = w.net_changes()
                if net:
                    self.add("C07.atomic", "reject:write-before-raise:%s" % net[0][0][0],
                             "the ValueError of a rejected call leaves a trace: state written before the raise is not taken back (%s)" % (
                                 net[0][0],), wit, net[0][1])
                return
            if r.explicit:
                self.add("C01.reject", "%s:%s:%s:spurious-%s" % (mode, case, ek, r.exc),
                         "an acceptable call (%s) is rejected with %s" % (case, r.exc), wit, line)
            else:
                self.add("C01.exception", "%s:%s:%s:%s" % (mode, case, ek, r.exc),
                         "add_interaction can fail with %s: %s" % (r.exc, r.detail), wit, line)
            net = w.net_changes()
            if net:
                self.add("C07.atomic", "exception:write-before-raise",
                         "state was already written when %s is raised (%s)" % (r.exc, net[0][0],), wit, net[0][1])
            return
        if should_reject:
            self.add("C01.reject", "%s:%s:not-rejected" % (mode, ek),
                     "a span starting before the start of the pair's latest run is accepted", wit)
            return
        # ---- structural errors noted by the world ---------------------------
        for err in w.errors:
            self.add("C01.state", "%s:%s" % (err[0], ":".join(map(str, err[1:-1]))),
                     "illegal state write: %s" % (err[:-1],), wit, err[-1])
        for inst, line in w.tte_clobber:
            self.add("C05.events", "%s:%s:%s:clobber" % (mode, case, ek),
                     "time_to_edge[%s] is overwritten with a fresh dict although events may exist at that instant" % inst,
                     wit, line)
        for eff, line in w.effects:
            if eff[0] == "tte_default_int":
                self.add("C01.state", "%s:%s:%s:defaultdict-int" % (mode, case, ek),
                         "reading time_to_edge[%s] without a membership test stores the int 0 there "
                         "(stream_interactions then fails)" % eff[1], wit, line)
        if not empty:
            self._judge_links(cfg, case, w, wit, mode, ek)
        tl = self._linked_timeline(w)
        if tl is not None:
            self._judge_timeline(cfg, ot, case, w, tl, wit, mode, ek)
        self._judge_events(cfg, ot, case, w, wit, mode, ek)
        self._judge_snapshots(cfg, ot, case, w, wit, mode, ek)

    def samples_has(self, case):
        return any(s["case"] == case for s in self.samples)

    # ------------------------------------------------------------------
    def _judge_links(self, cfg, case, w, wit, mode, ek):
        if self.directed:
            want = {("succ", "U", "V"), ("pred", "V", "U")}
            stores = ("succ", "pred")
        else:
            want = {("adj", "U", "V"), ("adj", "V", "U")}
            stores = ("adj",)
        got = {}
        for (s, a, b, obj) in w.links:
            got[(s, a, b)] = obj
        # an existing pair mutated in place stays linked; a new pair must be linked in both places
        have = set(got)
        if cfg["exists"]:
            have |= want if all(got.get(k, w.datadict) is w.datadict for k in want) else set()
        if have != want:
            self.add("C01.links", "%s:links:%s" % (case, ",".join("%s[%s][%s]" % k for k in sorted(have ^ want))),
                     "adjacency entries written %s, expected %s" % (sorted(got), sorted(want)), wit)
            return
        objs = [got.get(k, w.datadict if cfg["exists"] else None) for k in sorted(want)]
        if any(o is not objs[0] for o in objs) or objs[0] is None:
            self.add("C03.shared", "%s:links:distinct-dicts" % case,
                     "the two adjacency entries of the pair do not share one attribute dict", wit)
        if cfg["exists"] and objs[0] is not w.datadict:
            self.add("C01.links", "%s:links:replaced-dict" % case,
                     "the pair's existing attribute dict is replaced instead of updated", wit)
        # nodes: both end points must exist afterwards with a row in every store
        for role in ("U", "V"):
            existed = cfg["exists"] or w.choices.get(("node_exists", role)) or (
                self.directed and w.choices.get("rev_pair_exists"))
            if not existed:
                if not w.node_created.get(role):
                    self.add("C01.nodes", "node-not-created", "end point %s is not added to the node table" % role, wit)
                for s in stores:
                    if (s, role) not in w.adj_inited:
                        self.add("C01.nodes", "row-not-created:%s" % s,
                                 "end point %s gets no %s row" % (role, s), wit)

    def _linked_timeline(self, w):
        d = None
        for (s, a, b, obj) in w.links:
            d = obj
        if d is None:
            d = w.datadict
        if not isinstance(d, DictObj):
            return None
        tl = d.entries.get(Const("t"))
        return tl

    def _judge_timeline(self, cfg, ot, case, w, tl, wit, mode, ek):
        if not isinstance(tl, ListObj):
            self.add("C03.timeline", "%s:%s:not-a-list" % (mode, case), "the pair's 't' entry is %r" % (tl,), wit)
            return
        items = []
        for it in tl.items:
            if not (isinstance(it, ListObj) and len(it.items) == 2 and all(isinstance(x, Int) for x in it.items)):
                self.add("C03.timeline", "%s:%s:%s:bad-interval" % (mode, case, ek),
                         "timeline element %r is not an [start, end] pair of instants" % (it,), wit)
                return
            items.append((it.items[0], it.items[1]))
        s = Int("s")
        f = Int("E", -1) if (cfg["has_e"] and cfg["removal"]) else Int("s")
        if cfg.get("empty"):
            # the span t..e-1 is empty: the presence of the pair is what it was
            exp = ([(Int("z"), Int("z"))] if cfg.get("has_prefix") else []) + [(Int("a"), Int("b"))] if cfg["exists"] else []
        elif not cfg["exists"]:
            exp = [(s, f)]
        else:
            pre = [(Int("z"), Int("z"))] if cfg.get("has_prefix") else []
            a, b = Int("a"), Int("b")
            if not cfg["removal"]:
                # accumulative graphs: only the first start is observable (C08); the stored
                # intervals must still be well formed but their number is not specified
                first_ok = self._teq(ot, w, items[0][0], (pre[0][0] if pre else a))
                if not first_ok:
                    self.add("C08.presence", "accumulative:%s:first-start-changed" % case,
                             "the start of the pair's first interval changes from %r to %r" % (
                                 (pre[0][0] if pre else a), items[0][0]), wit)
                return
            if ot.cmp_terms(s.term(), ("b", 1), "<="):
                end = b if ot.cmp_terms(("b", 0), f.term(), ">=") else f
                exp = pre + [(a, end)]
            else:
                exp = pre + [(a, b), (s, f)]
        same = len(items) == len(exp) and all(
            self._teq(ot, w, x[0], y[0]) and self._teq(ot, w, x[1], y[1]) for x, y in zip(items, exp))
        if not same:
            self.add("C03.timeline", "%s:%s:%s" % (mode, case, ek),
                     "timeline after the call is %s, the union of the added spans is %s" % (
                         _fmt_tl(items), _fmt_tl(exp)), wit)

    def _teq(self, ot, w, x, y):
        r = w.cmp_special(x, y, "==")
        if r is not None:
            return r
        return ot.cmp_terms(x.term(), y.term(), "==")

    # ------------------------------------------------------------------
    def _judge_events(self, cfg, ot, case, w, wit, mode, ek):
        L = cfg.get("L", "uv") if cfg["exists"] else "uv"
        s = Int("s")
        f = Int("E", -1) if (cfg["has_e"] and cfg["removal"]) else Int("s")
        required, allowed = [], []        # lists of (op, instant)
        if not cfg["removal"]:
            # accumulative graphs: one '+' per pair, at its first appearance
            if cfg["exists"]:
                required.append(("+", Int("z") if cfg.get("has_prefix") else Int("a")))
            else:
                required.append(("+", s))
        else:
            if cfg.get("has_prefix"):
                required.append(("+", Int("z")))
            if cfg.get("empty"):
                runs = [(Int("a"), Int("b"), "kept")] if cfg["exists"] else []
            elif not cfg["exists"]:
                runs = [(s, f, "new")]
            else:
                a, b = Int("a"), Int("b")
                if ot.cmp_terms(s.term(), ("b", 1), "<="):
                    end = b if ot.cmp_terms(("b", 0), f.term(), ">=") else f
                    runs = [(a, end, "merged")]
                else:
                    runs = [(a, b, "kept"), (s, f, "new")]
            for (lo, hi, status) in runs:
                required.append(("+", lo))
                close = ("-", Int(hi.base, hi.k + 1))
                if status == "kept":
                    # a run this call does not touch keeps whatever closure it had
                    (required if cfg.get("closed") else allowed).append(close)
                elif ot.cmp_terms(hi.term(), lo.term(), ">"):
                    required.append(close)      # C05: a run longer than one instant is closed
                else:
                    allowed.append(close)       # a one-instant run may stay unclosed
        # actual own events
        actual = []
        for en in w.tte:
            for (o, op) in en.own:
                actual.append((o, op, en.instant))
        def find(lst, op, inst):
            for (o, p, i) in lst:
                if p == op and self._teq(ot, w, i, inst):
                    return (o, p, i)
            return None
        for (op, inst) in required:
            hit = find(actual, op, inst)
            if hit is None:
                kind = "missing:%s@%s" % (op, _role(inst, cfg, ot, w))
                self.add("C05.events", "%s:%s:%s:%s:%s" % (mode, case, ek, _pre(cfg), kind),
                         "after the call the stream lacks the event '%s' at %r for this pair" % (op, inst), wit)
            elif hit[0] != L and not self.directed:
                self.add("C05.events", "%s:%s:%s:orientation" % (mode, case, ek),
                         "event '%s' at %r is logged as %s although the pair was first logged as %s" % (
                             op, inst, hit[0], L), wit)
        for (o, op, inst) in actual:
            if any(p == op and self._teq(ot, w, i, inst) for (p, i) in required + allowed):
                if o != L and not self.directed and cfg["exists"]:
                    self.add("C05.events", "%s:%s:%s:orientation" % (mode, case, ek),
                             "event '%s' at %r is logged under the swapped orientation" % (op, inst), wit)
                continue
            kind = "stale:%s@%s" % (op, _role(inst, cfg, ot, w))
            self.add("C05.events", "%s:%s:%s:%s:%s" % (mode, case, ek, _pre(cfg), kind),
                     "after the call the stream holds '%s' at %r for this pair, where presence does not %s" % (
                         op, inst, "begin" if op == "+" else "end"), wit)

    # ------------------------------------------------------------------
    def _judge_snapshots(self, cfg, ot, case, w, wit, mode, ek):
        if self.div is None:
            return
        m = self.div
        s = Int("s")
        f = Int("E", -1) if (cfg["has_e"] and cfg["removal"]) else Int("s")
        # expected: half-open [lo, hi)
        if cfg["removal"] and cfg["exists"]:
            lo = s if ot.cmp_terms(("s", 0), ("b", 1), ">=") else Int("b", 1)
        else:
            lo = s
        hi = Int(f.base, f.k + 1)
        exp = []
        if ot.cmp_terms(lo.term(), hi.term(), "<"):
            exp.append((lo, hi, m))
        act = []
        for (key, kind, c, line) in w.snap_effects:
            if kind == "range":
                pres, absn = c
                if [k for k, _ in pres] != ["inc"] or [k for k, _ in absn] != ["set_absent"] or pres[0][1] != absn[0][1]:
                    self.add("C04.counters", "%s:%s:%s:inconsistent-update" % (mode, case, ek),
                             "counter loop raises present counters by %s but initialises absent ones with %s" % (
                                 pres, absn), wit, line)
                    return
                act.append((key.lo, key.hi, pres[0][1]))
            elif kind in ("inc", "set_absent"):
                act.append((key, Int(key.base, key.k + 1), c))
            elif kind == "set_present":
                self.add("C04.counters", "%s:%s:%s:overwrite" % (mode, case, ek),
                         "an existing snapshot counter is overwritten with %s" % c, wit, line)
                return
        pts = []
        for (l, h, c) in exp + act:
            for x in (l, h):
                if not any(self._teq(ot, w, x, y) for y in pts):
                    pts.append(x)
        import functools
        def cmpf(x, y):
            if self._teq(ot, w, x, y):
                return 0
            return -1 if ot.cmp_terms(x.term(), y.term(), "<") else 1
        pts.sort(key=functools.cmp_to_key(cmpf))
        bad = None
        for i in range(len(pts) - 1):
            seg_lo = pts[i]
            def cover(lst):
                tot = 0
                for (l, h, c) in lst:
                    if ot.cmp_terms(l.term(), seg_lo.term(), "<=") and ot.cmp_terms(seg_lo.term(), h.term(), "<"):
                        tot += c
                return tot
            ea, aa = cover(exp), cover(act)
            if not cfg["removal"]:
                # C08: only the *ids* are specified: the key s must be written, nothing else
                ea, aa = (1 if ea else 0), (1 if aa else 0)
            if ea != aa:
                bad = (seg_lo, pts[i + 1], ea, aa)
                break
        if bad:
            clause = "C04.counters" if cfg["removal"] else "C08.ids"
            self.add(clause, "%s:%s:%s:%s" % (mode, case, ek, "over" if bad[3] > bad[2] else "under"),
                     "snapshot counters on [%r, %r) rise by %s, expected %s (the reader divides by %s; only "
                     "newly present instants count)" % (bad[0], bad[1], bad[3], bad[2], m), wit)


def _fmt_tl(items):
    return "[" + ", ".join("[%r, %r]" % (a, b) for a, b in items) + "]"


def _pre(cfg):
    if not cfg["exists"]:
        return "new"
    return "closed" if cfg.get("closed") else "unclosed"


def _role(inst, cfg, ot, w):
    """Name an instant by its role relative to the runs (stable under renaming)."""
    names = [("s", Int("s"))]
    if cfg["has_e"]:
        names.append(("e", Int("E")))
    if cfg["exists"]:
        names += [("a", Int("a")), ("b+1", Int("b", 1)), ("a+1", Int("a", 1))]
    names.append(("s+1", Int("s", 1)))
    out = []
    for n, t in names:
        try:
            r = w.cmp_special(inst, t, "==")
            if r is None:
                r = ot.cmp_terms(inst.term(), t.term(), "==")
            if r:
                out.append(n)
        except Exception:
            pass
    return "=".join(out) if out else repr(inst)
