"""C20 on bounded symbolic graphs: delta_conformity and sliding_delta_conformity interpreted end to end.

The dynamic graph is a 3-node symbolic DynGraph (two stored pairs, snapshot ids 1, 2, 4 - concrete, because the code
uses hop counts where it means instants - presence of every pair at every id enumerated); node labels are opaque values
compared by identity only.  ``dg.time_slice(a, b)`` is not interpreted again (C06 decides it): it yields a *view* of the
same graph whose presence relation is cut to [a, b].  Everything else - all_time_respecting_paths, annotate_paths, the
distance remapping, the label frequencies, the damped accumulation and the normalisation - is interpreted, with ordinary
float arithmetic on the concrete distances.  Judged against the clauses of the statement:

  skeleton    None iff the window holds no snapshot; otherwise one entry per alpha ('%.2f') and label profile, scores
              for exactly the nodes present at start;
  range       every score lies in [-1, 1];
  renaming    renaming the label values leaves every score unchanged;
  uniform     when all nodes share one label the score is 1 for a node that reaches another node and 0 otherwise;
  sliding     sliding_delta_conformity lists, for every id t with t + delta before the last id and a non-empty window,
              exactly (t + delta, delta_conformity(G, t, delta, ...)[alpha][profile][n]).
"""
from __future__ import annotations
import itertools
from .core import Repo, Report, CLASSES, DYNGRAPH, AnalysisError
from .ordertype import OrderType
from .absint import (Interp, Int, Const, NONE, TRUE, FALSE, NodeV, SelfV, TupleV, ListObj, DictObj, SetObj, IterV, AbstractRaise,
                     Unsupported, Opaque, BoundMethod, Builtin, TypeV, SentinelV, PyFunc, FUNCTION_INDEX, run_all_choices)
from .query_check import Shape, to_py
from .dag_interp import DagLoopWorld, T, IDS

ASSORT = "dynetx/algorithms/assortativity.py"
PATHS_REL = "dynetx/algorithms/paths.py"


class SliceV(SelfV):
    """dg.time_slice(lo, hi): the same graph with its presence relation cut to [lo, hi] (C06)."""

    def __init__(self, lo, hi):
        self.lo, self.hi = lo, hi

    def __repr__(self):
        return "slice[t%+d, t%+d]" % (self.lo, self.hi)


class ConfWorld(DagLoopWorld):
    def __init__(self, cls, shape, choices, methods, functions, labels):
        super().__init__(cls, shape, choices, methods, functions, 3, True)
        self.labels = labels            # node -> SentinelV
        self.current_rel = ASSORT
        self.conf_calls = None          # when a list: delta_conformity is recorded instead of followed

    # -- which graph is being asked ------------------------------------------------------
    @staticmethod
    def _k(t):
        if isinstance(t, Int) and t.base == "t":
            return t.k
        if isinstance(t, Const) and isinstance(t.v, int) and not isinstance(t.v, bool):
            return t.v
        return None

    def in_window(self, g, k):
        return not isinstance(g, SliceV) or g.lo <= k <= g.hi

    def present_in(self, g, u, v, t):
        k = self._k(t)
        key = self.shape.key(u, v)
        if key not in self.dicts:
            return None
        if k is None:
            raise Unsupported(None, "presence asked at %r" % (t,))
        if k not in IDS or not self.in_window(g, k):
            return False
        return bool(self.choose(("present", key, repr(T(k)))))

    def pair_alive(self, g, key):
        return any(self.in_window(g, k) and self.choices.get(("present", key, repr(T(k)))) for k in IDS)

    def nodes_of(self, g):
        return [n for n in self.shape.nodes if any(n in key and self.pair_alive(g, key) for key in self.dicts)] \
            if isinstance(g, SliceV) else list(self.shape.nodes)

    def ids_of(self, g):
        return [T(k) for k in IDS if self.in_window(g, k) and any(self.choices.get(("present", key, repr(T(k)))) for key in self.dicts)]

    # -- hooks ---------------------------------------------------------------------------
    def resolve_name(self, ip, name, node):
        if name == "dn":
            return Opaque("module:dynetx")
        if name == "delta_conformity" and self.conf_calls is not None:
            return Opaque("recorded:delta_conformity")
        if name in ("combinations",):
            return Opaque("module:itertools.combinations")
        return super().resolve_name(ip, name, node)

    def concretise_iter(self, ip, it, node):
        if isinstance(it, SelfV):
            return ListObj([NodeV(n) for n in self.nodes_of(it)])
        return super().concretise_iter(ip, it, node)

    def load_attr(self, ip, obj, attr, node):
        if isinstance(obj, SelfV) and attr == "_node":
            return DictObj({NodeV(n): DictObj({Const("label"): self.labels[n]}) for n in self.nodes_of(obj)})
        if isinstance(obj, SliceV):
            if attr in ("_adj", "adj"):
                rows = DictObj(persistent=True, tag="adj(slice)")
                for n in self.nodes_of(obj):
                    row = self.adj.entries[NodeV(n)]
                    rows.entries[NodeV(n)] = DictObj({m: DictObj({Const("t"): Opaque("timeline inside the slice")}, persistent=True, tag="datadict(slice)")
                                                      for m, d in row.entries.items() if self.pair_alive(obj, self.shape.key(n, m.role))},
                                                     persistent=True, tag="adj(slice)[%s]" % n)
                return rows
            if attr in ("edge_removal",):
                return Const(True)
            if attr in ("snapshots", "time_to_edge", "_succ", "_pred"):
                raise Unsupported(node, "%s of a slice" % attr)
            return BoundMethod(obj, attr)
        return super().load_attr(ip, obj, attr, node)

    def contains(self, ip, container, x, node):
        if isinstance(container, SelfV) and isinstance(x, NodeV):
            return x.role in self.nodes_of(container)
        return super().contains(ip, container, x, node)

    def type_of(self, ip, v):
        if isinstance(v, SentinelV):
            return TypeV("str")
        return super().type_of(ip, v)

    def call(self, ip, f, args, kwargs, node):
        if isinstance(f, Opaque):
            if f.tag in ("module:tqdm.tqdm", "module:tqdm", "module:tqdm.tqdm.tqdm") and len(args) == 1 and set(kwargs) <= {"disable", "desc", "total"}:
                return args[0]
            if f.tag.startswith("module:dynetx.") and f.tag.split(".", 1)[1] in FUNCTION_INDEX:
                name = f.tag.split(".", 1)[1]
                cands = [c for c in FUNCTION_INDEX[name] if c[0].endswith("classes/function.py")]
                if len(cands) == 1:
                    return ip.apply_value(PyFunc(cands[0][1], cands[0][0]), list(args), node) if not kwargs else None
        if isinstance(f, Opaque) and f.tag == "recorded:delta_conformity":
            from .world_graph import bind_args
            env = bind_args(self.functions["delta_conformity"], list(args), kwargs, ip, node)
            self.conf_calls.append(env)
            return self.conf_results(env)
        return super().call(ip, f, args, kwargs, node)

    def call_method(self, ip, obj, name, args, kwargs, node):
        if isinstance(obj, SelfV):
            if name == "time_slice":
                from .world_graph import bind_args
                env = bind_args(self.methods["time_slice"], [obj] + list(args), kwargs, ip, node)
                lo, hi = self._k(env["t_from"]), self._k(env["t_to"])
                if isinstance(env["t_to"], Const) and env["t_to"].v is None:
                    hi = lo
                if lo is None or hi is None:
                    raise Unsupported(node, "time_slice(%r, %r)" % (env["t_from"], env["t_to"]))
                if hi < lo:
                    raise AbstractRaise("ValueError", node, explicit=True, detail="time_slice: t_to < t_from")
                if isinstance(obj, SliceV):
                    lo, hi = max(lo, obj.lo), min(hi, obj.hi)
                return SliceV(lo, hi)
            if name == "__presence_test" and len(args) == 3 and all(isinstance(a, NodeV) for a in args[:2]):
                r = self.present_in(obj, args[0].role, args[1].role, args[2])
                if r is None:
                    raise AbstractRaise("KeyError", node, detail="presence test on a pair without adjacency entry")
                return Const(r)
            if name == "temporal_snapshots_ids" and not args:
                return ListObj(self.ids_of(obj))
            if name == "nbunch_iter":
                nb = args[0] if args else kwargs.get("nbunch", NONE)
                if isinstance(nb, Const) and nb.v is None:
                    return IterV([NodeV(n) for n in self.nodes_of(obj)])
                if isinstance(nb, NodeV):
                    if nb.role in self.nodes_of(obj):
                        return IterV([nb])
                    raise AbstractRaise("NetworkXError", node, detail="nbunch is a node that is not in the graph")
            if name in self.methods and name not in ("time_slice",):
                fn = self.methods[name]
                from .world_graph import self_args
                return self._call_fn(ip, fn, ([obj] if self_args(fn) else []) + list(args), kwargs, node)
        return super().call_method(ip, obj, name, args, kwargs, node)

    def load_subscript(self, ip, obj, key, node):
        if isinstance(obj, SelfV) and isinstance(key, NodeV):
            if key.role not in self.nodes_of(obj):
                raise AbstractRaise("KeyError", node)
            row = self.adj.entries.get(key)
            return DictObj({m: d for m, d in row.entries.items() if self.pair_alive(obj, self.shape.key(key.role, m.role))})
        return super().load_subscript(ip, obj, key, node)

    # recorded results of delta_conformity (sliding check)
    def conf_results(self, env):
        t = self._k(env["start"])
        if self.choose(("conformity-is-None", t)):
            return NONE
        out = DictObj()
        for a in ("1.00", "2.50"):
            out.entries[Const(a)] = DictObj({Const("label"): DictObj({NodeV(n): Opaque("score(%s,%s,t%+d)" % (a, n, t)) for n in ("A", "B")})})
        return out


CONF_SHAPE = Shape("A-B, B-C", ["A", "B", "C"], [("A", "B"), ("B", "C")], False)
STAR_TAIL = Shape("star with a tail A-B, A-C, C-D", ["A", "B", "C", "D"], [("A", "B"), ("A", "C"), ("C", "D")], False)
TRIANGLE = Shape("triangle A-B-C", ["A", "B", "C"], [("A", "B"), ("B", "C"), ("A", "C")], False)
PARTITIONS = {"uniform": ("x", "x", "x", "x"), "A|BC": ("x", "y", "y", "x"), "AB|C": ("x", "x", "y", "y"), "AC|B": ("x", "y", "x", "y"),
              "A|B|C": ("x", "y", "z", "x")}


def _seeds(shape, patterns=None):
    keys = sorted({shape.key(*e) for e in shape.edges}, key=str)
    if patterns is None:
        for vals in itertools.product((False, True), repeat=len(keys) * len(IDS)):
            it = iter(vals)
            yield {("present", k, repr(T(o))): next(it) for k in keys for o in IDS}
    else:
        for combo in itertools.product(patterns, repeat=len(keys)):
            yield {("present", k, repr(T(o))): (o in on) for k, on in zip(keys, combo) for o in IDS}


def _scores(val):
    """{alpha: {profile: {node: float}}} or None / 'bad'"""
    if isinstance(val, Const) and val.v is None:
        return None
    if not isinstance(val, DictObj):
        return "bad"
    out = {}
    for a, d in val.entries.items():
        if not (isinstance(a, Const) and isinstance(d, DictObj)):
            return "bad"
        out[a.v] = {}
        for p, nd in d.entries.items():
            if not (isinstance(p, Const) and isinstance(nd, DictObj)):
                return "bad"
            out[a.v][p.v] = {}
            for n, s in nd.entries.items():
                if not (isinstance(n, NodeV) and isinstance(s, Const) and isinstance(s.v, (int, float))):
                    return "bad"
                out[a.v][p.v][n.role] = float(s.v)
    return out


def check_conformity(repo: Repo, rep: Report, tier="quick"):
    cls = "DynGraph"
    methods = repo.class_methods(DYNGRAPH, cls)
    functions = dict(repo.functions(PATHS_REL))
    afun = repo.functions(ASSORT)
    for name in ("delta_conformity", "sliding_delta_conformity"):
        if name not in afun:
            raise AnalysisError("anchor vanished: %s" % name)
    functions.update(afun)
    fn = afun["delta_conformity"]
    construct = repo.construct(ASSORT, "delta_conformity")
    params = [a.arg for a in fn.args.args]
    for need in ("dg", "start", "delta", "alphas", "labels", "path_type"):
        if need not in params:
            raise AnalysisError("delta_conformity: unexpected signature %s" % params)
    ot = OrderType([["0", "t"]], [], 16)
    alphas = [1.0, 2.5]
    stats = dict(runs=0, scores=0, none=0)
    findings = {}

    def add(c, key, msg, wit, line=0):
        if (c, key) not in findings:
            findings[(c, key)] = dict(message=msg, witness=wit, line=line, count=0)
        findings[(c, key)]["count"] += 1

    ot_first_id_zero = OrderType([["t"], ["0"]], [1], 16)        # t + 1 == 0: the first snapshot id is the literal 0

    def run(shape, seed, part, start, delta, path_type, rename=False, alphas=alphas, ot=ot):
        vals = PARTITIONS[part]
        names = {"x": "x", "y": "y", "z": "z"} if not rename else {"x": "y", "y": "z", "z": "x"}
        sent = {v: SentinelV("label:" + names[v]) for v in set(vals)}
        if rename:
            sent["x"].falsy = True          # renaming may also pick a falsy value (0, '' are legal labels)
        labels = {n: sent[v] for n, v in zip(shape.nodes, vals)}

        def once(ch):
            w = ConfWorld(cls, shape, ch, methods, functions, labels)
            ip = Interp(w, ot, max_depth=14)
            env = {}
            defaults = dict(zip(params[len(params) - len(fn.args.defaults):], fn.args.defaults))
            given = {"dg": SelfV(), "start": T(start), "delta": Const(delta), "alphas": ListObj([Const(a) for a in alphas]),
                     "labels": ListObj([Const("label")]), "path_type": Const(path_type)}
            for p in params:
                if p in given:
                    env[p] = given[p]
                elif p in defaults:
                    env[p] = ip.eval(defaults[p], {})
                else:
                    raise AnalysisError("delta_conformity: parameter %s not modelled" % p)
            try:
                return w, ip.call_function(fn, env), None
            except AbstractRaise as r:
                return w, None, r
        res = run_all_choices(once, max_runs=8, seed=seed)
        if len(res) != 1:
            raise Unsupported(None, "delta_conformity depends on facts outside the valuation: %s" % [sorted(c, key=str)[-1] for c, _ in res][:2])
        return res[0][1]

    shapes = [(CONF_SHAPE, None), (STAR_TAIL, [(1,), (2,), (1, 2)] if tier == "quick" else [(), (1,), (2,), (1, 2), (2, 4)])] + (
        [(TRIANGLE, [(), (1,), (2, 4), (1, 2, 4)])] if tier != "quick" else [])
    path_types = ("shortest",) if tier == "quick" else ("shortest", "fastest", "foremost", "fastest_shortest", "shortest_fastest")
    for shape, patterns in shapes:
        keys = sorted({shape.key(*e) for e in shape.edges}, key=str)
        for seed in _seeds(shape, patterns):
            pres = ", ".join("%s-%s@t%+d" % (k[0], k[1], o) for k in keys for o in IDS if seed[("present", k, repr(T(o)))]) or "nothing"
            for (start, delta) in ((1, 1), (1, 3), (2, 2)):
                window = [o for o in IDS if start <= o <= start + delta]
                inhabited = [o for o in window if any(seed[("present", k, repr(T(o)))] for k in keys)]
                at_start = sorted({n for k in keys if seed.get(("present", k, repr(T(start)))) for n in k})
                for path_type in path_types:
                    base = None
                    for part in (("uniform", "A|BC") if tier == "quick" else tuple(PARTITIONS)):
                        wit = "%s | present: %s | start=t%+d, delta=%d, path_type=%s, labels %s" % (shape.name, pres, start, delta, path_type, part)
                        stats["runs"] += 1
                        w, val, r = run(shape, seed, part, start, delta, path_type)
                        if r is not None:
                            add(construct, "raises:%s" % r.exc, "delta_conformity raises %s (%s)" % (r.exc, r.detail), wit, getattr(r.node, "lineno", 0))
                            continue
                        sc = _scores(val)
                        if sc == "bad":
                            add(construct, "skeleton:shape", "delta_conformity returns %s" % (to_py(val),), wit)
                            continue
                        if sc is None:
                            stats["none"] += 1
                            if inhabited:
                                add(construct, "skeleton:none-for-inhabited-window", "None is returned although the window holds the snapshot(s) %s" % (
                                    ["t%+d" % o for o in inhabited],), wit)
                            continue
                        stats["scores"] += 1
                        if not inhabited:
                            add(construct, "skeleton:scores-for-empty-window", "scores are returned for a window without snapshots", wit)
                            continue
                        if sorted(sc) != sorted("%.2f" % a for a in alphas) or any(sorted(d) != ["label"] for d in sc.values()):
                            add(construct, "skeleton:keys", "the result is keyed %s / %s, expected one entry per alpha ('%%.2f') and label profile" % (
                                sorted(sc), sorted({p for d in sc.values() for p in d})), wit)
                            continue
                        for a, d in sc.items():
                            nodes = sorted(d["label"])
                            if nodes != at_start:
                                add(construct, "skeleton:nodes", "scores are given for the nodes %s; the nodes present at start are %s" % (nodes, at_start), wit)
                            for n, s in d["label"].items():
                                if not (-1 - 1e-9 <= s <= 1 + 1e-9):
                                    add(construct, "range", "the score of %s for alpha=%s is %r, outside [-1, 1]" % (n, a, s), wit)
                        if part == "uniform":
                            # who reaches whom inside the window: a node with a present interaction at some instant of the window at
                            # which it can start, i.e. present at start (paths start at any instant >= start where the node is active)
                            for a, d in sc.items():
                                for n, s in d["label"].items():
                                    reaches = any(seed[("present", k, repr(T(o)))] for k in keys if n in k for o in window)
                                    want = 1.0 if reaches else 0.0
                                    if abs(s - want) > 1e-9:
                                        add(construct, "uniform-labels", "all nodes share one label: %s %s another node inside the window but its score for "
                                            "alpha=%s is %r (expected %s)" % (n, "reaches" if reaches else "reaches no", a, s, want), wit)
                        # renaming the label values (quick tier: on the widest window only)
                        if tier == "quick" and (start, delta) != (1, 3):
                            continue
                        w2, val2, r2 = run(shape, seed, part, start, delta, path_type, rename=True)
                        sc2 = _scores(val2) if r2 is None else "raised"
                        if sc2 != sc:
                            add(construct, "label-renaming", "renaming the label values changes the result from %s to %s" % (sc, sc2), wit)
    # the same windows with the first snapshot id being the literal 0 (an instant handed on where a number is expected, or tested
    # for truth, shows only there): uniform labels, every score 1 / 0 as above
    n_zero = 0
    shape = CONF_SHAPE
    keys = sorted({shape.key(*e) for e in shape.edges}, key=str)
    for seed in list(_seeds(shape, None))[:: (5 if tier == "quick" else 3)]:
        pres = ", ".join("%s-%s@t%+d" % (k[0], k[1], o) for k in keys for o in IDS if seed[("present", k, repr(T(o)))]) or "nothing"
        for (start, delta) in ((1, 1), (1, 3)):
            window = [o for o in IDS if start <= o <= start + delta]
            if not any(seed[("present", k, repr(T(o)))] for k in keys for o in window):
                continue
            wit = "%s | present: %s | start=t%+d = 0, delta=%d, uniform labels" % (shape.name, pres, start, delta)
            n_zero += 1
            w, val, r = run(shape, seed, "uniform", start, delta, "shortest", ot=ot_first_id_zero)
            if r is not None:
                add(construct, "raises:%s" % r.exc, "delta_conformity raises %s (%s)" % (r.exc, r.detail), wit, getattr(r.node, "lineno", 0))
                continue
            sc = _scores(val)
            if sc is None or sc == "bad":
                add(construct, "skeleton:first-id-zero", "delta_conformity returns %s for a window that starts at the snapshot id 0 and holds "
                    "interactions" % (to_py(val),), wit)
                continue
            for a, d in sc.items():
                for n, s_ in d.get("label", {}).items():
                    reaches = any(seed[("present", k, repr(T(o)))] for k in keys if n in k for o in window)
                    if abs(s_ - (1.0 if reaches else 0.0)) > 1e-9:
                        add(construct, "uniform-labels:first-id-zero", "all nodes share one label and the window starts at the snapshot id 0: %s %s "
                            "another node but its score for alpha=%s is %r" % (n, "reaches" if reaches else "reaches no", a, s_), wit)
    stats["runs"] += n_zero
    # damping factors that share their '%.2f' key (and a plain duplicate): still one entry per key, scores in range
    n_dup = 0
    for dup in ([1.0, 1.001], [2.5, 2.5]):
        shape = CONF_SHAPE
        keys = sorted({shape.key(*e) for e in shape.edges}, key=str)
        for seed in list(_seeds(shape, None))[:: (7 if tier == "quick" else 3)]:
            pres = ", ".join("%s-%s@t%+d" % (k[0], k[1], o) for k in keys for o in IDS if seed[("present", k, repr(T(o)))]) or "nothing"
            wit = "%s | present: %s | start=t+1, delta=3, alphas=%s, uniform labels" % (shape.name, pres, dup)
            n_dup += 1
            w, val, r = run(shape, seed, "uniform", 1, 3, "shortest", alphas=dup)
            if r is not None:
                add(construct, "raises:%s" % r.exc, "delta_conformity raises %s (%s)" % (r.exc, r.detail), wit, getattr(r.node, "lineno", 0))
                continue
            sc = _scores(val)
            if sc is None or sc == "bad":
                continue
            if sorted(sc) != sorted({"%.2f" % a for a in dup}):
                add(construct, "skeleton:keys", "the result is keyed %s, expected one entry per distinct '%%.2f' key of %s" % (sorted(sc), dup), wit)
                continue
            for a, d in sc.items():
                for n, s_ in d.get("label", {}).items():
                    if not (-1 - 1e-9 <= s_ <= 1 + 1e-9):
                        add(construct, "range:alphas-sharing-a-key", "alphas %s share the key %r: the score of %s is %r, outside [-1, 1]" % (
                            dup, a, n, s_), wit)
    stats["runs"] += n_dup
    for (c, key), f in sorted(findings.items()):
        rep.finding("Q.conformity", c, key, f["message"] + " [%d cases]" % f["count"], witness=f["witness"], line=f["line"])
    rep.ob("Q.conformity", construct, "skeleton / range / uniform labels / label renaming on %d interpreted calls (%d with scores, %d None)" % (
        stats["runs"], stats["scores"], stats["none"]), ok=not findings)
    rep.stats["abstract_runs"] = rep.stats.get("abstract_runs", 0) + 2 * stats["runs"]
    n_slide = check_sliding(repo, rep, methods, functions, ot)
    return stats["runs"] + n_slide


def check_sliding(repo, rep, methods, functions, ot):
    """sliding_delta_conformity with delta_conformity recorded (its results are opaque scores or None - a choice)."""
    cls = "DynGraph"
    fn = functions["sliding_delta_conformity"]
    construct = repo.construct(ASSORT, "sliding_delta_conformity")
    params = [a.arg for a in fn.args.args]
    n = 0
    findings = {}
    for seed in _seeds(CONF_SHAPE, [(), (1,), (2, 4), (1, 2, 4), (1, 2)]):
        keys = sorted({CONF_SHAPE.key(*e) for e in CONF_SHAPE.edges}, key=str)
        ids = [o for o in IDS if any(seed[("present", k, repr(T(o)))] for k in keys)]
        for delta in (1, 2, 3):
            n += 1
            labels = {nd: SentinelV("label:x") for nd in CONF_SHAPE.nodes}

            def once(ch):
                w = ConfWorld(cls, CONF_SHAPE, ch, methods, functions, labels)
                w.conf_calls = []
                ip = Interp(w, ot, max_depth=14)
                defaults = dict(zip(params[len(params) - len(fn.args.defaults):], fn.args.defaults))
                given = {"dg": SelfV(), "delta": Const(delta), "alphas": ListObj([Const(1.0), Const(2.5)]), "labels": ListObj([Const("label")]),
                         "path_type": Const("fastest"), "sample": Const(0.5), "profile_size": Const(1), "hierarchies": Opaque("hierarchies")}
                env = {}
                for p in params:
                    env[p] = given[p] if p in given else (ip.eval(defaults[p], {}) if p in defaults else None)
                    if env[p] is None:
                        raise AnalysisError("sliding_delta_conformity: parameter %s not modelled" % p)
                try:
                    return w, ip.call_function(fn, env), None
                except AbstractRaise as r:
                    return w, None, r
            for ch, (w, val, r) in run_all_choices(once, max_runs=64, seed=seed):
                wit = "snapshot ids %s, delta=%d | %s" % (["t%+d" % o for o in ids], delta, {k[1]: v for k, v in ch.items() if isinstance(k, tuple) and k[0] == "conformity-is-None"})
                if r is not None:
                    findings.setdefault("raises:%s" % r.exc, ("sliding_delta_conformity raises %s (%s)" % (r.exc, r.detail), wit, getattr(r.node, "lineno", 0)))
                    continue
                want_t = [o for o in ids if ids and o + delta < ids[-1]]
                got_t = [w._k(c["start"]) for c in w.conf_calls]
                if got_t != want_t:
                    findings.setdefault("windows", ("delta_conformity is evaluated at the starts %s; the ids t with t + delta before the last id are %s" % (
                        ["t%+d" % o for o in got_t], ["t%+d" % o for o in want_t]), wit, fn.lineno))
                    continue
                bad = None
                for c in w.conf_calls:
                    fwd = {"dg": SelfV, "delta": Const(delta), "path_type": Const("fastest"), "sample": Const(0.5), "profile_size": Const(1)}
                    for p, v in fwd.items():
                        x = c.get(p)
                        if p == "dg":
                            if not isinstance(x, SelfV) or isinstance(x, SliceV):
                                bad = "the graph"
                        elif x != v:
                            bad = p
                    if not (isinstance(c.get("hierarchies"), Opaque)):
                        bad = "hierarchies"
                if bad:
                    findings.setdefault("forwarding:%s" % bad, ("delta_conformity is not called with the caller's %s" % bad, wit, fn.lineno))
                    continue
                # expected sequences
                want = {}
                for o in want_t:
                    if ch.get(("conformity-is-None", o)):
                        continue
                    for a in ("1.00", "2.50"):
                        for nd in ("A", "B"):
                            want.setdefault((a, "label", nd), []).append(("t%+d" % (o + delta), "score(%s,%s,t%+d)" % (a, nd, o)))
                got = {}
                ok = isinstance(val, DictObj)
                if ok:
                    for a, d in val.entries.items():
                        for p, nd in (d.entries.items() if isinstance(d, DictObj) else []):
                            for node_, seq in (nd.entries.items() if isinstance(nd, DictObj) else []):
                                items = seq.items if isinstance(seq, ListObj) else []
                                got[(to_py(a), to_py(p), to_py(node_))] = [
                                    ("t%+d" % w._k(x.items[0]) if isinstance(x, TupleV) and w._k(x.items[0]) is not None else repr(x),
                                     x.items[1].tag if isinstance(x, TupleV) and isinstance(x.items[1], Opaque) else repr(x)) for x in items]
                if got != want:
                    findings.setdefault("trend", ("the trend is %s; expected (t + delta, score of the window starting at t) per evaluated window: %s" % (got, want), wit, fn.lineno))
    for key, (msg, wit, line) in sorted(findings.items()):
        rep.finding("Q.conformity", construct, key, msg, witness=wit, line=line)
    rep.ob("Q.conformity", construct, "sliding driver = per-window results stamped t + delta on %d (ids, delta) cases" % n, ok=not findings)
    return n
