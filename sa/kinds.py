"""K engine: kind & endpoint-convention typing (DESIGN.md 3.1).

Every stored interval is *closed* ``[start, end]``; the fourth argument of
add_interaction and the stop of a ``range`` are *exclusive*.  Off-by-one defects are
convention errors: a closed end used where an exclusive end is expected.  This
module infers, per function and in statement order, a *kind* for names and
expressions from a small table of trusted sources and checks every *sink*.

kinds:  node graph timeline interval start cend oend point etime shifted len0 length
        datadict triple triples event events ids range   (None = unknown, never an alarm)
"""
from __future__ import annotations
import ast
from .core import Repo, Report, CLASSES, src, walk_no_nested, const_value, AnalysisError

INSTANT = {"start", "cend", "point", "etime"}          # a single inhabited instant
PARAM_KINDS = {
    "*": {"u": "node", "v": "node", "n": "node", "node": "node", "G": "graph", "g": "graph", "graph": "graph",
          "dg": "graph", "H": "graph", "self": "graph", "t": "point", "e": "oend", "t_from": "start",
          "t_to": "cend"},
    "temporal_dag": {"start": "start", "end": "cend", "u": "node", "v": "node"},
    "time_respecting_paths": {"start": "start", "end": "cend"},
    "all_time_respecting_paths": {"start": "start", "end": "cend", "min_t": "point"},
    "delta_conformity": {"start": "start"},
    # inter-event helpers use e as a scratch difference, not a vanishing time
    "inter_event_time_distribution": {"e": None}, "inter_in_event_time_distribution": {"e": None},
    "inter_out_event_time_distribution": {"e": None},
    "stream_interactions": {"e": None, "t": None},
    "generate_interactions": {"e": None}, "generate_snapshots": {"e": None},
    "annotate_paths": {}, "path_duration": {}, "path_length": {},
}
# names seeded when assigned from a column pop / conversion in the parsers (file-format facts)
POP_SEEDS = {
    ("parse_snapshots", "u"): "node", ("parse_snapshots", "v"): "node", ("parse_snapshots", "t"): "point",
    ("parse_snapshots", "e"): "oend",
    ("parse_interactions", "u"): "node", ("parse_interactions", "v"): "node", ("parse_interactions", "s"): "etime",
}
TRIPLE_CALLS = {"interactions_iter", "interactions", "in_interactions", "out_interactions", "in_interactions_iter",
                "out_interactions_iter"}


class Sink:
    def __init__(self, kind, construct, node, detail, typed, ok, key, msg):
        self.kind, self.construct, self.node, self.detail = kind, construct, node, detail
        self.typed, self.ok, self.key, self.msg = typed, ok, key, msg


class KindInfer:
    def __init__(self, repo: Repo, rel, qual, fn: ast.FunctionDef, in_merge_region=False):
        self.repo, self.rel, self.qual, self.fn = repo, rel, qual, fn
        self.name = qual.split(".")[-1]
        self.construct = repo.construct(rel, qual)
        self.env = {}
        self.sinks = []
        self.in_merge = in_merge_region
        table = dict(PARAM_KINDS["*"])
        table.update(PARAM_KINDS.get(self.name, {}))
        self.declared = {}
        for a in fn.args.args + fn.args.kwonlyargs:
            k = table.get(a.arg)
            if k:
                self.env[a.arg] = k
                self.declared[a.arg] = k
        self.block(fn.body)

    # -- statements --------------------------------------------------------
    def block(self, body):
        for st in body:
            self.stmt(st)

    def stmt(self, st):
        if isinstance(st, ast.Assign):
            k = self.kind(st.value)
            self._len0_sink(st.value, k, st)
            for t in st.targets:
                self.bind(t, k, st.value)
        elif isinstance(st, ast.AugAssign):
            k = self.kind(st.value)
            self._len0_sink(st.value, k, st)
        elif isinstance(st, ast.For):
            ik = self.kind(st.iter)
            self.bind_iter(st.target, ik, st.iter)
            self.block(st.body)
            self.block(st.orelse)
        elif isinstance(st, ast.While):
            self.kind(st.test)
            self.block(st.body)
            self.block(st.orelse)
        elif isinstance(st, ast.If):
            self.kind(st.test)
            self.block(st.body)
            self.block(st.orelse)
        elif isinstance(st, ast.Try):
            self.block(st.body)
            for h in st.handlers:
                self.block(h.body)
            self.block(st.orelse)
            self.block(st.finalbody)
        elif isinstance(st, ast.With):
            for it in st.items:
                self.kind(it.context_expr)
            self.block(st.body)
        elif isinstance(st, ast.Return):
            if st.value is not None:
                k = self.kind(st.value)
                self._len0_sink(st.value, k, st)
        elif isinstance(st, ast.Expr):
            self.kind(st.value)
        elif isinstance(st, (ast.FunctionDef, ast.ClassDef)):
            return
        else:
            for ch in ast.iter_child_nodes(st):
                if isinstance(ch, ast.expr):
                    self.kind(ch)

    def bind(self, tgt, k, value=None):
        if isinstance(tgt, ast.Name):
            if k is None and value is not None and _has_pop_or_conv(value, tgt.id):
                k = POP_SEEDS.get((self.name, tgt.id), self.env.get(tgt.id) if _is_conv_of(value, tgt.id) else None)
            if k is None and isinstance(value, ast.Constant) and value.value is None:
                self.env[tgt.id] = self.env.get(tgt.id) if (self.name, tgt.id) in POP_SEEDS else None
                return
            if tgt.id in self.declared and self.declared[tgt.id] in INSTANT and k in INSTANT:
                # a parameter defaulted from another instant keeps its declared role
                # (t_to = t_from: the inclusive end of the one-instant window [t_from, t_from])
                k = self.declared[tgt.id]
            self.env[tgt.id] = k
        elif isinstance(tgt, (ast.Tuple, ast.List)):
            if isinstance(value, (ast.Tuple, ast.List)) and len(value.elts) == len(tgt.elts):
                for t, v in zip(tgt.elts, value.elts):
                    self.bind(t, self.kind(v), v)
            elif k == "interval" and len(tgt.elts) == 2:
                self.bind(tgt.elts[0], "start")
                self.bind(tgt.elts[1], "cend")
            elif k == "triple" and len(tgt.elts) == 3:
                self.bind(tgt.elts[0], "node")
                self.bind(tgt.elts[1], "node")
                self.bind(tgt.elts[2], "datadict")
            elif k == "event" and len(tgt.elts) == 4:
                for t, kk in zip(tgt.elts, ("node", "node", "op", "point")):
                    self.bind(t, kk)
            else:
                for t in tgt.elts:
                    self.bind(t, None)

    def bind_iter(self, tgt, ik, it):
        elem = {"timeline": "interval", "triples": "triple", "events": "event", "ids": "point", "range": "point"}.get(ik)
        self.bind(tgt, elem)

    # -- expressions ----------------------------------------------------------
    def kind(self, e):
        if e is None:
            return None
        m = getattr(self, "k_" + type(e).__name__, None)
        if m:
            return m(e)
        for ch in ast.iter_child_nodes(e):
            if isinstance(ch, ast.expr):
                self.kind(ch)
        return None

    def k_Name(self, e):
        return self.env.get(e.id)

    def k_Constant(self, e):
        return None

    def k_Attribute(self, e):
        self.kind(e.value)
        return None

    def k_Subscript(self, e):
        vk = self.kind(e.value)
        if isinstance(e.slice, ast.Slice):
            for x in (e.slice.lower, e.slice.upper, e.slice.step):
                self.kind(x)
            return vk if vk in ("timeline", "ids") else None
        sk = self.kind(e.slice)
        c = const_value(e.slice, "?")
        if c == "t":
            return "timeline"
        if c == "time":
            return "point"
        if c in ("source", "target"):
            return "node"
        if isinstance(e.value, ast.Name) and e.value.id == "keys":
            return sk           # rank map: the kind of the key is preserved
        if isinstance(c, int):
            if vk == "instlist":
                return "start" if c == 0 else ("cend" if c == -1 else "point")
            if vk == "instbag":
                return "unordered"
            if vk == "timeline":
                return "interval"
            if vk == "interval":
                return "start" if c == 0 else ("cend" if c in (1, -1) else None)
            if vk == "triple":
                return {0: "node", 1: "node", 2: "datadict"}.get(c)
            if vk == "event":
                return {0: "node", 1: "node", 2: "op", 3: "point", -1: "point"}.get(c)
            if vk == "ids":
                return "point"
        if vk == "ids":
            return "point"
        return None

    def k_BinOp(self, e):
        lk, rk = self.kind(e.left), self.kind(e.right)
        c = const_value(e.right)
        flip = False
        if c is None and isinstance(e.op, ast.Add):
            c2 = const_value(e.left)
            if c2 is not None:
                c, lk, flip = c2, rk, True
        if isinstance(e.op, (ast.Add, ast.Sub)) and isinstance(c, int) and not isinstance(c, bool):
            d = c if isinstance(e.op, ast.Add) else -c
            if lk in ("len0",) and d == 1:
                return "length"
            if lk is None:
                return None
            if d == 0:
                return lk
            if lk == "cend" and d == 1:
                return "oend"
            if lk == "point" and d == 1:
                return "oend"
            if lk == "oend" and d == -1:
                return "cend"
            if lk in INSTANT or lk in ("oend", "shifted"):
                return "shifted"
            return None
        if isinstance(e.op, (ast.BitAnd, ast.BitOr)) and lk in ("instset", "range") and rk in ("instset", "range"):
            return "instset"
        if isinstance(e.op, ast.Sub) and lk == "cend" and rk == "start":
            return "len0"
        if isinstance(e.op, ast.Add) and ((lk == "len0" and const_value(e.right) == 1) or (rk == "len0" and const_value(e.left) == 1)):
            return "length"
        return None

    def k_IfExp(self, e):
        self.kind(e.test)
        a, b = self.kind(e.body), self.kind(e.orelse)
        return a if a == b else (a or b)

    def k_BoolOp(self, e):
        ks = [self.kind(v) for v in e.values]
        return None

    def k_UnaryOp(self, e):
        self.kind(e.operand)
        return None

    def k_Compare(self, e):
        operands = [e.left] + list(e.comparators)
        ks = [self.kind(x) for x in operands]
        # membership tests by shape: chained comparisons lo <= x <= hi (two-operand comparisons are
        # mostly validations / disjointness tests, where a strict operator is legitimate)
        if not self.in_merge and len(e.ops) >= 2:
            for i, op in enumerate(e.ops):
                self._membership_sink(e, operands[i], ks[i], op, operands[i + 1], ks[i + 1])
        return None

    def k_Tuple(self, e):
        for x in e.elts:
            self.kind(x)
        return None

    def k_List(self, e):
        ks = [self.kind(x) for x in e.elts]
        if len(ks) == 2 and ks[0] in INSTANT and ks[1] in INSTANT:
            return "interval"
        return None

    def k_Dict(self, e):
        for x in list(e.keys) + list(e.values):
            self.kind(x)
        return None

    def k_Set(self, e):
        for x in e.elts:
            self.kind(x)
        return None

    def k_JoinedStr(self, e):
        return None

    def _comp(self, e, elts):
        saved = dict(self.env)
        for g in e.generators:
            self.bind_iter(g.target, self.kind(g.iter), g.iter)
            for c in g.ifs:
                self.kind(c)
        ks = [self.kind(x) for x in elts]
        self.env = saved
        return ks

    def k_ListComp(self, e):
        ks = self._comp(e, [e.elt])
        first_iter = self.kind(e.generators[0].iter)
        if first_iter == "ids" and ks[0] == "point":
            return "ids"
        return None

    k_GeneratorExp = k_ListComp

    def k_SetComp(self, e):
        self._comp(e, [e.elt])
        return None

    def k_DictComp(self, e):
        self._comp(e, [e.key, e.value])
        return None

    def k_Call(self, e):
        f = e.func
        argk = [self.kind(a) for a in e.args]
        kwk = {k.arg: self.kind(k.value) for k in e.keywords}
        fname = f.attr if isinstance(f, ast.Attribute) else (f.id if isinstance(f, ast.Name) else None)
        if isinstance(f, ast.Attribute):
            self.kind(f.value)
        if fname == "range" and isinstance(f, ast.Name):
            self._range_sink(e, argk)
            return "range"
        if fname in ("max", "min") and isinstance(f, ast.Name) and argk:
            ks = set(argk)
            if len(ks) == 1:
                k = argk[0]
                return "point" if k == "ids" else k
            if len(argk) == 2 and all(k in ("start", "point") for k in argk):
                return "start"
            if len(argk) == 2 and all(k in ("cend", "point") for k in argk):
                return "cend"
            return None
        if fname == "sorted" and isinstance(f, ast.Name) and argk and argk[0] in ("instset", "range", "instbag"):
            return "instlist" if not any(k.arg == "reverse" for k in e.keywords) else "instbag"
        if fname in ("list", "tuple") and isinstance(f, ast.Name) and argk and argk[0] == "instset":
            return "instbag"        # iteration order of a set of ints is arbitrary
        if fname in ("sorted", "list", "iter", "reversed") and isinstance(f, ast.Name) and argk:
            return argk[0]
        if fname in ("set", "frozenset") and isinstance(f, ast.Name) and argk and argk[0] in ("range", "instset"):
            return "instset"
        if isinstance(f, ast.Name) and f.id in ("timestamptype", "int", "float") and argk:
            return argk[0]
        if fname == "temporal_snapshots_ids":
            return "ids"
        if fname in TRIPLE_CALLS:
            return "triples"
        if fname == "stream_interactions":
            return "events"
        if fname == "add_interaction" and isinstance(f, ast.Attribute):
            self._add_interaction_sink(e, argk, kwk)
            return None
        if fname == "add_interactions_from" and isinstance(f, ast.Attribute):
            self._bulk_sink(e, argk, kwk)
            return None
        if fname == "time_slice" and isinstance(f, ast.Attribute):
            self._slice_sink(e, argk, kwk)
            return "graph"
        if fname == "keys" and isinstance(f, ast.Attribute):
            return None
        return None

    # -- sinks -------------------------------------------------------------------
    def _add(self, kind, node, typed, ok, key, msg, detail=None):
        self.sinks.append(Sink(kind, self.construct, node, detail, typed, ok, key, msg))

    def _arg(self, e, argk, kwk, pos, name):
        if name in kwk:
            node = next(k.value for k in e.keywords if k.arg == name)
            return node, kwk[name]
        if pos < len(e.args):
            return e.args[pos], argk[pos]
        return None, "absent"

    def _add_interaction_sink(self, e, argk, kwk):
        tn, tk = self._arg(e, argk, kwk, 2, "t")
        en, ek = self._arg(e, argk, kwk, 3, "e")
        txt = src(e)[:100]
        # t: an instant of presence
        if tk == "absent":
            self._add("add_interaction.t", e, False, True, "", "")
        elif tk is None:
            self._add("add_interaction.t", e, False, True, "", "")
        else:
            ok = tk in INSTANT
            self._add("add_interaction.t", e, True, ok, "t:%s" % tk,
                      "%s passes a %s as the appearance time t (an instant of presence is required%s)" % (
                          txt, KIND_WORDS.get(tk, tk), "; a stored [start, end] list would be shared, not copied" if tk in ("interval", "timeline") else ""))
        if ek in ("absent", None) or (en is not None and isinstance(en, ast.Constant) and en.value is None):
            self._add("add_interaction.e", e, False, True, "", "")
        else:
            ok = ek in ("oend", "etime")
            self._add("add_interaction.e", e, True, ok, "e:%s" % ek,
                      "%s passes a %s as the vanishing time e, which is exclusive: the interaction would %s" % (
                          txt, KIND_WORDS.get(ek, ek),
                          "lose its last instant (a one-instant interval becomes empty)" if ek in ("cend", "point", "start") else "get a wrong end"))

    def _bulk_sink(self, e, argk, kwk):
        tn, tk = self._arg(e, argk, kwk, 1, "t")
        if tk not in ("absent", None):
            self._add("add_interactions_from.t", e, True, tk in INSTANT, "t:%s" % tk,
                      "%s passes a %s as t" % (src(e)[:100], KIND_WORDS.get(tk, tk)))
        else:
            self._add("add_interactions_from.t", e, False, True, "", "")

    def _slice_sink(self, e, argk, kwk):
        an, ak = self._arg(e, argk, kwk, 0, "t_from")
        bn, bk = self._arg(e, argk, kwk, 1, "t_to")
        if ak not in ("absent", None):
            self._add("time_slice.t_from", e, True, ak in INSTANT, "t_from:%s" % ak,
                      "%s passes a %s as the inclusive window start" % (src(e)[:100], KIND_WORDS.get(ak, ak)))
        if bk not in ("absent", None) and not (isinstance(bn, ast.Constant) and bn.value is None):
            self._add("time_slice.t_to", e, True, bk in INSTANT, "t_to:%s" % bk,
                      "%s passes a %s as the inclusive window end" % (src(e)[:100], KIND_WORDS.get(bk, bk)))

    def _range_sink(self, e, argk):
        if len(argk) != 2:
            return
        lo, hi = argk
        if lo is None and hi is None:
            self._add("range", e, False, True, "", "")
            return
        timey = {"start", "cend", "point", "etime", "oend", "shifted"}
        if lo not in timey and hi not in timey:
            return
        ok = (hi in ("oend", "etime") or hi is None) and (lo in INSTANT or lo is None)
        typed = hi is not None
        self._add("range", e, typed, ok, "range:%s,%s" % (lo, hi),
                  "%s iterates instants from a %s up to (excluding) a %s: %s" % (
                      src(e)[:80], KIND_WORDS.get(lo, lo), KIND_WORDS.get(hi, hi),
                      "the last instant of the closed interval is skipped" if hi in ("cend", "point", "start") else "wrong bounds"))

    def _len0_sink(self, value, k, st):
        if k == "len0" or (isinstance(value, ast.BinOp) and False):
            self._add("length", st, True, False, "len0",
                      "%s uses end - start of a closed interval as its length (needs + 1)" % src(value)[:80])
        elif k == "length":
            self._add("length", st, True, True, "length", "")

    def _membership_sink(self, e, a, ak, op, b, bk):
        """instant-vs-bound comparisons (outside the merge region)."""
        strict = isinstance(op, ast.Lt)
        nonstrict = isinstance(op, ast.LtE)
        if not (strict or nonstrict):
            # normalise > and >= by swapping
            if isinstance(op, (ast.Gt, ast.GtE)):
                return self._membership_sink(e, b, bk, ast.Lt() if isinstance(op, ast.Gt) else ast.LtE(), a, ak)
            return
        inst = ("point", "etime")
        if ak == "start" and bk in inst:
            self._add("membership", e, True, nonstrict, "start<point",
                      "%s excludes the first instant of the interval (strict lower bound against an inclusive start)" % src(e)[:80])
        elif ak in inst and bk == "cend":
            self._add("membership", e, True, nonstrict, "point<cend",
                      "%s excludes the last instant of the interval (strict upper bound against an inclusive end)" % src(e)[:80])
        elif ak in inst and bk == "oend":
            self._add("membership", e, True, strict, "point<=oend",
                      "%s includes the vanishing instant (non-strict bound against an exclusive end)" % src(e)[:80])


KIND_WORDS = {"unordered": "arbitrary element of an unordered set of instants", "cend": "closed (inclusive) interval end", "start": "interval start", "point": "single instant",
              "oend": "vanishing (exclusive) time", "shifted": "time shifted by a constant", "interval": "stored [start, end] list",
              "timeline": "whole timeline list", "etime": "event time", None: "value of unknown kind", "len0": "end - start"}


def _has_pop_or_conv(value, name):
    for n in ast.walk(value):
        if isinstance(n, ast.Call):
            if isinstance(n.func, ast.Attribute) and n.func.attr == "pop":
                return True
            if isinstance(n.func, ast.Name) and n.func.id in ("timestamptype", "nodetype"):
                return True
        if isinstance(n, ast.Subscript) and isinstance(n.value, ast.Name) and n.value.id == "keys":
            return True
    return False


def _is_conv_of(value, name):
    return any(isinstance(n, ast.Name) and n.id == name for n in ast.walk(value))


MERGE_FUNCS = {"add_interaction"}


def infer_all(repo: Repo, functions=None, files=None):
    from .ownership import all_functions
    out = []
    for rel, qual, fn, cls in all_functions(repo):
        name = qual.split(".")[-1]
        if functions is not None and name not in functions:
            continue
        if files is not None and rel not in files:
            continue
        out.append(KindInfer(repo, rel, qual, fn, in_merge_region=name in MERGE_FUNCS))
    return out


def check_kinds(repo: Repo, rep: Report, functions=None, files=None, sink_kinds=None, rule_prefix="K"):
    """Evaluate the sinks of the selected functions; returns the number of typed sinks."""
    typed = 0
    for ki in infer_all(repo, functions, files):
        for s in ki.sinks:
            if sink_kinds is not None and s.kind.split(".")[0] not in sink_kinds and s.kind not in sink_kinds:
                continue
            if s.typed:
                typed += 1
                rep.ob("%s.%s" % (rule_prefix, s.kind), s.construct, "%s at %s" % (s.key, src(s.node)[:70]), ok=s.ok)
                if len(rep.samples) < 10 and s.ok:
                    rep.sample(dict(engine="K", sink=s.kind, construct=s.construct, expr=src(s.node)[:90], kinds=s.key))
            else:
                rep.stats["untyped_sinks"] = rep.stats.get("untyped_sinks", 0) + 1
            if s.typed and not s.ok:
                rep.finding("%s.%s" % (rule_prefix, s.kind), s.construct, "%s|%s" % (s.key, _norm(s.node)), s.msg,
                            line=getattr(s.node, "lineno", 0))
    return typed


def _norm(node):
    """Position-independent text of the sink (used in finding keys)."""
    return src(node)[:80]


CONSTRUCTORS = {"time_slice", "to_directed", "to_undirected", "parse_snapshots", "parse_interactions", "node_link_graph"}


def check_constructors(repo: Repo, rep: Report, prop=None):
    return check_kinds(repo, rep, functions=CONSTRUCTORS, sink_kinds={"add_interaction", "range"})
