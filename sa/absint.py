"""A small abstract interpreter for the statement forms dynetx uses (DESIGN.md 3.2).

Integers are *terms* ``base + k`` over the symbols of an order type; every
comparison is decided by ``OrderType.cmp_terms`` (table look-up by gap sums) and
never on concrete numbers.  Containers rooted at ``self`` are abstract objects
supplied by a *world* (sa/worlds.py).  Boolean facts the source cannot determine
(does node u already exist? does another pair own an event at this instant?) are
*choices*: the first time one is needed the run is aborted with ``Fork`` and the
driver re-runs the function once per answer, so every run is deterministic and
the set of runs covers all combinations.

Anything outside the understood fragment raises ``Unsupported`` which the checks
turn into ANALYSIS-ERROR (exit 2) - never into a verdict.
"""
from __future__ import annotations
import ast
from .ordertype import OrderType, Undetermined
from .core import AnalysisError, src


class Unsupported(AnalysisError):
    def __init__(self, node, why=""):
        self.node = node
        line = getattr(node, "lineno", 0)
        super().__init__("unsupported construct at line %s: %s %s" % (
            line, src(node)[:120] if isinstance(node, ast.AST) else node, why))


class NeedZero(Exception):
    """A time term is compared with an integer literal (or tested for truth): the order
    type must contain the symbol '0'.  Drivers re-enumerate with it."""


EXC_PARENTS = {"KeyError": {"LookupError"}, "IndexError": {"LookupError"}, "ZeroDivisionError": {"ArithmeticError"},
               "NetworkXNotImplemented": {"NetworkXException"}, "NetworkXError": {"NetworkXException"},
               "StopIteration": set(), "UnicodeDecodeError": {"ValueError"}}


class Fork(Exception):
    def __init__(self, key):
        self.key = key


class AbstractRaise(Exception):
    """The interpreted code raises (explicitly or through a failing primitive)."""

    def __init__(self, exc, node=None, explicit=False, detail=""):
        self.exc = exc
        self.node = node
        self.explicit = explicit
        self.detail = detail


class _Continue(Exception):
    pass


class _Break(Exception):
    pass


class _Return(Exception):
    def __init__(self, value):
        self.value = value


# ---------------------------------------------------------------------------
# values
# ---------------------------------------------------------------------------
class Int:
    """Integer term base + k (base is a symbol of the order type)."""
    __slots__ = ("base", "k")
    hashable_value = True       # distinct terms are distinct keys (callers use distinct symbols for distinct values)

    def __eq__(self, o):
        return isinstance(o, Int) and (o.base, o.k) == (self.base, self.k)

    def __hash__(self):
        return hash(("Int", self.base, self.k))

    def __init__(self, base, k=0):
        self.base = base
        self.k = k

    def term(self):
        return (self.base, self.k)

    def __repr__(self):
        if self.k == 0:
            return self.base
        return "%s%+d" % (self.base, self.k)


class DiffV:
    """a - b + k for two integer terms over different symbols: only its comparisons with literals are meaningful."""
    __slots__ = ("a", "b", "k")

    def __init__(self, a, b, k=0):
        self.a, self.b, self.k = a, b, k

    def __repr__(self):
        return "(%r - %r%s)" % (self.a, self.b, ("%+d" % self.k) if self.k else "")


class Const:
    """A literal Python constant (int, str, None, bool)."""
    __slots__ = ("v",)

    def __init__(self, v):
        self.v = v

    def __repr__(self):
        return repr(self.v)

    def __eq__(self, o):
        return isinstance(o, Const) and type(o.v) is type(self.v) and o.v == self.v

    def __hash__(self):
        return hash(("Const", self.v))


NONE = Const(None)
TRUE = Const(True)
FALSE = Const(False)


class NodeV:
    """A graph node identified by its *role* (the parameter it came in through)."""
    __slots__ = ("role",)

    def __init__(self, role):
        self.role = role

    def __repr__(self):
        return "node:%s" % self.role

    def __eq__(self, o):
        return isinstance(o, NodeV) and o.role == self.role

    def __hash__(self):
        return hash(("NodeV", self.role))


class TupleV:
    __slots__ = ("items",)

    def __init__(self, items):
        self.items = tuple(items)

    def __repr__(self):
        return "(%s)" % ", ".join(map(repr, self.items))

    def __eq__(self, o):
        return isinstance(o, TupleV) and o.items == self.items

    def __hash__(self):
        return hash(("TupleV", self.items))


class TypeV:
    __slots__ = ("name",)

    def __init__(self, name):
        self.name = name

    def __repr__(self):
        return "<type %s>" % self.name


class Opaque:
    """A value the analysis does not interpret; using it in a decision is Unsupported."""
    __slots__ = ("tag",)

    def __init__(self, tag):
        self.tag = tag

    def __repr__(self):
        return "<opaque %s>" % self.tag


class ListObj:
    def __init__(self, items, persistent=False, tag=""):
        self.items = list(items)
        self.persistent = persistent
        self.tag = tag

    def __repr__(self):
        return "%s[%s]" % (self.tag, ", ".join(map(repr, self.items)))


class DictObj:
    def __init__(self, entries=None, persistent=False, tag=""):
        self.entries = dict(entries or {})
        self.persistent = persistent
        self.tag = tag

    def __repr__(self):
        return "%s{%s}" % (self.tag, ", ".join("%r: %r" % kv for kv in self.entries.items()))


class RangeV:
    """range(lo, hi) over integer terms (hi exclusive)."""
    __slots__ = ("lo", "hi")

    def __init__(self, lo, hi):
        self.lo, self.hi = lo, hi

    def __repr__(self):
        return "range(%r, %r)" % (self.lo, self.hi)


class LoopVar:
    """The generic element of a summarised ``for x in range(lo, hi)`` loop."""
    __slots__ = ("rng",)

    def __init__(self, rng):
        self.rng = rng

    def __repr__(self):
        return "<elem of %r>" % (self.rng,)


class FrozenV:
    """frozenset of abstract hashables: hashable, equal as sets."""
    hashable_value = True
    python_type = "frozenset"

    def __init__(self, items):
        self.items = []
        for x in items:
            if x not in self.items:
                self.items.append(x)

    def __eq__(self, o):
        return isinstance(o, FrozenV) and len(o.items) == len(self.items) and all(x in o.items for x in self.items)

    def __hash__(self):
        return hash(("FrozenV", len(self.items)))

    def __repr__(self):
        return "frozenset(%s)" % (self.items,)


class SetObj:
    """A concrete set of abstract hashables (nodes, constants, tuples)."""

    def __init__(self, items=()):
        self.items = []
        for x in items:
            if x not in self.items:
                self.items.append(x)

    def __repr__(self):
        return "{%s}" % ", ".join(map(repr, self.items))


class IterV:
    """iter(list): a cursor over a concrete abstract sequence."""

    def __init__(self, items):
        self.items = list(items)
        self.pos = 0

    def drain(self):
        r = self.items[self.pos:]
        self.pos = len(self.items)
        return r

    def __repr__(self):
        return "iter(%r)" % (self.items[self.pos:],)


class _NotConcrete(Exception):
    pass


class LocalFuncV:
    """A function defined inside the interpreted function: a closure over the defining environment (read at call time)."""

    def __init__(self, fn, env):
        self.fn, self.env = fn, env

    def __repr__(self):
        return "<local function %s>" % self.fn.name


class LambdaV:
    def __init__(self, node, env):
        self.node, self.env = node, env

    def __repr__(self):
        return "<lambda>"


class PyFunc:
    """A module-level function of the analysed package, inlined when called."""

    def __init__(self, fn, rel=""):
        self.fn, self.rel = fn, rel

    def __repr__(self):
        return "<function %s>" % self.fn.name


FUNCTION_INDEX = {}     # name -> [(rel, FunctionDef)]  (set by the check driver from the module index)


IMPORTED_NAMES = {}     # name bound by an import statement anywhere in the package -> dotted origin
MODULE_CONSTANTS = {}   # name -> [(rel, value expression)] for module-level ``NAME = <expr>``
CLASS_CONSTANTS = {}    # (class name, attribute) -> value expression for ``NAME = <expr>`` in a class body
_CONST_VALUES = {}


class SentinelV:
    """``NAME = object()`` at module level: a unique value, compared by identity."""
    hashable_value = True

    def __init__(self, name):
        self.name = name

    def __repr__(self):
        return "<sentinel %s>" % self.name


def set_function_index(repo):
    FUNCTION_INDEX.clear()
    IMPORTED_NAMES.clear()
    MODULE_CONSTANTS.clear()
    CLASS_CONSTANTS.clear()
    _CONST_VALUES.clear()
    for rel, tree in repo.modules.items():
        for node in tree.body:
            if isinstance(node, ast.ClassDef):
                for sub in node.body:
                    if isinstance(sub, ast.Assign) and len(sub.targets) == 1 and isinstance(sub.targets[0], ast.Name):
                        CLASS_CONSTANTS[(node.name, sub.targets[0].id)] = sub.value
                    elif isinstance(sub, ast.AnnAssign) and isinstance(sub.target, ast.Name) and sub.value is not None:
                        CLASS_CONSTANTS[(node.name, sub.target.id)] = sub.value
            if isinstance(node, ast.FunctionDef):
                FUNCTION_INDEX.setdefault(node.name, []).append((rel, node))
            elif isinstance(node, ast.Assign) and len(node.targets) == 1 and isinstance(node.targets[0], ast.Name):
                MODULE_CONSTANTS.setdefault(node.targets[0].id, []).append((rel, node.value))
            elif isinstance(node, ast.AnnAssign) and isinstance(node.target, ast.Name) and node.value is not None:
                MODULE_CONSTANTS.setdefault(node.target.id, []).append((rel, node.value))
        for node in ast.walk(tree):
            if isinstance(node, ast.Import):
                for a in node.names:
                    IMPORTED_NAMES.setdefault((a.asname or a.name).split(".")[0], a.name)
            elif isinstance(node, ast.ImportFrom) and node.module and not node.module.startswith("dynetx") and node.level == 0:
                for a in node.names:
                    IMPORTED_NAMES.setdefault(a.asname or a.name, "%s.%s" % (node.module, a.name))


def lookup_function(name, prefer_rel=None):
    cands = FUNCTION_INDEX.get(name, [])
    if prefer_rel:
        same = [c for c in cands if c[0] == prefer_rel]
        if same:
            return PyFunc(same[0][1], same[0][0])
    if len(cands) == 1:
        return PyFunc(cands[0][1], cands[0][0])
    return None


class SelfV:
    def __repr__(self):
        return "self"


class MethodCallerV:
    """operator.methodcaller(name, *args, **kwargs)"""

    def __init__(self, name, args, kwargs):
        self.name, self.args, self.kwargs = name, list(args), dict(kwargs)

    def __repr__(self):
        return "methodcaller(%r)" % self.name


class OperatorV:
    """operator.sub / add / mul / lt / ... : the infix operation as a callable"""
    BIN = {"add": ast.Add, "sub": ast.Sub, "mul": ast.Mult, "truediv": ast.Div, "floordiv": ast.FloorDiv, "mod": ast.Mod}
    CMP = {"lt": ast.Lt, "le": ast.LtE, "gt": ast.Gt, "ge": ast.GtE, "eq": ast.Eq, "ne": ast.NotEq}

    def __init__(self, name):
        self.name = name

    def __repr__(self):
        return "operator.%s" % self.name


import re as _re
_EXC_NAME = _re.compile(r"(Error|Exception|Warning|NotImplemented|Exit|Interrupt|StopIteration|StopAsyncIteration|NetworkX[A-Za-z]*)$")


class ExcV:
    """an exception instance (only its class name matters)"""

    def __init__(self, name):
        self.name = name

    def __repr__(self):
        return "<%s instance>" % self.name


class ClosingV:
    def __init__(self, obj):
        self.obj = obj


class NullCtxV:
    def __init__(self, obj):
        self.obj = obj


class SliceObjV:
    """slice(lo, hi[, step]) with constant bounds"""
    hashable_value = True

    def __init__(self, lo, hi, step=None):
        self.lo, self.hi, self.step = lo, hi, step

    def __repr__(self):
        return "slice(%r, %r, %r)" % (self.lo, self.hi, self.step)


class AttrGetterV:
    """operator.attrgetter(name, ...)"""

    def __init__(self, names):
        self.names = list(names)

    def __repr__(self):
        return "attrgetter%r" % (tuple(self.names),)


class ItemGetterV:
    """operator.itemgetter(i, ...)"""

    def __init__(self, idx):
        self.idx = idx

    def __repr__(self):
        return "itemgetter%r" % (tuple(self.idx),)


class PartialV:
    def __init__(self, f, args, kwargs):
        self.f, self.args, self.kwargs = f, args, kwargs


class CountV:
    """itertools.count(start, step): only meaningful inside zip / next"""

    def __init__(self, start=0, step=1):
        self.start, self.step = start, step

    def __repr__(self):
        return "count(%d)" % self.start


class RepeatV:
    """itertools.repeat(x): an endless supply of one value (only meaningful inside zip)."""

    def __init__(self, value):
        self.value = value

    def __repr__(self):
        return "repeat(%r)" % (self.value,)


class BoundMethod:
    def __init__(self, obj, name):
        self.obj, self.name = obj, name


class Builtin:
    def __init__(self, name):
        self.name = name


BUILTINS = ("isinstance", "type", "range", "max", "min", "len", "sorted", "iter", "next", "zip", "enumerate", "reversed", "sum", "any", "all", "abs", "map", "filter",
            "getattr", "hasattr")


def truth(v, node=None):
    if isinstance(v, Const):
        return bool(v.v)
    if isinstance(v, ListObj):
        return bool(v.items)
    if isinstance(v, DictObj):
        return bool(v.entries)
    if isinstance(v, TupleV):
        return bool(v.items)
    if isinstance(v, SetObj):
        return bool(v.items)
    if isinstance(v, IterV):
        return True
    raise Unsupported(node, "truth value of %r" % (v,))


class Interp:
    """Interprets one function body in a world."""

    def __init__(self, world, ot: OrderType, resolve_method=None, max_depth=3):
        self.w = world
        self.ot = ot
        self.resolve_method = resolve_method
        self.depth = 0
        self.max_depth = max_depth
        self.steps = 0
        self.max_steps = 20000
        self.yield_stack = []

    # -- integer reasoning -------------------------------------------------
    def truth(self, v, node=None):
        if isinstance(v, Int):
            # an integer is falsy iff it equals the literal 0
            return self.cmp_int(v, Const(0), "!=", node)
        if isinstance(v, NodeV):
            # a node id may be any hashable: 0 and "" are falsy
            return not self.w.choose(("falsy-node-id", v.role))
        if isinstance(v, Opaque):
            return self.w.choose(("truthy-opaque", v.tag))
        if isinstance(v, SentinelV):
            return not getattr(v, "falsy", False)
        if isinstance(v, DiffV):
            return not self.cmp_int(v.a, Int(v.b.base, v.b.k - v.k), "==", node)
        r = self.w.truth_of(self, v)
        if r is not None:
            return r
        return truth(v, node)

    def cmp_int(self, a, b, op, node=None):
        if isinstance(a, Const) and isinstance(b, Const):
            return _pycmp(a.v, b.v, op)
        if isinstance(a, Int) and isinstance(b, Const) and isinstance(b.v, int) and not isinstance(b.v, bool):
            if not self.ot.has("0"):
                return self._cmp_literal(a, b.v, op)
            b = Int("0", b.v)
        if isinstance(b, Int) and isinstance(a, Const) and isinstance(a.v, int) and not isinstance(a.v, bool):
            if not self.ot.has("0"):
                return self._cmp_literal(b, a.v, {"<": ">", "<=": ">=", ">": "<", ">=": "<=", "==": "==", "!=": "!="}[op])
            a = Int("0", a.v)
        if isinstance(a, Int) and isinstance(b, Int):
            r = self.w.cmp_special(a, b, op)
            if r is not None:
                return r
            return self.ot.cmp_terms(a.term(), b.term(), op)
        raise Unsupported(node, "comparison %r %s %r" % (a, op, b))

    def set_order(self, st, node):
        """the elements of a set in the order an iteration meets them: unspecified, so a set of two or more elements is also
        walked in the reverse of its insertion order (one choice per source position; worlds opt out with set_order_matters=False)"""
        items = list(st.items)
        if len(items) >= 2 and getattr(self.w, "set_order_matters", True):
            key = ("set-walked-in-reverse", getattr(node, "lineno", 0), getattr(node, "col_offset", 0))
            if self.w.choose(key):
                items.reverse()
        return items

    def _known_value(self, x):
        """the integer an instant is known to be (the order type places it at the literal 0 plus a known offset), else None"""
        if not isinstance(x, Int) or not self.ot.has("0"):
            return None
        for c in range(-16, 17):
            try:
                if self.ot.cmp_terms(x.term(), ("0", c), "=="):
                    return c
            except Exception:
                return None
        return None

    def _cmp_literal(self, x, c, op):
        """x (an instant base+k) against the integer literal c when the order type has no symbol for 0.  A world that opts in
        (``lazy_zero_window = (lo, hi)``) places the literal 0 by choices: far below every instant, far above, or base + j == 0
        for one j of the window - each placement is explored (run_all_choices).  Otherwise the driver is asked to re-enumerate."""
        win = getattr(self.w, "lazy_zero_window", None)
        if win is None:
            raise NeedZero()
        if self.w.choose(("zero-far-below", x.base)):
            return op in (">", ">=", "!=")
        if self.w.choose(("zero-far-above", x.base)):
            return op in ("<", "<=", "!=")
        j = win[1]
        for cand in range(win[0], win[1]):
            if self.w.choose(("zero-at", x.base, cand)):
                j = cand
                break
        return _pycmp(x.k - j, c, op)        # base + j == 0, so x = k - j

    def int_eq(self, a, b):
        try:
            return self.cmp_int(a, b, "==")
        except Unsupported:
            return False

    # -- entry -------------------------------------------------------------
    def call_function(self, fn: ast.FunctionDef, args: dict):
        """Run fn with the given environment; returns the return value.

        A generator function is run eagerly: its yields are collected and returned as a
        one-shot iterator (laziness is not modelled; one-shot consumption is)."""
        env = dict(args)
        if _is_generator(fn) and not (self.depth == 0 and getattr(self.w, "wants_yields", False)):
            saved = self.yield_stack
            self.yield_stack = saved + [[]]
            try:
                try:
                    self.exec_block(fn.body, env)
                except _Return:
                    pass
                out = self.yield_stack[-1]
            finally:
                self.yield_stack = saved
            return IterV(out)
        try:
            self.exec_block(fn.body, env)
        except _Return as r:
            return r.value
        return NONE

    # -- statements ----------------------------------------------------------
    def exec_block(self, body, env):
        for st in body:
            self.exec_stmt(st, env)

    def exec_stmt(self, st, env):
        self.steps += 1
        if self.steps > self.max_steps:
            raise Unsupported(st, "step budget exceeded")
        if isinstance(st, ast.Expr):
            if isinstance(st.value, ast.Constant):
                return          # docstring / bare constant
            self.eval(st.value, env)
        elif isinstance(st, ast.Pass):
            return
        elif isinstance(st, ast.If):
            if self.truth(self.eval(st.test, env), st.test):
                self.exec_block(st.body, env)
            else:
                self.exec_block(st.orelse, env)
        elif isinstance(st, ast.Assign):
            v = self.eval(st.value, env)
            for tgt in st.targets:
                self.assign(tgt, v, env)
        elif isinstance(st, ast.AugAssign):
            cur = self.eval(_as_load(st.target), env)
            rhs = self.eval(st.value, env)
            self.assign(st.target, self.binop(cur, st.op, rhs, st), env, aug=(cur, st.op, rhs))
        elif isinstance(st, ast.Raise):
            exc = st.exc
            if exc is not None:
                head = exc.func if isinstance(exc, ast.Call) else exc
                last = head.attr if isinstance(head, ast.Attribute) else (head.id if isinstance(head, ast.Name) else None)
                if last is not None and _EXC_NAME.search(last):
                    if isinstance(exc, ast.Call):
                        # the arguments are evaluated before anything is raised: a lookup made for the message can fail first
                        for a in list(exc.args) + [k.value for k in exc.keywords]:
                            try:
                                self.eval(a, env)
                            except (Unsupported, Fork):
                                pass
                else:
                    v = self.eval(exc, env)          # ``raise helper()``: whatever the helper builds
                    if isinstance(v, ExcV):
                        raise AbstractRaise(v.name, st, explicit=True)
                    raise Unsupported(st, "raise of %r" % (v,))
            raise AbstractRaise(self.exc_name(st.exc), st, explicit=True)
        elif isinstance(st, ast.Return):
            raise _Return(self.eval(st.value, env) if st.value is not None else NONE)
        elif isinstance(st, ast.Continue):
            raise _Continue()
        elif isinstance(st, ast.Break):
            raise _Break()
        elif isinstance(st, ast.Delete):
            for tgt in st.targets:
                self.delete(tgt, env)
        elif isinstance(st, ast.For):
            self.exec_for(st, env)
        elif isinstance(st, ast.While):
            # concrete control (list cursors): bounded unrolling, never a guess
            for _ in range(64):
                if not self.truth(self.eval(st.test, env), st.test):
                    self.exec_block(st.orelse, env)
                    break
                try:
                    self.exec_block(st.body, env)
                except _Continue:
                    continue
                except _Break:
                    break
            else:
                raise Unsupported(st, "while loop not finished after 64 iterations")
        elif isinstance(st, ast.Try):
            self.exec_try(st, env)
        elif isinstance(st, ast.With) and len(st.items) == 1 and self._suppressed(st.items[0].context_expr) is not None:
            # with contextlib.suppress(E1, E2): body   ==   try: body / except (E1, E2): pass
            names = self._suppressed(st.items[0].context_expr)
            try:
                self.exec_block(st.body, env)
            except AbstractRaise as r:
                if not (r.exc in names or "Exception" in names or "BaseException" in names or
                        (r.exc in EXC_PARENTS and EXC_PARENTS[r.exc] & names)):
                    raise
        elif isinstance(st, ast.With) and any(isinstance(self._peek_ctx(i.context_expr, env), (ClosingV, NullCtxV)) for i in st.items):
            # contextlib.closing(x): x.close() on every way out; contextlib.nullcontext(x): nothing
            managers = []
            for item in st.items:
                v = self._peek_ctx(item.context_expr, env)
                if not isinstance(v, (ClosingV, NullCtxV)):
                    raise Unsupported(st, "mixed context managers")
                managers.append(v)
                if item.optional_vars is not None:
                    self.assign(item.optional_vars, v.obj, env)
            try:
                self.exec_block(st.body, env)
            finally:
                for v in reversed(managers):
                    if isinstance(v, ClosingV):
                        m = self.load_attr(v.obj, "close", st)
                        if isinstance(m, BoundMethod):
                            self.call_method(m, [], {}, st)
                        else:
                            self.w.call(self, m, [], {}, st)
        elif isinstance(st, ast.With):
            opened = []
            for item in st.items:
                v = self.eval(item.context_expr, env)
                if isinstance(v, Opaque) and v.tag.startswith("module:contextlib."):
                    raise Unsupported(st, "context manager %s" % v.tag[7:])
                opened.append(v)
                if item.optional_vars is not None:
                    self.assign(item.optional_vars, v, env)
            try:
                self.exec_block(st.body, env)
            finally:
                for v in reversed(opened):
                    if hasattr(self.w, "exit_context"):
                        self.w.exit_context(self, v, st)
                    elif hasattr(v, "closed"):
                        v.closed = True
        elif isinstance(st, ast.FunctionDef):
            val = LocalFuncV(st, env)
            for d in reversed(st.decorator_list):
                dv = self.eval(d, env)
                if isinstance(dv, Opaque) and dv.tag == "identity-decorator":
                    continue                      # functools.wraps(f): metadata only
                try:
                    val = self.apply_value(dv, [val], st)
                except Unsupported:
                    raise Unsupported(st, "decorated local function (@%s)" % src(d))
            env[st.name] = val
        elif isinstance(st, ast.Assert):
            if not self.truth(self.eval(st.test, env), st.test):
                raise AbstractRaise("AssertionError", st, explicit=True)
        elif isinstance(st, ast.AnnAssign):
            if st.value is not None:
                self.assign(st.target, self.eval(st.value, env), env)
        elif isinstance(st, (ast.Global, ast.Nonlocal)):
            raise Unsupported(st, "global / nonlocal")
        elif isinstance(st, (ast.Import, ast.ImportFrom)):
            for a in st.names:
                nm = (a.asname or a.name).split(".")[0]
                r = self.w.resolve_name(self, a.name, st)
                dotted = "%s.%s" % (st.module, a.name) if isinstance(st, ast.ImportFrom) and st.module and st.level == 0 else a.name
                env[nm] = r if r is not None else Opaque("module:" + dotted)
        else:
            raise Unsupported(st, "statement kind %s" % type(st).__name__)

    def exec_try(self, st, env):
        if st.finalbody:
            # the finally block runs on every way out (normal, return, raise, break/continue)
            try:
                self._exec_try_core(st, env)
            except (AbstractRaise, _Return, _Break, _Continue):
                self.exec_block(st.finalbody, env)
                raise
            self.exec_block(st.finalbody, env)
            return
        self._exec_try_core(st, env)

    def _exec_try_core(self, st, env):
        try:
            self.exec_block(st.body, env)
        except AbstractRaise as r:
            for h in st.handlers:
                names = _handler_names(h)
                if names is None or r.exc in names or "Exception" in names or "BaseException" in names or \
                        (r.exc in EXC_PARENTS and EXC_PARENTS[r.exc] & names):
                    if h.name:
                        env[h.name] = Opaque("exc")
                    self.w.on_handler(self, r, h)
                    self.exec_block(h.body, env)
                    return
            raise
        else:
            self.exec_block(st.orelse, env)

    def exec_for(self, st, env):
        it = self.eval(st.iter, env)
        if isinstance(it, Const) and not isinstance(it.v, (str, bytes)):
            raise AbstractRaise("TypeError", st, detail="%r object is not iterable" % type(it.v).__name__)
        if isinstance(it, IterV):
            it = ListObj(it.drain())
        c = self.w.concretise_iter(self, it, st)
        if c is not None:
            it = c
        if isinstance(it, RangeV) and not getattr(self.w, "abstract_ranges", False):
            q = _range_seq(it)         # bounds that differ by a known amount: the loop is run element by element
            if q is not None:
                it = ListObj(q)
        if isinstance(it, DictObj):
            it = ListObj(list(it.entries.keys()))
        if isinstance(it, SetObj):
            it = ListObj(self.set_order(it, st))
        if isinstance(it, ListObj) or isinstance(it, TupleV):
            items = list(it.items)
            broke = False
            for x in items:
                self.assign(st.target, x, env)
                try:
                    self.exec_block(st.body, env)
                except _Continue:
                    continue
                except _Break:
                    broke = True
                    break
            if not broke:
                self.exec_block(st.orelse, env)
            return
        if isinstance(it, RangeV):
            if st.orelse:
                raise Unsupported(st, "for/else over range")
            self.w.summarise_range_loop(self, st, it, env)
            return
        self.w.exec_special_for(self, st, it, env)

    def run_loop_body(self, st, env):
        """One iteration of a loop body; returns True when the loop is left with ``break``."""
        try:
            self.exec_block(st.body, env)
        except _Continue:
            return False
        except _Break:
            return True
        return False

    # -- assignment ------------------------------------------------------------
    def assign(self, tgt, v, env, aug=None):
        if isinstance(tgt, ast.Name):
            env[tgt.id] = v
        elif isinstance(tgt, (ast.Tuple, ast.List)):
            if isinstance(v, IterV):
                v = ListObj(v.drain())
            starred = [i for i, t in enumerate(tgt.elts) if isinstance(t, ast.Starred)]
            if isinstance(v, (TupleV, ListObj)) and not getattr(v, "has_prefix", False) and len(starred) == 1 \
                    and len(v.items) >= len(tgt.elts) - 1:
                i = starred[0]
                n_after = len(tgt.elts) - i - 1
                items = list(v.items)
                for t, x in zip(tgt.elts[:i], items[:i]):
                    self.assign(t, x, env)
                self.assign(tgt.elts[i].value, ListObj(items[i:len(items) - n_after]), env)
                for t, x in zip(tgt.elts[i + 1:], items[len(items) - n_after:]):
                    self.assign(t, x, env)
            elif isinstance(v, (TupleV, ListObj)) and len(v.items) == len(tgt.elts) and not starred:
                for t, x in zip(tgt.elts, v.items):
                    self.assign(t, x, env)
            elif isinstance(v, (TupleV, ListObj)) and not getattr(v, "has_prefix", False):
                raise AbstractRaise("ValueError", tgt, detail="cannot unpack %d value(s) into %d name(s)" % (len(v.items), len(tgt.elts)))
            else:
                raise Unsupported(tgt, "unpacking %r" % (v,))
        elif isinstance(tgt, ast.Subscript):
            obj = self.eval(tgt.value, env)
            key = self.eval(tgt.slice, env)
            self.store_subscript(obj, key, v, tgt, aug)
        elif isinstance(tgt, ast.Attribute):
            obj = self.eval(tgt.value, env)
            self.w.store_attr(self, obj, tgt.attr, v, tgt)
        else:
            raise Unsupported(tgt, "assignment target")

    def store_subscript(self, obj, key, v, node, aug=None):
        if isinstance(obj, ListObj):
            i = self.list_index(obj, key, node)
            if obj.persistent:
                self.w.effect(("heap_write", obj.tag, i, repr(v)), node)
            obj.items[i] = v
        elif isinstance(obj, DictObj):
            k = self.dict_key(key, node)
            if obj.persistent:
                self.w.effect(("heap_write", obj.tag, repr(k), repr(v)), node)
            obj.entries[k] = v
        else:
            self.w.store_subscript(self, obj, key, v, node, aug)

    def delete(self, tgt, env):
        if isinstance(tgt, ast.Name):
            env.pop(tgt.id, None)
            return
        if isinstance(tgt, ast.Subscript):
            obj = self.eval(tgt.value, env)
            key = self.eval(tgt.slice, env)
            if isinstance(obj, DictObj):
                k = self.dict_key(key, tgt)
                if k not in obj.entries:
                    raise AbstractRaise("KeyError", tgt, detail="del of missing key %r" % (k,))
                if obj.persistent:
                    self.w.effect(("heap_del", obj.tag, repr(k)), tgt)
                del obj.entries[k]
                return
            if isinstance(obj, ListObj):
                i = self.list_index(obj, key, tgt)
                if obj.persistent:
                    self.w.effect(("heap_del", obj.tag, i), tgt)
                del obj.items[i]
                return
            self.w.delete_subscript(self, obj, key, tgt)
            return
        raise Unsupported(tgt, "del target")

    # -- expressions -------------------------------------------------------------
    def eval(self, e, env):
        if isinstance(e, ast.Constant):
            return Const(e.value)
        if isinstance(e, ast.Name):
            if e.id in env:
                return env[e.id]
            if e.id in ("list", "dict", "tuple", "set", "int", "str", "frozenset", "float", "bool", "bytes", "object", "slice"):
                return TypeV(e.id)
            if e.id in BUILTINS:
                return Builtin(e.id)
            import builtins as _b
            if isinstance(getattr(_b, e.id, None), type) and issubclass(getattr(_b, e.id), BaseException):
                r = self.w.resolve_name(self, e.id, e)
                return r if r is not None else Opaque("module:builtins." + e.id)
            if e.id in ("ValueError", "KeyError", "TypeError", "Exception", "IndexError"):
                return TypeV(e.id)
            r = self.w.resolve_name(self, e.id, e)
            if r is not None:
                return r
            r = lookup_function(e.id, getattr(self.w, "current_rel", None))
            if r is not None:
                return r
            if e.id in IMPORTED_NAMES:
                return Opaque("module:" + IMPORTED_NAMES[e.id])
            r = self.module_constant(e.id, e)
            if r is not None:
                return r
            raise Unsupported(e, "unbound name")
        if isinstance(e, ast.Attribute):
            obj = self.eval(e.value, env)
            return self.load_attr(obj, e.attr, e)
        if isinstance(e, ast.Subscript):
            obj = self.eval(e.value, env)
            if isinstance(e.slice, ast.Slice):
                return self.load_slice(obj, e.slice, env, e)
            key = self.eval(e.slice, env)
            if isinstance(key, SliceObjV):
                # x[slice(a, b)] is x[a:b]
                c = lambda v: None if v is None else ast.copy_location(ast.Constant(value=v), e)
                return self.load_slice(obj, ast.copy_location(ast.Slice(lower=c(key.lo), upper=c(key.hi), step=c(key.step)), e), env, e)
            return self.load_subscript(obj, key, e)
        if isinstance(e, ast.List):
            return ListObj([self.eval(x, env) for x in e.elts])
        if isinstance(e, ast.Tuple):
            return TupleV([self.eval(x, env) for x in e.elts])
        if isinstance(e, ast.Set):
            return SetObj([self.eval(x, env) for x in e.elts])
        if isinstance(e, ast.Dict):
            d = DictObj()
            for k, v in zip(e.keys, e.values):
                if k is None:
                    src_ = self.eval(v, env)
                    if not isinstance(src_, DictObj):
                        r_ = self.w.concretise_mapping(self, src_, e) if hasattr(self.w, "concretise_mapping") else None
                        if r_ is None:
                            raise Unsupported(e, "dict unpacking of %r" % (src_,))
                        src_ = r_
                    d.entries.update(src_.entries)
                    if getattr(src_, "opaque_rest", None):
                        d.opaque_rest = src_.opaque_rest
                    continue
                d.entries[self.dict_key(self.eval(k, env), e)] = self.eval(v, env)
            return d
        if isinstance(e, ast.BoolOp):
            if isinstance(e.op, ast.And):
                v = TRUE
                for x in e.values:
                    v = self.eval(x, env)
                    if not self.truth(v, x):
                        return v
                return v
            v = FALSE
            for x in e.values:
                v = self.eval(x, env)
                if self.truth(v, x):
                    return v
            return v
        if isinstance(e, ast.UnaryOp):
            if isinstance(e.op, ast.Not):
                return Const(not self.truth(self.eval(e.operand, env), e.operand))
            if isinstance(e.op, (ast.USub, ast.UAdd)):
                v = self.eval(e.operand, env)
                if isinstance(v, Const) and isinstance(v.v, (int, float)) and not isinstance(v.v, bool):
                    return Const(-v.v if isinstance(e.op, ast.USub) else v.v)
            raise Unsupported(e, "unary operator")
        if isinstance(e, ast.BinOp):
            return self.binop(self.eval(e.left, env), e.op, self.eval(e.right, env), e)
        if isinstance(e, ast.Compare):
            left = self.eval(e.left, env)
            for op, rnode in zip(e.ops, e.comparators):
                right = self.eval(rnode, env)
                if not self.compare(left, op, right, e):
                    return FALSE
                left = right
            return TRUE
        if isinstance(e, ast.Call):
            return self.call(e, env)
        if isinstance(e, ast.Lambda):
            return LambdaV(e, env)       # a closure reads its free names when it is CALLED (late binding), so the frame is shared
        if isinstance(e, ast.IfExp):
            if self.truth(self.eval(e.test, env), e.test):
                return self.eval(e.body, env)
            return self.eval(e.orelse, env)
        if isinstance(e, ast.Yield):
            v = self.eval(e.value, env) if e.value is not None else NONE
            if self.yield_stack:
                self.yield_stack[-1].append(v)
            else:
                self.w.on_yield(self, v, e)
            return NONE
        if isinstance(e, ast.YieldFrom):
            v = self.eval(e.value, env)
            seq = _concrete_seq(v)
            if seq is None:
                c = self.w.concretise_iter(self, v, e)
                seq = list(c.items) if isinstance(c, (ListObj, TupleV)) else None
            if seq is None:
                # ``yield from X`` is ``for x in X: yield x``: run it as that loop, so that whatever the world knows about looping
                # over X (a range of instants, the interactions of a graph ...) applies
                it_name, el_name = "__yield_from_iter_%d" % id(e), "__yield_from_item_%d" % id(e)
                env[it_name] = v
                loop = ast.For(target=ast.Name(id=el_name, ctx=ast.Store()), iter=ast.Name(id=it_name, ctx=ast.Load()),
                               body=[ast.Expr(value=ast.Yield(value=ast.Name(id=el_name, ctx=ast.Load())))], orelse=[], type_comment=None)
                ast.copy_location(loop, e)
                ast.fix_missing_locations(loop)
                try:
                    self.exec_for(loop, env)
                finally:
                    env.pop(it_name, None)
                    env.pop(el_name, None)
                return NONE
            for x in seq:
                if self.yield_stack:
                    self.yield_stack[-1].append(x)
                else:
                    self.w.on_yield(self, x, e)
            return NONE
        if isinstance(e, ast.JoinedStr):
            parts = []
            for v in e.values:
                if isinstance(v, ast.Constant):
                    parts.append(Const(v.value))
                elif isinstance(v, ast.FormattedValue):
                    try:
                        parts.append(self.eval(v.value, env))
                    except Unsupported:
                        return Opaque("fstring")
            r = self.w.eval_fstring(self, parts, e)
            return r if r is not None else Opaque("fstring")
        if isinstance(e, (ast.ListComp, ast.GeneratorExp, ast.SetComp, ast.DictComp)):
            r = self.comprehension(e, env)
            if r is not None:
                return r
            return self.w.eval_comprehension(self, e, env)
        raise Unsupported(e, "expression kind %s" % type(e).__name__)

    def module_constant(self, name, node):
        cands = MODULE_CONSTANTS.get(name, [])
        rel = getattr(self.w, "current_rel", None)
        same = [c for c in cands if c[0] == rel] or cands
        if len(same) != 1:
            return None
        key = (same[0][0], name)
        if key not in _CONST_VALUES:
            ve = same[0][1]
            if isinstance(ve, ast.Call) and isinstance(ve.func, ast.Name) and ve.func.id == "object" and not ve.args:
                _CONST_VALUES[key] = SentinelV(name)
            else:
                try:
                    lit = ast.literal_eval(ve)
                    val = _from_py(lit)
                except Exception:
                    val = None
                if val is None:
                    # a computed constant (itemgetter(0, 1), frozenset((..)), a tuple of names ...): evaluated in an empty frame
                    try:
                        val = self.eval(ve, {})
                    except (Unsupported, AbstractRaise, Fork):
                        return None
                    if isinstance(val, (ListObj, DictObj, SetObj)) and getattr(val, "persistent", False):
                        return None
                _CONST_VALUES[key] = val
        v = _CONST_VALUES[key]
        return _fresh_copy(v)

    def binop(self, a, op, b, node):
        if isinstance(op, (ast.Add, ast.Sub)):
            sign = 1 if isinstance(op, ast.Add) else -1
            if isinstance(a, Int) and isinstance(b, Const) and isinstance(b.v, int) and not isinstance(b.v, bool):
                return Int(a.base, a.k + sign * b.v)
            if isinstance(a, Const) and isinstance(b, Int) and sign == 1 and isinstance(a.v, int):
                return Int(b.base, b.k + a.v)
            if isinstance(a, Const) and isinstance(b, Const) and isinstance(a.v, int) and isinstance(b.v, int):
                return Const(a.v + sign * b.v)
            if isinstance(a, Int) and isinstance(b, Int) and sign == -1 and a.base == b.base:
                return Const(a.k - b.k)
            if isinstance(a, Int) and isinstance(b, Int) and sign == -1:
                r = self.w.binop(self, a, op, b, node)        # a world may know the difference as a symbol of its own
                return r if r is not None else DiffV(a, b)
            if isinstance(a, DiffV) and isinstance(b, Const) and isinstance(b.v, int) and not isinstance(b.v, bool):
                return DiffV(a.a, a.b, a.k + sign * b.v)
            if isinstance(a, Const) and isinstance(b, DiffV) and sign == 1 and isinstance(a.v, int) and not isinstance(a.v, bool):
                return DiffV(b.a, b.b, b.k + a.v)
            if isinstance(a, ListObj) and isinstance(b, ListObj) and sign == 1:
                return ListObj(a.items + b.items)
            if isinstance(a, Const) and isinstance(b, Const) and isinstance(a.v, str) and isinstance(b.v, str) and sign == 1:
                return Const(a.v + b.v)
            if isinstance(a, TupleV) and isinstance(b, TupleV) and sign == 1:
                return TupleV(list(a.items) + list(b.items))
        if isinstance(a, Const) and isinstance(b, Const) and isinstance(a.v, (int, float)) and isinstance(b.v, (int, float)) \
                and not isinstance(a.v, bool) and not isinstance(b.v, bool):
            try:
                if isinstance(op, ast.Add):
                    return Const(a.v + b.v)
                if isinstance(op, ast.Sub):
                    return Const(a.v - b.v)
                if isinstance(op, ast.Mult):
                    return Const(a.v * b.v)
                if isinstance(op, ast.Div):
                    return Const(a.v / b.v)
                if isinstance(op, ast.FloorDiv):
                    return Const(a.v // b.v)
                if isinstance(op, ast.Mod):
                    return Const(a.v % b.v)
            except ZeroDivisionError:
                raise AbstractRaise("ZeroDivisionError", node)
        if isinstance(op, ast.Mult):
            for x, y in ((a, b), (b, a)):
                if isinstance(x, (ListObj, TupleV)) and isinstance(y, Const) and isinstance(y.v, int) and not isinstance(y.v, bool) \
                        and not getattr(x, "has_prefix", False):
                    items = list(x.items) * max(y.v, 0)
                    return ListObj(items) if isinstance(x, ListObj) else TupleV(items)
                if isinstance(x, Const) and isinstance(x.v, str) and isinstance(y, Const) and isinstance(y.v, int) and not isinstance(y.v, bool):
                    return Const(x.v * y.v)
        if isinstance(op, ast.Mod) and isinstance(a, Const) and isinstance(a.v, str):
            vals = b.items if isinstance(b, TupleV) else [b]
            if all(isinstance(x, Const) for x in vals):
                try:
                    return Const(a.v % (tuple(x.v for x in vals) if isinstance(b, TupleV) else vals[0].v))
                except (TypeError, ValueError) as ex:
                    raise AbstractRaise(type(ex).__name__, node, detail=str(ex))
        if isinstance(op, ast.Pow) and isinstance(a, Const) and isinstance(b, Const) and all(
                isinstance(x.v, (int, float)) and not isinstance(x.v, bool) for x in (a, b)):
            try:
                return Const(a.v ** b.v)
            except ZeroDivisionError:
                raise AbstractRaise("ZeroDivisionError", node)
        if isinstance(a, FrozenV) and isinstance(b, FrozenV) and isinstance(op, (ast.BitOr, ast.BitAnd, ast.Sub, ast.BitXor)):
            ia, ib = list(a.items), list(b.items)
            has = lambda seq, x: any(self.generic_eq(x, y, node) for y in seq)
            if isinstance(op, ast.BitOr):
                return FrozenV(ia + [x for x in ib if not has(ia, x)])
            if isinstance(op, ast.BitAnd):
                return FrozenV([x for x in ia if has(ib, x)])
            if isinstance(op, ast.Sub):
                return FrozenV([x for x in ia if not has(ib, x)])
            return FrozenV([x for x in ia if not has(ib, x)] + [x for x in ib if not has(ia, x)])
        if isinstance(a, SetObj) and isinstance(b, SetObj):
            if isinstance(op, ast.BitOr):
                return SetObj(a.items + b.items)
            if isinstance(op, ast.BitAnd):
                return SetObj([x for x in a.items if x in b.items])
            if isinstance(op, ast.Sub):
                return SetObj([x for x in a.items if x not in b.items])
        r = self.w.binop(self, a, op, b, node)
        if r is not None:
            return r
        # an instant whose value the order type fixes (it equals the literal 0 plus a known offset) is a plain number
        ca, cb = self._known_value(a), self._known_value(b)
        if (ca is not None or cb is not None) and not (ca is None and not isinstance(a, Const)) and not (cb is None and not isinstance(b, Const)):
            return self.binop(Const(ca) if ca is not None else a, op, Const(cb) if cb is not None else b, node)
        raise Unsupported(node, "arithmetic %r %s %r" % (a, type(op).__name__, b))

    def compare(self, a, op, b, node):
        if isinstance(op, (ast.Is, ast.IsNot)):
            if isinstance(b, Const) and b.v is None:
                r = isinstance(a, Const) and a.v is None
            elif isinstance(a, Const) and isinstance(b, Const):
                r = a.v is b.v
            elif isinstance(b, Const) and isinstance(b.v, bool):
                r = isinstance(a, Const) and a.v is b.v
            else:
                r = a is b
            return r if isinstance(op, ast.Is) else not r
        if isinstance(op, (ast.In, ast.NotIn)):
            r = self.contains(b, a, node)
            return r if isinstance(op, ast.In) else not r
        sym = {ast.Lt: "<", ast.LtE: "<=", ast.Gt: ">", ast.GtE: ">=", ast.Eq: "==", ast.NotEq: "!="}[type(op)]
        if isinstance(b, DiffV) and isinstance(a, Const):
            a, b = b, a
            sym = {"<": ">", "<=": ">=", ">": "<", ">=": "<=", "==": "==", "!=": "!="}[sym]
        if isinstance(a, DiffV) and isinstance(b, Const) and isinstance(b.v, int) and not isinstance(b.v, bool):
            # a.a - a.b + k  (sym)  c   <=>   a.a  (sym)  a.b + (c - k)
            return self.cmp_int(a.a, Int(a.b.base, a.b.k + b.v - a.k), sym, node)
        if isinstance(a, (Int, Const)) and isinstance(b, (Int, Const)) and not (
                isinstance(a, Const) and not isinstance(a.v, (int, float)) or
                isinstance(b, Const) and not isinstance(b.v, (int, float))):
            return self.cmp_int(a, b, sym, node)
        r = self.w.compare(self, a, sym, b, node)
        if r is not None:
            return r
        if sym in ("==", "!="):
            r = self.generic_eq(a, b, node)
            return r if sym == "==" else not r
        if isinstance(a, (SetObj, FrozenV)) and isinstance(b, (SetObj, FrozenV)) and sym in ("<", "<=", ">", ">="):
            # sets compare by inclusion
            inc = lambda xs, ys: all(any(self.generic_eq(x, y, node) for y in ys) for x in xs)
            a_in_b, b_in_a = inc(a.items, b.items), inc(b.items, a.items)
            return {"<=": a_in_b, "<": a_in_b and not b_in_a, ">=": b_in_a, ">": b_in_a and not a_in_b}[sym]
        if type(a) is type(b) and isinstance(a, (ListObj, TupleV)) and not getattr(a, "has_prefix", False) and not getattr(b, "has_prefix", False):
            # sequences compare lexicographically: the first differing pair of elements decides, then the lengths
            eq_op, strict = ast.Eq(), (ast.Lt() if sym in ("<", "<=") else ast.Gt())
            for x, y in zip(a.items, b.items):
                if not self.compare(x, eq_op, y, node):
                    return bool(self.compare(x, strict, y, node))
            return _pycmp(len(a.items), len(b.items), sym)
        raise Unsupported(node, "comparison %r %s %r" % (a, sym, b))

    def generic_eq(self, a, b, node):
        if isinstance(a, SentinelV) or isinstance(b, SentinelV):
            return a is b
        if isinstance(a, TypeV) and isinstance(b, TypeV):
            return a.name == b.name
        if isinstance(a, Const) and isinstance(b, Const):
            return a == b
        if isinstance(a, NodeV) and isinstance(b, NodeV):
            if a.role == b.role:
                return True
            return self.w.nodes_equal(a, b)
        if (isinstance(a, NodeV) and isinstance(b, (Int, Const))) or (isinstance(b, NodeV) and isinstance(a, (Int, Const))):
            # a node id is an arbitrary hashable: it may well equal an instant or an op string
            h = getattr(self.w, "node_equals_value", None)
            if h is not None:
                n_, v_ = (a, b) if isinstance(a, NodeV) else (b, a)
                return bool(h(self, n_, v_, node))
            return False
        if isinstance(a, (Int, Const)) and isinstance(b, (Int, Const)):
            if isinstance(a, Int) and isinstance(b, Int):
                return self.cmp_int(a, b, "==", node)
            return False
        if isinstance(a, TupleV) and isinstance(b, TupleV):
            return len(a.items) == len(b.items) and all(self.generic_eq(x, y, node) for x, y in zip(a.items, b.items))
        if type(a) is not type(b):
            return False
        if getattr(a, "hashable_value", False) and getattr(b, "hashable_value", False):
            return a == b
        raise Unsupported(node, "equality %r == %r" % (a, b))

    def contains(self, container, x, node):
        if isinstance(container, RangeV):
            if isinstance(x, Const) and (x.v is None or isinstance(x.v, str)):
                return False                     # ``None in range(..)`` is simply False
            if isinstance(x, Int):
                return self.cmp_int(container.lo, x, "<=", node) and self.cmp_int(x, container.hi, "<", node)
            raise Unsupported(node, "membership of %r in a range" % (x,))
        if isinstance(container, ListObj) or isinstance(container, TupleV):
            return any(self.generic_eq(x, y, node) for y in container.items)
        if isinstance(container, DictObj):
            if isinstance(x, (ListObj, DictObj, SetObj)):
                raise AbstractRaise("TypeError", node, detail="unhashable key")
            return self.dict_key(x, node) in container.entries
        if isinstance(container, SetObj):
            return any(self.generic_eq(x, y, node) for y in container.items)
        if isinstance(container, Const) and isinstance(container.v, str) and isinstance(x, Const) and isinstance(x.v, str):
            return x.v in container.v
        return self.w.contains(self, container, x, node)

    def canon_int(self, x):
        """One representative per value: two terms that are equal on this order type (same group, or an exact gap between
        their groups) must be the same dictionary key / set element."""
        ot = self.ot
        try:
            fam = ot._of(x.base) if hasattr(ot, "_of") else ot
            if not fam.has(x.base):
                return x
            best = None
            for s in sorted(fam.symbols()):
                lo, hi = fam.diff(x.base, s)
                if lo is not None and lo == hi:
                    best = Int(s, x.k + lo)
                    break
            return best if best is not None else x
        except (KeyError, AttributeError, TypeError):
            return x

    def dict_key(self, k, node):
        if isinstance(k, Int):
            return self.canon_int(k)
        if isinstance(k, TupleV) and any(isinstance(i, (Int, TupleV)) for i in k.items):
            return TupleV([self.dict_key(i, node) if isinstance(i, (Int, TupleV)) else i for i in k.items])
        if isinstance(k, (Const, NodeV, TupleV)) or getattr(k, "hashable_value", False):
            return k
        raise Unsupported(node, "dict key %r" % (k,))

    def list_index(self, obj, key, node):
        if isinstance(key, Const) and isinstance(key.v, bool):
            key = Const(int(key.v))
        if isinstance(key, Const) and isinstance(key.v, int):
            i = key.v
            n = len(obj.items)
            if -n <= i < n:
                return i % n if n else 0
            raise AbstractRaise("IndexError", node, detail="index %d of a list of length %d" % (i, n))
        raise Unsupported(node, "list index %r" % (key,))

    def load_subscript(self, obj, key, node):
        if isinstance(obj, ListObj):
            r = self.w.load_list_item(self, obj, key, node)
            if r is not None:
                return r
            return obj.items[self.list_index(obj, key, node)]
        if isinstance(obj, TupleV):
            if isinstance(key, Const) and isinstance(key.v, bool):
                key = Const(int(key.v))             # a bool is an int: (a, b)[flag]
            if isinstance(key, Const) and isinstance(key.v, int) and not isinstance(key.v, bool):
                if -len(obj.items) <= key.v < len(obj.items):
                    return obj.items[key.v]
                raise AbstractRaise("IndexError", node, detail="tuple index %d out of range (length %d)" % (key.v, len(obj.items)))
            raise Unsupported(node, "tuple index")
        if isinstance(obj, DictObj):
            k = self.dict_key(key, node)
            if k not in obj.entries:
                fac = getattr(obj, "default_factory", None)
                if fac is not None:
                    obj.entries[k] = fac()
                    return obj.entries[k]
                if getattr(obj, "missing_value", None) is not None:
                    return obj.missing_value            # collections.Counter: a missing key reads as 0 and is not created
                raise AbstractRaise("KeyError", node, detail="missing key %r" % (k,))
            return obj.entries[k]
        return self.w.load_subscript(self, obj, key, node)

    def load_slice(self, obj, sl, env, node):
        if isinstance(obj, Const) and isinstance(obj.v, (str, bytes)):
            bounds = []
            for x in (sl.lower, sl.upper, sl.step):
                v = None if x is None else self.eval(x, env)
                if v is not None and not (isinstance(v, Const) and (v.v is None or (isinstance(v.v, int) and not isinstance(v.v, bool)))):
                    bounds = None
                    break
                bounds.append(None if v is None else v.v)
            if bounds is not None:
                r = self.w.load_slice(self, obj, sl, env, node) if hasattr(self.w, "slices_constant_text") else None
                return r if r is not None else Const(obj.v[slice(*bounds)])
        if isinstance(obj, (ListObj, TupleV)) and not getattr(obj, "has_prefix", False):
            def bound(x):
                if x is None:
                    return None
                v = self.eval(x, env)
                if isinstance(v, Const) and isinstance(v.v, int):
                    return v.v
                raise Unsupported(node, "slice bound %r" % (v,))
            items = list(obj.items)[slice(bound(sl.lower), bound(sl.upper), bound(sl.step))]
            return ListObj(items) if isinstance(obj, ListObj) else TupleV(items)
        return self.w.load_slice(self, obj, sl, env, node)

    def comprehension(self, e, env):
        """List / generator / set comprehensions over concrete abstract sequences."""
        out = []

        def rec(i, env2):
            if i == len(e.generators):
                if isinstance(e, ast.DictComp):
                    out.append((self.dict_key(self.eval(e.key, env2), e), self.eval(e.value, env2)))
                else:
                    out.append(self.eval(e.elt, env2))
                return
            g = e.generators[i]
            if g.is_async:
                raise Unsupported(e, "async comprehension")
            it = self.eval(g.iter, env2)
            c = self.w.concretise_iter(self, it, e)
            if c is not None:
                it = c
            if isinstance(it, IterV):
                seq = it.drain()
            elif isinstance(it, (ListObj, TupleV)) and not getattr(it, "has_prefix", False):
                seq = list(it.items)
            elif isinstance(it, DictObj):
                seq = list(it.entries.keys())
            elif isinstance(it, SetObj):
                seq = self.set_order(it, e) if not isinstance(e, ast.SetComp) else list(it.items)
            else:
                # abstract sources (a range of instants, the interactions of the graph, ...): the world may offer
                # generic elements, one per role an element can play
                seq = self.w.generic_elements(self, it, e)
                if seq is None:
                    raise _NotConcrete()
            for x in seq:
                # one frame for the whole comprehension: its loop variables are re-bound, not copied, per element (a lambda
                # built inside sees the last binding when it is called later)
                self.assign(g.target, x, env2)
                if all(self.truth(self.eval(c, env2), c) for c in g.ifs):
                    rec(i + 1, env2)
        try:
            rec(0, dict(env))
        except _NotConcrete:
            return None
        if isinstance(e, ast.DictComp):
            return DictObj(dict(out))
        if isinstance(e, ast.SetComp):
            return SetObj(out)
        if isinstance(e, ast.GeneratorExp):
            return IterV(out)
        return ListObj(out)

    def load_attr(self, obj, attr, node):
        if isinstance(obj, SelfV):
            # an immutable constant of the class body (a tuple of names, a message, a table of operator functions) read through self
            cname = getattr(self.w, "cls", None) or (getattr(self.w, "cfg", None) or {}).get("cls")
            ve = CLASS_CONSTANTS.get((cname, attr))
            if ve is not None and not (hasattr(self.w, "aux_attrs") and attr in self.w.aux_attrs):
                try:
                    val = self.eval(ve, {})
                except (Unsupported, AbstractRaise, Fork):
                    val = None
                if isinstance(val, (Const, TupleV, FrozenV, SentinelV, ItemGetterV, AttrGetterV, OperatorV, SliceObjV)):
                    return val
        if isinstance(obj, TypeV) and obj.name == "dict" and attr == "fromkeys":
            return Builtin("dict.fromkeys")
        if isinstance(obj, Builtin) and obj.name == "chain" and attr == "from_iterable":
            return Opaque("module:itertools.chain.from_iterable")
        if isinstance(obj, (SetObj, ListObj, DictObj)) and not attr.startswith("__"):
            return BoundMethod(obj, attr)
        return self.w.load_attr(self, obj, attr, node)

    # -- calls -------------------------------------------------------------------
    def call(self, e, env):
        f = self.eval(e.func, env)
        args = []
        for a in e.args:
            if isinstance(a, ast.Starred):
                seq = _concrete_seq(self.eval(a.value, env))
                if seq is None:
                    raise Unsupported(e, "star arguments")
                args.extend(seq)
            else:
                args.append(self.eval(a, env))
        kwargs = {}
        for k in e.keywords:
            v = self.eval(k.value, env)
            if k.arg is None:
                # **mapping: only a dict with constant string keys can be spliced
                if isinstance(v, DictObj) and all(isinstance(x, Const) and isinstance(x.v, str) for x in v.entries):
                    for kk, vv in v.entries.items():
                        kwargs[kk.v] = vv
                    continue
                extra = self.w.splice_kwargs(self, v, e) if hasattr(self.w, "splice_kwargs") else None
                if extra is not None:
                    kwargs.update(extra)
                    continue
                raise Unsupported(e, "** of %r" % (v,))
            kwargs[k.arg] = v
        if isinstance(f, Builtin):
            return self.call_builtin(f.name, args, kwargs, e)
        if isinstance(f, TypeV):
            if f.name == "object" and not args and not kwargs:
                return SentinelV("object() at line %d" % getattr(e, "lineno", 0))
            if f.name in ("list", "tuple", "set") and len(args) == 1:
                c = self.w.concretise_iter(self, args[0], e)
                seq = _concrete_seq(c if c is not None else args[0])
                if seq is None and not getattr(self.w, "abstract_ranges", False):
                    seq = _range_seq(args[0])
                if seq is not None:
                    if f.name == "set":
                        for x in seq:
                            if isinstance(x, (ListObj, DictObj, SetObj)):
                                raise AbstractRaise("TypeError", e, detail="unhashable set element")
                        return SetObj(seq)
                    if isinstance(args[0], SetObj):
                        seq = self.set_order(args[0], e)
                    return ListObj(seq) if f.name == "list" else TupleV(seq)
            if f.name == "frozenset" and len(args) <= 1:
                seq = _concrete_seq(args[0]) if args else []
                if seq is not None:
                    return FrozenV(seq)
            if f.name == "str" and len(args) == 1 and isinstance(args[0], Const) and not kwargs and isinstance(args[0].v, (str, int, float, bool, type(None))):
                return Const(str(args[0].v))
            if f.name == "slice" and 1 <= len(args) <= 3 and not kwargs and all(
                    isinstance(a, Const) and (a.v is None or (isinstance(a.v, int) and not isinstance(a.v, bool))) for a in args):
                vals = [a.v for a in args]
                return SliceObjV(*([None, vals[0]] if len(vals) == 1 else vals))
            if f.name == "bool" and len(args) == 1 and not kwargs and not isinstance(args[0], Const):
                return Const(bool(self.truth(args[0], e)))
            if f.name in ("float", "bool") and len(args) == 1 and isinstance(args[0], Const):
                try:
                    return Const({"float": float, "bool": bool}[f.name](args[0].v))
                except (TypeError, ValueError) as ex:
                    raise AbstractRaise(type(ex).__name__, e, detail=str(ex))
            if f.name in ("list", "set") and not args:
                return ListObj([]) if f.name == "list" else SetObj()
            if f.name == "dict" and len(args) == 1 and not kwargs:
                seq = _concrete_seq(args[0])
                if seq is not None and all(isinstance(x, (TupleV, ListObj)) and len(x.items) == 2 for x in seq):
                    return DictObj({self.dict_key(x.items[0], e): x.items[1] for x in seq})
                if isinstance(args[0], DictObj):
                    return DictObj(dict(args[0].entries))
            if f.name == "int" and len(args) == 1 and isinstance(args[0], Const) and isinstance(args[0].v, (int, float)):
                return Const(int(args[0].v))
            if f.name == "int" and len(args) == 1 and isinstance(args[0], Int):
                return args[0]
            if f.name == "dict" and not args and not kwargs:
                return DictObj()
            if f.name == "dict" and not args and kwargs:
                return DictObj({Const(k): v for k, v in kwargs.items()})
            r = self.w.call_builtin(self, f.name, args, kwargs, e)
            if r is not None:
                return r
            raise Unsupported(e, "constructor call")
        if isinstance(f, BoundMethod):
            return self.call_method(f, args, kwargs, e)
        if isinstance(f, Opaque) and f.tag.startswith("module:") and _EXC_NAME.search(f.tag.rsplit(".", 1)[-1]) and "." in f.tag:
            return ExcV(f.tag.rsplit(".", 1)[-1])         # nx.NetworkXError("...") builds an exception
        if isinstance(f, Opaque) and f.tag in ("module:functools.lru_cache", "module:functools.cache", "module:functools.wraps"):
            # memoisation does not change what a pure callable returns: lru_cache(maxsize=..)(f) -> f, cache(f) -> f
            if len(args) == 1 and not kwargs and isinstance(args[0], (PyFunc, LambdaV, LocalFuncV, BoundMethod)) and f.tag != "module:functools.wraps":
                return args[0]
            return Opaque("identity-decorator")
        if isinstance(f, Opaque) and f.tag == "identity-decorator" and len(args) == 1 and not kwargs:
            return args[0]
        if isinstance(f, Opaque) and f.tag == "module:functools.partial" and args:
            return PartialV(args[0], list(args[1:]), dict(kwargs))
        if isinstance(f, PartialV):
            kw = dict(f.kwargs)
            kw.update(kwargs)
            return self.apply_value(f.f, f.args + list(args), e, kwargs=kw)
        if isinstance(f, Opaque) and f.tag.endswith(".pairwise") and len(args) == 1 and set(kwargs) <= {"cyclic"}:
            q = self._seq(args[0], e)
            if q is not None:
                cyc = kwargs.get("cyclic", FALSE)
                if not isinstance(cyc, Const):
                    raise Unsupported(e, "pairwise(cyclic=%r)" % (cyc,))
                pairs = [TupleV([a_, b_]) for a_, b_ in zip(q, q[1:])]
                if cyc.v and q:
                    pairs.append(TupleV([q[-1], q[0]]))
                return IterV(pairs)
        if isinstance(f, Opaque) and f.tag.startswith("module:bisect.") and 2 <= len(args) <= 4:
            r = self.call_bisect(f.tag.split(".", 1)[1], args, kwargs, e)
            if r is not None:
                return r
        if isinstance(f, Opaque) and f.tag == "module:collections.defaultdict" and len(args) <= 1 and not kwargs:
            d = DictObj()
            if args and not (isinstance(args[0], Const) and args[0].v is None):
                fac = args[0]
                if isinstance(fac, TypeV) and fac.name in ("set", "list", "dict", "int", "float"):
                    d.default_factory = {"set": SetObj, "list": lambda: ListObj([]), "dict": DictObj, "int": lambda: Const(0),
                                         "float": lambda: Const(0.0)}[fac.name]
                elif isinstance(fac, LambdaV):
                    d.default_factory = lambda fac=fac, e=e: self.apply_value(fac, [], e)
                else:
                    raise Unsupported(e, "defaultdict factory %r" % (fac,))
            return d
        if isinstance(f, Opaque) and f.tag == "module:collections.OrderedDict" and not args and not kwargs:
            return DictObj()
        if isinstance(f, Opaque) and f.tag == "module:operator.itemgetter" and args and not kwargs and all(
                isinstance(a, Const) and isinstance(a.v, (int, str)) for a in args):
            return ItemGetterV([a.v for a in args])
        if isinstance(f, Opaque) and f.tag == "module:operator.attrgetter" and args and not kwargs and all(
                isinstance(a, Const) and isinstance(a.v, str) and "." not in a.v for a in args):
            return AttrGetterV([a.v for a in args])
        if isinstance(f, AttrGetterV) and len(args) == 1 and not kwargs:
            return self.apply_value(f, args, e)
        if isinstance(f, ItemGetterV) and len(args) == 1 and not kwargs:
            return self.apply_value(f, args, e)
        if isinstance(f, Opaque) and f.tag.startswith("module:operator.") and f.tag[16:] in (set(OperatorV.BIN) | set(OperatorV.CMP)) and len(args) == 2 \
                and not kwargs:
            return self.apply_value(OperatorV(f.tag[16:]), args, e)
        if isinstance(f, Opaque) and f.tag == "module:operator.methodcaller" and args and isinstance(args[0], Const) and isinstance(args[0].v, str):
            return MethodCallerV(args[0].v, args[1:], kwargs)
        if isinstance(f, MethodCallerV) and len(args) == 1 and not kwargs:
            return self.apply_value(f, args, e)
        if isinstance(f, OperatorV) and len(args) == 2 and not kwargs:
            return self.apply_value(f, args, e)
        if isinstance(f, Opaque) and f.tag.startswith("module:itertools."):
            r = self.call_itertools(f.tag.split(".", 1)[1], args, kwargs, e)
            if r is not None:
                return r
        if isinstance(f, Opaque) and f.tag in ("module:copy.copy", "module:copy.deepcopy") and len(args) == 1 and \
                isinstance(args[0], (Const, NodeV, Int, TupleV)):
            return args[0]
        if isinstance(f, LambdaV):
            a = f.node.args
            names = [x.arg for x in a.args]
            if len(args) != len(names) or kwargs or a.vararg or a.kwarg:
                raise Unsupported(e, "lambda call")
            env2 = dict(f.env)
            env2.update(zip(names, args))
            return self.eval(f.node.body, env2)
        if isinstance(f, LocalFuncV):
            return self.call_local(f, args, kwargs, e)
        if isinstance(f, PyFunc):
            if self.depth >= self.max_depth + 3:
                raise Unsupported(e, "call depth")
            decos = [src(d) for d in f.fn.decorator_list]
            if any("not_implemented" in d for d in decos):
                raise AbstractRaise("NetworkXNotImplemented", e, explicit=True)
            env = _bind(f.fn, args, kwargs, self, e)
            self.depth += 1
            try:
                return self.call_function(f.fn, env)
            finally:
                self.depth -= 1
        if isinstance(f, Const):
            raise AbstractRaise("TypeError", e, detail="%r is not callable" % (f.v,))
        return self.w.call(self, f, args, kwargs, e)

    def _seq(self, a, node):
        q = _concrete_seq(a)
        if q is None and not isinstance(a, (Const, Int, NodeV, Opaque, RepeatV)):
            c = self.w.concretise_iter(self, a, node)
            if isinstance(c, (ListObj, TupleV)):
                q = list(c.items)
        return q

    def call_bisect(self, fname, args, kwargs, node):
        """bisect_left / bisect_right / bisect / insort* on a concrete list whose elements can be ordered against x."""
        if fname not in ("bisect_left", "bisect_right", "bisect", "insort", "insort_left", "insort_right"):
            return None
        lst, x = args[0], args[1]
        if not isinstance(lst, ListObj) or getattr(lst, "has_prefix", False) or set(kwargs) - {"key", "lo", "hi"} or len(args) > 2:
            return None
        if "lo" in kwargs or "hi" in kwargs:
            return None
        keyf = kwargs.get("key")
        keys = [self.apply_value(keyf, [y], node) for y in lst.items] if keyf is not None and not (
            isinstance(keyf, Const) and keyf.v is None) else list(lst.items)
        left = fname.endswith("left")
        pos = 0
        xk = x
        if fname.startswith("insort") and keyf is not None and not (isinstance(keyf, Const) and keyf.v is None):
            xk = self.apply_value(keyf, [x], node)
        for k in keys:
            c = self._order(k, xk, node)
            if c is None:
                return None
            if c < 0 or (c == 0 and not left):
                pos += 1
            else:
                break
        if fname.startswith("insort"):
            if lst.persistent:
                self.w.effect(("heap_append", lst.tag, "insort"), node)
            lst.items.insert(pos, x)
            return NONE
        return Const(pos)

    def call_itertools(self, fname, args, kwargs, node):
        import itertools as _it
        if fname == "repeat" and 1 <= len(args) <= 2 and not kwargs:
            if len(args) == 2:
                if isinstance(args[1], Const) and isinstance(args[1].v, int):
                    return IterV([args[0]] * args[1].v)
                return None
            return RepeatV(args[0])
        if fname == "count" and len(args) <= 2 and not kwargs and all(
                isinstance(a, Const) and isinstance(a.v, int) and not isinstance(a.v, bool) for a in args):
            return CountV(args[0].v if args else 0, args[1].v if len(args) > 1 else 1)
        if fname == "islice" and len(args) == 2 and isinstance(args[0], IterV) and isinstance(args[1], Const) and isinstance(args[1].v, int) \
                and not isinstance(args[1].v, bool) and args[1].v >= 0 and not kwargs:
            taken = args[0].items[args[0].pos:args[0].pos + args[1].v]       # islice consumes only what it hands out
            args[0].pos += len(taken)
            return IterV(taken)
        seqs = [self._seq(a, node) for a in args]
        if fname == "product" and set(kwargs) <= {"repeat"} and all(q is not None for q in seqs):
            rep = kwargs.get("repeat", Const(1))
            if not (isinstance(rep, Const) and isinstance(rep.v, int)):
                return None
            return IterV([TupleV(list(t)) for t in _it.product(*seqs, repeat=rep.v)])
        if kwargs:
            return None
        if fname == "chain" and all(q is not None for q in seqs):
            return IterV([x for q in seqs for x in q])
        if fname == "chain.from_iterable" and len(args) == 1 and seqs[0] is not None:
            out = []
            for part in seqs[0]:
                q = self._seq(part, node)
                if q is None:
                    return None
                out += q
            return IterV(out)
        if fname in ("combinations", "permutations", "combinations_with_replacement") and len(args) == 2 and seqs[0] is not None \
                and isinstance(args[1], Const):
            return IterV([TupleV(list(t)) for t in getattr(_it, fname)(seqs[0], args[1].v)])
        if fname == "islice" and 2 <= len(args) <= 4 and seqs[0] is not None:
            nums = []
            for a in args[1:]:
                if isinstance(a, Const) and (a.v is None or isinstance(a.v, int)):
                    nums.append(a.v)
                else:
                    return None
            return IterV(list(_it.islice(seqs[0], *nums)))
        if fname == "tee" and 1 <= len(args) <= 2 and seqs[0] is not None:
            n = args[1].v if len(args) == 2 and isinstance(args[1], Const) and isinstance(args[1].v, int) else (2 if len(args) == 1 else None)
            if n is not None:
                return TupleV([IterV(list(seqs[0])) for _ in range(n)])
        if fname == "pairwise" and len(args) == 1 and seqs[0] is not None:
            return IterV([TupleV([a, b]) for a, b in zip(seqs[0], seqs[0][1:])])
        if fname == "zip_longest" and all(q is not None for q in seqs):
            return IterV([TupleV(list(t)) for t in _it.zip_longest(*seqs, fillvalue=NONE)])
        return None

    KNOWN_STATE = {"_adj", "_succ", "_pred", "adj", "succ", "pred", "_node", "time_to_edge", "snapshots", "edge_removal", "directed",
                   "graph", "name", "__class__"}

    def call_builtin(self, name, args, kwargs, node):
        if name in ("getattr", "hasattr") and len(args) in (2, 3) and isinstance(args[1], Const) and isinstance(args[1].v, str) \
                and not kwargs and isinstance(args[0], SelfV):
            attr = args[1].v
            aux = getattr(self.w, "aux_attrs", None) or {}
            known = attr in aux or attr in (getattr(self.w, "methods", None) or {}) or attr in self.KNOWN_STATE
            if name == "hasattr":
                if known:
                    return TRUE
                if attr.startswith("_") and not attr.startswith("__"):
                    return FALSE          # a private attribute nothing in this run has set
                raise Unsupported(node, "hasattr(self, %r)" % attr)
            if known:
                return self.load_attr(args[0], attr, node)
            if attr.startswith("_") and not attr.startswith("__"):
                if len(args) == 3:
                    return args[2]
                raise AbstractRaise("AttributeError", node, detail="self.%s is read before anything sets it" % attr)
            raise Unsupported(node, "getattr(self, %r)" % attr)
        if name in ("getattr", "hasattr") and len(args) in (2, 3) and isinstance(args[1], Const) and isinstance(args[1].v, str) \
                and not kwargs and isinstance(args[0], (Const, DictObj, ListObj, TupleV, SetObj)):
            # plain data (None, a number, a dict, a list ...) has none of the attributes a graph has
            attr = args[1].v
            pytype = type(args[0].v) if isinstance(args[0], Const) else {DictObj: dict, ListObj: list, TupleV: tuple, SetObj: set}[type(args[0])]
            if hasattr(pytype, attr):
                raise Unsupported(node, "%s(%r, %r)" % (name, args[0], attr))
            if name == "hasattr":
                return FALSE
            if len(args) == 3:
                return args[2]
            raise AbstractRaise("AttributeError", node, detail="%s object has no attribute %s" % (pytype.__name__, attr))
        if name == "isinstance" and len(args) == 2:
            tn = self.type_of(args[0], node).name
            types = args[1].items if isinstance(args[1], TupleV) else [args[1]]
            res = False
            for t in types:
                if isinstance(t, Opaque):
                    continue        # a library type (os.PathLike, ...): none of the abstract values is one
                res = res or tn == _tname(t, node)
            return Const(res)
        if name == "type" and len(args) == 1:
            return self.type_of(args[0], node)
        if name == "range":
            if len(args) == 2 and all(isinstance(a, Int) for a in args):
                return RangeV(args[0], args[1])
            if 1 <= len(args) <= 3 and all(isinstance(a, Const) and isinstance(a.v, int) for a in args):
                return ListObj([Const(i) for i in range(*[a.v for a in args])])
            raise Unsupported(node, "range over %r" % (args,))
        if name in ("max", "min") and len(args) == 2 and all(isinstance(a, Int) for a in args):
            a, b = args
            ge = self.cmp_int(a, b, ">=", node)
            if name == "max":
                return a if ge else b
            return b if ge else a
        if name in ("max", "min"):
            r = self.w.call_minmax(self, name, args, node)
            if r is not None:
                return r
        if name == "range" and 1 <= len(args) <= 2 and all(isinstance(a, Const) and isinstance(a.v, int) for a in args):
            return ListObj([Const(i) for i in range(*[a.v for a in args])])
        if name == "sum" and len(args) == 1:
            seq = _concrete_seq(args[0])
            if seq is not None and all(isinstance(x, Const) and isinstance(x.v, (int, float)) for x in seq):
                return Const(sum(x.v for x in seq))
        if name in ("any", "all") and len(args) == 1:
            seq = _concrete_seq(args[0])
            if seq is not None:
                vals = [self.truth(x, node) for x in seq]
                return Const(any(vals) if name == "any" else all(vals))
        if name in ("max", "min") and args and set(kwargs) <= {"key", "default"}:
            seq = _concrete_seq(args[0]) if len(args) == 1 else list(args)
            if seq is not None and not seq:
                if "default" in kwargs:
                    return kwargs["default"]
                raise AbstractRaise("ValueError", node, detail="%s() of an empty sequence" % name)
            if seq is not None:
                keyf = kwargs.get("key")
                keys = [self.apply_value(keyf, [x], node) for x in seq] if keyf is not None and not (
                    isinstance(keyf, Const) and keyf.v is None) else list(seq)
                best = 0
                ok = True
                for i in range(1, len(seq)):
                    c = self._order(keys[i], keys[best], node)
                    if c is None:
                        ok = False
                        break
                    if (c > 0 and name == "max") or (c < 0 and name == "min"):
                        best = i
                if ok:
                    return seq[best]
        if name == "sorted" and len(args) == 1 and set(kwargs) <= {"reverse", "key"}:
            seq = _concrete_seq(args[0])
            if seq is not None:
                r = self.sort_seq(seq, kwargs, node)
                if r is not None:
                    return ListObj(r)
        if name == "bool" and len(args) == 1 and not isinstance(args[0], Const):
            return Const(bool(self.truth(args[0], node)))
        if name in ("float", "abs", "bool") and len(args) == 1 and isinstance(args[0], Const):
            return Const({"float": float, "abs": abs, "bool": bool}[name](args[0].v))
        if name == "len" and len(args) == 1:
            if isinstance(args[0], (SetObj, FrozenV)):
                return Const(len(args[0].items))
            if isinstance(args[0], (ListObj, TupleV)):
                r = self.w.list_len(self, args[0], node)
                return r if r is not None else Const(len(args[0].items))
            if isinstance(args[0], DictObj):
                return Const(len(args[0].entries))
            if isinstance(args[0], Const) and isinstance(args[0].v, (str, bytes)):
                r = self.w.call_builtin(self, name, args, kwargs, node)
                return r if r is not None else Const(len(args[0].v))
        if name == "iter" and len(args) == 1 and isinstance(args[0], (ListObj, TupleV, DictObj, SetObj, IterV)):
            if isinstance(args[0], IterV):
                return args[0]
            return IterV(_concrete_seq(args[0]))
        if name == "reversed" and len(args) == 1 and isinstance(args[0], (ListObj, TupleV)) and not getattr(args[0], "has_prefix", False):
            return IterV(list(reversed(args[0].items)))
        if name == "next" and 1 <= len(args) <= 2 and isinstance(args[0], CountV):
            v = Const(args[0].start)
            args[0].start += args[0].step
            return v
        if name == "next" and 1 <= len(args) <= 2 and isinstance(args[0], IterV):
            it = args[0]
            if it.pos >= len(it.items):
                if len(args) == 2:
                    return args[1]
                raise AbstractRaise("StopIteration", node, detail="next() on an exhausted iterator")
            it.pos += 1
            return it.items[it.pos - 1]
        if name == "defaultdict" and len(args) <= 1 and not kwargs:
            d = DictObj()
            if args and not (isinstance(args[0], Const) and args[0].v is None):
                fac = args[0]
                if isinstance(fac, TypeV) and fac.name in ("set", "list", "dict", "int", "float"):
                    d.default_factory = {"set": SetObj, "list": lambda: ListObj([]), "dict": DictObj, "int": lambda: Const(0),
                                         "float": lambda: Const(0.0)}[fac.name]
                elif isinstance(fac, (LambdaV, LocalFuncV)):
                    d.default_factory = lambda fac=fac: self.apply_value(fac, [], node)
                else:
                    raise Unsupported(node, "defaultdict factory %r" % (fac,))
            return d
        if name == "map" and len(args) > 2 and not kwargs:
            seqs = [self._seq(a, node) for a in args[1:]]
            if all(q is not None for q in seqs):
                return IterV([self.apply_value(args[0], list(xs), node) for xs in zip(*seqs)])
        if name in ("map", "filter") and len(args) == 2 and not kwargs:
            seq = self._seq(args[1], node)
            if seq is not None:
                if name == "map":
                    return IterV([self.apply_value(args[0], [x], node) for x in seq])
                if isinstance(args[0], Const) and args[0].v is None:
                    return IterV([x for x in seq if self.truth(x, node)])
                return IterV([x for x in seq if self.truth(self.apply_value(args[0], [x], node), node)])
        if name == "dict.fromkeys" and 1 <= len(args) <= 2:
            seq = _concrete_seq(args[0])
            if seq is not None:
                d = DictObj()
                for x in seq:
                    d.entries.setdefault(self.dict_key(x, node), args[1] if len(args) == 2 else NONE)
                return d
        if name == "enumerate" and 1 <= len(args) <= 2 and not isinstance(args[0], (ListObj, TupleV, IterV)):
            q = self._seq(args[0], node)
            if q is not None:
                args = [ListObj(q)] + list(args[1:])
        if name == "enumerate" and 1 <= len(args) <= 2 and isinstance(args[0], (ListObj, TupleV, IterV)):
            start = 0
            if len(args) == 2 or "start" in kwargs:
                sv = args[1] if len(args) == 2 else kwargs["start"]
                if not (isinstance(sv, Const) and isinstance(sv.v, int)):
                    raise Unsupported(node, "enumerate start")
                start = sv.v
            seq = args[0].drain() if isinstance(args[0], IterV) else list(args[0].items)
            return ListObj([TupleV([Const(i + start), x]) for i, x in enumerate(seq)])
        if name == "zip" and args and all(isinstance(a, (ListObj, TupleV, IterV, RepeatV, CountV)) for a in args) \
                and not all(isinstance(a, (RepeatV, CountV)) for a in args):
            finite = [a.drain() if isinstance(a, IterV) else list(a.items) for a in args if not isinstance(a, (RepeatV, CountV))]
            n = min(len(q) for q in finite)
            it_f = iter(finite)
            seqs = []
            for a in args:
                if isinstance(a, RepeatV):
                    seqs.append([a.value] * n)
                elif isinstance(a, CountV):
                    seqs.append([Const(a.start + i * a.step) for i in range(n)])
                    a.start += n * a.step           # a counter is consumed as far as it was read
                else:
                    seqs.append(next(it_f))
            return ListObj([TupleV(list(t)) for t in zip(*seqs)])
        r = self.w.call_builtin(self, name, args, kwargs, node)
        if r is not None:
            return r
        raise Unsupported(node, "builtin %s%r" % (name, tuple(args)))

    def _order(self, a, b, node):
        """-1 / 0 / 1 for two comparable abstract values, None when their order is not modelled."""
        for x, y, sgn in ((a, b, 1), (b, a, -1)):
            if isinstance(x, Const) and isinstance(x.v, float) and x.v in (float("inf"), float("-inf")) and isinstance(y, (Int, Const)):
                if isinstance(y, Const) and isinstance(y.v, float) and y.v == x.v:
                    return 0
                return sgn * (1 if x.v > 0 else -1)
        if isinstance(a, (Int, Const)) and isinstance(b, (Int, Const)):
            if isinstance(a, Const) and isinstance(b, Const):
                if isinstance(a.v, str) and isinstance(b.v, str) or (
                        isinstance(a.v, (int, float)) and isinstance(b.v, (int, float))):
                    return -1 if a.v < b.v else (1 if a.v > b.v else 0)
                return None
            if isinstance(a, Const) and not isinstance(a.v, int) or isinstance(b, Const) and not isinstance(b.v, int):
                return None
            if self.cmp_int(a, b, "==", node):
                return 0
            return -1 if self.cmp_int(a, b, "<", node) else 1
        if isinstance(a, (ListObj, TupleV)) and isinstance(b, (ListObj, TupleV)) and type(a) is type(b):
            for p, q in zip(a.items, b.items):
                c = self._order(p, q, node)
                if c is None:
                    return None
                if c:
                    return c
            return (len(a.items) > len(b.items)) - (len(a.items) < len(b.items))
        if isinstance(a, NodeV) and isinstance(b, NodeV):
            if a.role == b.role:
                return 0
            lt = self.w.compare(self, a, "<", b, node)
            if lt is None:
                return None
            return -1 if lt else 1
        return None

    def sort_seq(self, seq, kwargs, node):
        import functools
        rev = kwargs.get("reverse", FALSE)
        if not isinstance(rev, Const):
            return None
        keyf = kwargs.get("key")
        if keyf is not None and not (isinstance(keyf, Const) and keyf.v is None):
            keys = [self.apply_value(keyf, [x], node) for x in seq]
        else:
            keys = list(seq)
        unknown = []

        def cmp(i, j):
            c = self._order(keys[i], keys[j], node)
            if c is None:
                unknown.append((keys[i], keys[j]))
                return 0
            return c
        idx = sorted(range(len(seq)), key=functools.cmp_to_key(cmp), reverse=bool(rev.v))
        if unknown:
            return None
        return [seq[i] for i in idx]

    def call_local(self, f, args, kwargs, node):
        if self.depth >= self.max_depth + 3:
            raise Unsupported(node, "call depth")
        bound = _bind(f.fn, list(args), kwargs, self, node)
        env2 = dict(f.env)
        env2.update(bound)
        self.depth += 1
        try:
            return self.call_function(f.fn, env2)
        finally:
            self.depth -= 1

    def apply_value(self, f, args, node, kwargs=None):
        """Call an abstract callable on already evaluated arguments."""
        if isinstance(f, PartialV):
            kw = dict(f.kwargs)
            kw.update(kwargs or {})
            return self.apply_value(f.f, list(f.args) + list(args), node, kwargs=kw)
        if kwargs:
            if isinstance(f, PyFunc):
                env = _bind(f.fn, list(args), dict(kwargs), self, node)
                self.depth += 1
                try:
                    return self.call_function(f.fn, env)
                finally:
                    self.depth -= 1
            if isinstance(f, BoundMethod):
                return self.call_method(f, list(args), dict(kwargs), node)
            if isinstance(f, LocalFuncV):
                return self.call_local(f, list(args), dict(kwargs), node)
            if isinstance(f, (LambdaV, Builtin, TypeV, ItemGetterV, OperatorV, MethodCallerV)):
                raise Unsupported(node, "keyword arguments for %r" % (f,))
            return self.w.call(self, f, list(args), dict(kwargs), node)
        if isinstance(f, Opaque) and f.tag.startswith("module:operator.") and f.tag[16:] in (set(OperatorV.BIN) | set(OperatorV.CMP)):
            f = OperatorV(f.tag[16:])
        if isinstance(f, LocalFuncV):
            return self.call_local(f, list(args), {}, node)
        if isinstance(f, LambdaV):
            a = f.node.args
            names = [x.arg for x in a.args]
            if len(args) != len(names) or a.vararg or a.kwarg:
                raise Unsupported(node, "lambda call")
            env2 = dict(f.env)
            env2.update(zip(names, args))
            return self.eval(f.node.body, env2)
        if isinstance(f, PyFunc):
            env = _bind(f.fn, list(args), {}, self, node)
            self.depth += 1
            try:
                return self.call_function(f.fn, env)
            finally:
                self.depth -= 1
        if isinstance(f, Builtin):
            return self.call_builtin(f.name, list(args), {}, node)
        if isinstance(f, TypeV) and f.name in ("tuple", "list", "set", "frozenset") and len(args) == 1:
            q = self._seq(args[0], node)
            if q is not None:
                return {"tuple": TupleV, "list": ListObj, "set": SetObj, "frozenset": FrozenV}[f.name](list(q))
            r = self.w.call_builtin(self, f.name, list(args), {}, node)
            if r is not None:
                return r
        if isinstance(f, TypeV) and f.name in ("int", "float", "str", "bool") and len(args) == 1 and isinstance(args[0], Const):
            try:
                return Const({"int": int, "float": float, "str": str, "bool": bool}[f.name](args[0].v))
            except (TypeError, ValueError) as ex:
                raise AbstractRaise(type(ex).__name__, node, detail=str(ex))
        if isinstance(f, BoundMethod):
            return self.call_method(f, list(args), {}, node)
        if isinstance(f, Opaque) and f.tag in ("module:operator.itemgetter()",):
            raise Unsupported(node, "itemgetter")
        if isinstance(f, ItemGetterV):
            outs = [self.load_subscript(args[0], Const(i), node) for i in f.idx]
            return outs[0] if len(outs) == 1 else TupleV(outs)
        if isinstance(f, AttrGetterV) and len(args) == 1:
            outs = [self.load_attr(args[0], a, node) for a in f.names]
            return outs[0] if len(outs) == 1 else TupleV(outs)
        if isinstance(f, MethodCallerV) and len(args) == 1:
            m = self.load_attr(args[0], f.name, node)
            if isinstance(m, BoundMethod):
                return self.call_method(m, list(f.args), dict(f.kwargs), node)
            return self.w.call(self, m, list(f.args), dict(f.kwargs), node)
        if isinstance(f, OperatorV) and len(args) == 2:
            if f.name in OperatorV.BIN:
                return self.binop(args[0], OperatorV.BIN[f.name](), args[1], node)
            return Const(bool(self.compare(args[0], OperatorV.CMP[f.name](), args[1], node)))
        return self.w.call(self, f, list(args), {}, node)

    def type_of(self, v, node):
        t = self.w.type_of(self, v)
        if t is not None:
            return t
        if isinstance(v, (Int,)):
            return TypeV("int")
        if isinstance(v, Const):
            return TypeV(type(v.v).__name__)
        if isinstance(v, ListObj):
            return TypeV("list")
        if isinstance(v, TupleV):
            return TypeV("tuple")
        if isinstance(v, DictObj):
            return TypeV("dict")
        if isinstance(v, NodeV):
            return TypeV("nodetype")
        t = getattr(v, "python_type", None)
        if t:
            return TypeV(t)
        raise Unsupported(node, "type of %r" % (v,))

    def call_method(self, bm, args, kwargs, node):
        obj, name = bm.obj, bm.name
        if isinstance(obj, ListObj):
            if name == "append" and len(args) == 1:
                if obj.persistent:
                    self.w.effect(("heap_append", obj.tag, repr(args[0])), node)
                obj.items.append(args[0])
                return NONE
            if name == "extend" and len(args) == 1:
                seq = _concrete_seq(args[0])
                if seq is not None:
                    if obj.persistent:
                        self.w.effect(("heap_append", obj.tag, "extend"), node)
                    obj.items.extend(seq)
                    return NONE
            if name == "pop" and len(args) <= 1 and not getattr(obj, "has_prefix", False):
                i = args[0].v if args and isinstance(args[0], Const) and isinstance(args[0].v, int) else -1
                if not obj.items or not (-len(obj.items) <= i < len(obj.items)):
                    raise AbstractRaise("IndexError", node, detail="pop from empty list / bad index")
                if obj.persistent:
                    self.w.effect(("heap_del", obj.tag, i), node)
                return obj.items.pop(i)
            if name == "index" and len(args) == 1:
                for i, x in enumerate(obj.items):
                    if self.generic_eq(x, args[0], node):
                        return Const(i)
                raise AbstractRaise("ValueError", node, detail="value not in list")
            if name == "sort" and not args and set(kwargs) <= {"reverse", "key"} and not getattr(obj, "has_prefix", False):
                r = self.sort_seq(list(obj.items), kwargs, node)
                if r is not None:
                    if obj.persistent:
                        self.w.effect(("heap_write", obj.tag, "sort"), node)
                    obj.items[:] = r
                    return NONE
            if name == "reverse" and not args and not getattr(obj, "has_prefix", False):
                if obj.persistent:
                    self.w.effect(("heap_write", obj.tag, "reverse"), node)
                obj.items.reverse()
                return NONE
            if name == "copy" and not args:
                return ListObj(list(obj.items))
            if name == "count" and len(args) == 1:
                return Const(sum(1 for x in obj.items if self.generic_eq(x, args[0], node)))
            if name == "insert" and len(args) == 2 and isinstance(args[0], Const) and isinstance(args[0].v, int) \
                    and not getattr(obj, "has_prefix", False):
                if obj.persistent:
                    self.w.effect(("heap_append", obj.tag, "insert"), node)
                obj.items.insert(args[0].v, args[1])
                return NONE
            if name == "remove" and len(args) == 1:
                for i, x in enumerate(obj.items):
                    if self.generic_eq(x, args[0], node):
                        if obj.persistent:
                            self.w.effect(("heap_del", obj.tag, i), node)
                        del obj.items[i]
                        return NONE
                raise AbstractRaise("ValueError", node, detail="list.remove(x): x not in list")
            if name == "clear" and not args:
                if obj.persistent:
                    self.w.effect(("heap_del", obj.tag, "clear"), node)
                del obj.items[:]
                return NONE
            raise Unsupported(node, "list method %s" % name)
        if isinstance(obj, SetObj):
            if name == "add" and len(args) == 1:
                if args[0] not in obj.items:
                    obj.items.append(args[0])
                return NONE
            if name == "pop" and not args:
                if not obj.items:
                    raise AbstractRaise("KeyError", node, detail="pop from an empty set")
                return obj.items.pop(0)
            if name == "discard" and len(args) == 1:
                if args[0] in obj.items:
                    obj.items.remove(args[0])
                return NONE
            if name in ("update", "union", "intersection", "difference") and len(args) == 1:
                seq = _concrete_seq(args[0])
                if seq is None:
                    seq = _range_seq(args[0])
                if seq is not None:
                    if name == "update":
                        for x in seq:
                            if x not in obj.items:
                                obj.items.append(x)
                        return NONE
                    if name == "union":
                        return SetObj(obj.items + seq)
                    if name == "intersection":
                        return SetObj([x for x in obj.items if x in seq])
                    return SetObj([x for x in obj.items if x not in seq])
            raise Unsupported(node, "set method %s" % name)
        if isinstance(obj, DictObj):
            if name == "update" and len(args) == 1 and isinstance(args[0], DictObj):
                if obj.persistent:
                    self.w.effect(("heap_write", obj.tag, "update"), node)
                obj.entries.update(args[0].entries)
                return NONE
            if name == "update" and len(args) <= 1:
                pairs = self._seq(args[0], node) if args else []
                if pairs is not None and all(isinstance(x, (TupleV, ListObj)) and len(x.items) == 2 for x in pairs):
                    if obj.persistent:
                        self.w.effect(("heap_write", obj.tag, "update"), node)
                    for x in pairs:
                        obj.entries[self.dict_key(x.items[0], node)] = x.items[1]
                    for k, v in kwargs.items():
                        obj.entries[Const(k)] = v
                    return NONE
            if name == "get" and 1 <= len(args) <= 2:
                k = self.dict_key(args[0], node)
                if k in obj.entries:
                    return obj.entries[k]
                return args[1] if len(args) == 2 else NONE
            if name == "pop" and 1 <= len(args) <= 2:
                k = self.dict_key(args[0], node)
                if k in obj.entries:
                    if obj.persistent:
                        self.w.effect(("heap_del", obj.tag, repr(k)), node)
                    return obj.entries.pop(k)
                if len(args) == 2:
                    return args[1]
                raise AbstractRaise("KeyError", node, detail="pop of a missing key %r" % (k,))
            if name == "setdefault" and 1 <= len(args) <= 2:
                k = self.dict_key(args[0], node)
                if k not in obj.entries:
                    if obj.persistent:
                        self.w.effect(("heap_write", obj.tag, repr(k), "setdefault"), node)
                    obj.entries[k] = args[1] if len(args) == 2 else NONE
                return obj.entries[k]
            if name == "clear" and not args:
                if obj.persistent:
                    self.w.effect(("heap_del", obj.tag, "clear"), node)
                obj.entries.clear()
                return NONE
            if name == "items" and not args:
                return ListObj([TupleV([k, v]) for k, v in obj.entries.items()])
            if name == "keys" and not args:
                return ListObj(list(obj.entries.keys()))
            if name == "values" and not args:
                return ListObj(list(obj.entries.values()))
            raise Unsupported(node, "dict method %s" % name)
        if isinstance(obj, Const) and isinstance(obj.v, str) and not kwargs and name in (
                "join", "split", "rsplit", "strip", "lstrip", "rstrip", "lower", "upper", "startswith", "endswith", "replace", "format",
                "partition", "rpartition", "isdigit", "zfill", "title", "capitalize", "find", "index", "count"):
            plain = []
            ok = True
            for a in args:
                if isinstance(a, Const):
                    plain.append(a.v)
                elif isinstance(a, (ListObj, TupleV)) and all(isinstance(x, Const) for x in a.items):
                    plain.append([x.v for x in a.items] if isinstance(a, ListObj) else tuple(x.v for x in a.items))
                elif isinstance(a, IterV) and name == "join":
                    items = a.items[a.pos:]
                    if not all(isinstance(x, Const) for x in items):
                        ok = False
                        break
                    a.drain()
                    plain.append([x.v for x in items])
                else:
                    ok = False
                    break
            if ok:
                try:
                    r = getattr(obj.v, name)(*plain)
                except (TypeError, ValueError, IndexError) as ex:
                    raise AbstractRaise(type(ex).__name__, node, detail=str(ex))
                v = _from_py(r)
                if v is not None:
                    return v
        if isinstance(obj, SelfV) and kwargs:
            # a method of the analysed class called with keywords (directly or through functools.partial): hand the world the
            # same call in positional form, so that its model of the method does not depend on how the arguments were spelt
            fn = (getattr(self.w, "methods", None) or {}).get(name)
            if fn is not None and not fn.args.vararg and not fn.args.kwarg and not fn.args.kwonlyargs and not fn.args.posonlyargs:
                params = [a.arg for a in fn.args.args][1:]
                if all(k in params[len(args):] for k in kwargs):
                    defaults = dict(zip(params[len(params) - len(fn.args.defaults):], fn.args.defaults))
                    last = max(params.index(k) for k in kwargs)
                    full, ok = list(args), True
                    for p_ in params[len(args):last + 1]:
                        if p_ in kwargs:
                            full.append(kwargs[p_])
                        elif p_ in defaults and isinstance(defaults[p_], ast.Constant):
                            full.append(Const(defaults[p_].value))
                        else:
                            ok = False
                            break
                    if ok:
                        args, kwargs = full, {}
        return self.w.call_method(self, obj, name, args, kwargs, node)

    def _peek_ctx(self, e, env):
        """value of a context expression when it is (a conditional between) contextlib.closing(..) / nullcontext(..), else None;
        evaluated once and remembered on the node"""
        key = ("ctx", id(e), id(env))
        cache = self.__dict__.setdefault("_ctx_cache", {})
        if key in cache:
            return cache[key]
        val = None
        probe = e
        if isinstance(e, ast.IfExp):
            probe = e.body if self.truth(self.eval(e.test, env), e.test) else e.orelse
        if isinstance(probe, ast.Call) and not probe.keywords:
            f = probe.func
            dotted = None
            if isinstance(f, ast.Attribute) and isinstance(f.value, ast.Name) and IMPORTED_NAMES.get(f.value.id) == "contextlib":
                dotted = "contextlib." + f.attr
            elif isinstance(f, ast.Name):
                dotted = IMPORTED_NAMES.get(f.id)
            if dotted == "contextlib.closing" and len(probe.args) == 1:
                val = ClosingV(self.eval(probe.args[0], env))
            elif dotted == "contextlib.nullcontext" and len(probe.args) <= 1:
                val = NullCtxV(self.eval(probe.args[0], env) if probe.args else NONE)
        cache[key] = val
        return val

    def _suppressed(self, e):
        """exception names of a ``contextlib.suppress(..)`` / ``suppress(..)`` expression, else None"""
        if not (isinstance(e, ast.Call) and not e.keywords):
            return None
        f = e.func
        dotted = None
        if isinstance(f, ast.Attribute) and isinstance(f.value, ast.Name) and IMPORTED_NAMES.get(f.value.id) == "contextlib":
            dotted = "contextlib." + f.attr
        elif isinstance(f, ast.Name):
            dotted = IMPORTED_NAMES.get(f.id)
        if dotted != "contextlib.suppress":
            return None
        return {self.exc_name(a) for a in e.args}

    def exc_name(self, exc):
        if exc is None:
            return "reraise"
        if isinstance(exc, ast.Call):
            exc = exc.func
        if isinstance(exc, ast.Attribute):
            return exc.attr
        if isinstance(exc, ast.Name):
            return exc.id
        return "Exception"


def _bind(fn, pos, kwargs, ip, node):
    a = fn.args
    names = [x.arg for x in a.posonlyargs + a.args]
    kwonly = [x.arg for x in a.kwonlyargs]
    posonly = {x.arg for x in a.posonlyargs}
    env = {}
    pos = list(pos)
    if len(pos) > len(names):
        if a.vararg:
            env[a.vararg.arg] = TupleV(pos[len(names):])
            pos = pos[:len(names)]
        else:
            raise AbstractRaise("TypeError", node, detail="too many arguments for %s" % fn.name)
    elif a.vararg:
        env[a.vararg.arg] = TupleV([])
    for n, v in zip(names, pos):
        env[n] = v
    extra = {}
    for k, v in kwargs.items():
        if ((k in names and k not in posonly) or k in kwonly) and k not in env:
            env[k] = v
        elif a.kwarg and k not in names and k not in kwonly:
            extra[Const(k)] = v
        else:
            raise AbstractRaise("TypeError", node, detail="bad keyword %s for %s" % (k, fn.name))
    if a.kwarg:
        env[a.kwarg.arg] = DictObj(extra)
    for n, d in zip(names[len(names) - len(a.defaults):], a.defaults):
        if n not in env:
            env[n] = ip.eval(d, {})
    for n, d in zip(kwonly, a.kw_defaults):
        if n not in env and d is not None:
            env[n] = ip.eval(d, {})
    for n in names + kwonly:
        if n not in env:
            raise AbstractRaise("TypeError", node, detail="missing argument %s of %s" % (n, fn.name))
    return env


_GEN_CACHE = {}


def _is_generator(fn):
    k = id(fn)
    if k not in _GEN_CACHE:
        _GEN_CACHE[k] = (_is_generator_uncached(fn), fn)
    return _GEN_CACHE[k][0]


def _is_generator_uncached(fn):
    stack = list(fn.body)
    while stack:
        n = stack.pop()
        if isinstance(n, (ast.Yield, ast.YieldFrom)):
            return True
        if isinstance(n, (ast.FunctionDef, ast.AsyncFunctionDef, ast.Lambda, ast.ClassDef)):
            continue
        stack.extend(ast.iter_child_nodes(n))
    return False


def _from_py(x):
    if isinstance(x, (int, float, str, bool, bytes, type(None))):
        return Const(x)
    if isinstance(x, tuple):
        items = [_from_py(i) for i in x]
        return None if any(i is None for i in items) else TupleV(items)
    if isinstance(x, list):
        items = [_from_py(i) for i in x]
        return None if any(i is None for i in items) else ListObj(items)
    if isinstance(x, (set, frozenset)):
        items = [_from_py(i) for i in sorted(x, key=repr)]
        return None if any(i is None for i in items) else SetObj(items)
    if isinstance(x, dict):
        d = DictObj()
        for k, v in x.items():
            kk, vv = _from_py(k), _from_py(v)
            if kk is None or vv is None:
                return None
            d.entries[kk] = vv
        return d
    return None


def _fresh_copy(v):
    if isinstance(v, ListObj):
        return ListObj([_fresh_copy(i) for i in v.items])
    if isinstance(v, SetObj):
        return SetObj(list(v.items))
    if isinstance(v, DictObj):
        return DictObj({k: _fresh_copy(x) for k, x in v.entries.items()})
    return v


def _range_seq(v):
    """range(lo, hi) whose bounds differ by a known amount -> its elements"""
    if isinstance(v, RangeV):
        lo, hi = v.lo, v.hi
        if isinstance(lo, Int) and isinstance(hi, Int) and lo.base == hi.base and hi.k - lo.k <= 64:
            return [Int(lo.base, k) for k in range(lo.k, hi.k)]
        if isinstance(lo, Const) and isinstance(hi, Const) and isinstance(lo.v, int) and isinstance(hi.v, int) and hi.v - lo.v <= 64:
            return [Const(k) for k in range(lo.v, hi.v)]
    return None


def _concrete_seq(v):
    if isinstance(v, IterV):
        return v.drain()
    if isinstance(v, (ListObj, TupleV)) and not getattr(v, "has_prefix", False):
        return list(v.items)
    if isinstance(v, SetObj):
        return list(v.items)
    if isinstance(v, DictObj):
        return list(v.entries.keys())
    return None


def _pycmp(a, b, op):
    return {"<": a < b, "<=": a <= b, ">": a > b, ">=": a >= b, "==": a == b, "!=": a != b}[op]


def _as_load(t):
    import copy
    t2 = copy.copy(t)
    t2.ctx = ast.Load()
    return t2


def _tname(v, node):
    if isinstance(v, TypeV):
        return v.name
    raise Unsupported(node, "isinstance against %r" % (v,))


def _handler_names(h):
    if h.type is None:
        return None
    if isinstance(h.type, ast.Tuple):
        elts = h.type.elts
    else:
        elts = [h.type]
    out = set()
    for e in elts:
        if isinstance(e, ast.Attribute):
            out.add(e.attr)
        elif isinstance(e, ast.Name):
            out.add(e.id)
    return out


def run_all_choices(run_once, max_runs=4096, seed=None):
    """Drive ``run_once(choices)`` over every combination of lazily discovered choices."""
    results = []
    stack = [dict(seed or {})]
    runs = 0
    while stack:
        ch = stack.pop()
        runs += 1
        if runs > max_runs:
            raise AnalysisError("choice explosion (> %d runs)" % max_runs)
        try:
            results.append((ch, run_once(ch)))
        except Fork as f:
            for val in (True, False):
                c2 = dict(ch)
                c2[f.key] = val
                stack.append(c2)
    return results
