"""C17 by interpretation: inter-event distributions on a symbolic event stream; ratio statistics on a symbolic graph."""
from __future__ import annotations
import ast
import itertools
from fractions import Fraction
from .core import Repo, Report, CLASSES, DYNGRAPH, DYNDIGRAPH, AnalysisError
from .ordertype import OrderType
from .absint import (Interp, Int, Const, NONE, NodeV, SelfV, TupleV, ListObj, DictObj, IterV, AbstractRaise, Unsupported, Builtin,
                     run_all_choices, Opaque)
from .query_check import QueryWorld, Shape, SHAPES, Static, to_py, SnapView


def T(k):
    return Int("t", k)


STREAMS = [
    # (label, [(src, dst, op, offset)])  - times are t + offset: gaps are concrete, nodes symbolic
    ("five events, one tie", [("A", "B", "+", 0), ("B", "A", "+", 1), ("A", "C", "+", 3), ("C", "B", "+", 3), ("B", "C", "-", 7)]),
    ("equal gaps", [("A", "B", "+", 0), ("A", "C", "+", 2), ("C", "A", "+", 4), ("A", "B", "-", 6)]),
    ("three in- and out-events of A, unequal gaps", [("B", "A", "+", 0), ("A", "B", "+", 1), ("C", "A", "+", 2), ("A", "C", "+", 4), ("B", "A", "-", 7),
                                                     ("A", "B", "-", 11)]),
    ("single event", [("A", "B", "+", 5)]),
    ("empty stream", []),
]
TIMELINES = [
    ("two intervals", [(0, 2), (5, 5)]),
    ("one instant", [(4, 4)]),
    ("one long interval", [(1, 4)]),
    ("three intervals", [(0, 0), (2, 3), (9, 9)]),
]


class StreamWorld(QueryWorld):
    def __init__(self, cls, shape, choices, methods, functions, events, timeline):
        super().__init__(cls, shape, choices, methods, functions)
        self.events = events
        for k, d in self.dicts.items():
            d.entries[Const("t")] = ListObj([ListObj([T(a), T(b)]) for (a, b) in timeline], persistent=True, tag="timeline")

    def load_attr(self, ip, obj, attr, node):
        if isinstance(obj, SelfV) and attr == "time_to_edge":
            # the event log behind the stream; merges leave instants whose bucket is empty
            d = DictObj(persistent=True, tag="time_to_edge")
            for (s_, d_, op, k) in self.events:
                d.entries.setdefault(T(k), DictObj(persistent=True, tag="bucket")).entries[TupleV([NodeV(s_), NodeV(d_), Const(op)])] = NONE
            if self.events:
                d.entries.setdefault(T(self.events[0][3] + 100), DictObj(persistent=True, tag="bucket"))     # emptied by a merge
            return d
        return super().load_attr(ip, obj, attr, node)

    def node_equals_value(self, ip, n, v, node):
        """Is the id of node n the same value as this instant / string?  Node ids are arbitrary hashables (integer ids in the
        range of the snapshot ids are the common case), so both answers are explored - once per (node, value)."""
        if getattr(self, "id_collisions", None) != n.role:
            return False
        return self.choose(("node-id-equals", n.role, repr(v)))

    def call_method(self, ip, obj, name, args, kwargs, node):
        if isinstance(obj, SelfV) and name == "stream_interactions" and not args:
            return IterV([TupleV([NodeV(s), NodeV(d), Const(op), T(k)]) for (s, d, op, k) in self.events])
        return super().call_method(ip, obj, name, args, kwargs, node)


ZERO_WINDOW = (-2, 12)


def _zero_note(ch):
    for k, v in ch.items():
        if v and isinstance(k, tuple) and str(k[0]).startswith("zero-"):
            return " | the literal 0 %s" % ("is far below every instant" if k[0] == "zero-far-below" else (
                "is far above every instant" if k[0] == "zero-far-above" else "equals %s%+d" % (k[1], k[2])))
    return ""


def _hist(vals):
    h = {}
    for v in vals:
        h[v] = h.get(v, 0) + 1
    return h


def _gaps(times):
    return _hist([b - a for a, b in zip(times, times[1:])])


def check_inter_event(repo: Repo, rep: Report):
    variants = [("DynGraph", "inter_event_time_distribution", "both"), ("DynDiGraph", "inter_event_time_distribution", "both"),
                ("DynDiGraph", "inter_out_event_time_distribution", "out"), ("DynDiGraph", "inter_in_event_time_distribution", "in")]
    functions = {}
    n = 0
    ot = OrderType([["t"]], [], 2)
    for cls, name, side in variants:
        rel = CLASSES[cls]
        methods = repo.class_methods(rel, cls)
        if name not in methods:
            raise AnalysisError("anchor vanished: %s.%s" % (cls, name))
        fn = methods[name]
        construct = repo.construct(rel, cls + "." + name)
        directed = cls == "DynDiGraph"
        shape = Shape("A-B, A-C", ["A", "B", "C"], [("A", "B"), ("A", "C")] + ([("B", "A")] if directed else []), directed)

        def run(env, events, timeline):
            """every placement of the literal 0 among the instants when the code looks at the truth of an instant or compares it
            with a literal; a verdict is the first deviating placement (or the plain run)"""
            def once(ch):
                w = StreamWorld(cls, shape, ch, methods, functions, events, timeline)
                w.lazy_zero_window = ZERO_WINDOW
                ip = Interp(w, ot, max_depth=6)
                try:
                    return to_py(ip.call_function(fn, env)), None
                except AbstractRaise as r:
                    return None, r
            res = run_all_choices(once, max_runs=64)
            want_ = run.want
            for ch, (got_, r_) in res:
                if r_ is not None or got_ != want_:
                    run.zero = _zero_note(ch)
                    return got_, r_
            run.zero = ""
            return res[0][1]
        for label, events in STREAMS:
            # global
            n += 1
            want = run.want = _gaps([k for (_, _, _, k) in events])
            got, r = run({"self": SelfV(), "u": NONE, "v": NONE}, events, TIMELINES[0][1])
            _cmp(rep, construct, "global", label + run.zero, got, r, want)
            # per node
            for node in ("A", "B", "D"):
                n += 1
                sel = [k for (s, d, _, k) in events if (side in ("both", "out") and s == node) or (side in ("both", "in") and d == node)]
                run.want = _gaps(sel)
                got, r = run({"self": SelfV(), "u": NodeV(node), "v": NONE}, events, TIMELINES[0][1])
                _cmp(rep, construct, "node(%s)" % side, "%s, node %s%s" % (label, node, run.zero), got, r, _gaps(sel))
                if node == "A" and events:
                    # the id of the queried node may coincide with an instant or an op string of the stream
                    def once(ch, events=events):
                        w = StreamWorld(cls, shape, ch, methods, functions, events, TIMELINES[0][1])
                        w.id_collisions = "A"
                        w.lazy_zero_window = ZERO_WINDOW
                        ip = Interp(w, ot, max_depth=6)
                        try:
                            return to_py(ip.call_function(fn, {"self": SelfV(), "u": NodeV("A"), "v": NONE})), None
                        except AbstractRaise as r_:
                            return None, r_
                    for ch, (got2, r2) in run_all_choices(once, max_runs=64):
                        if any(v_ for k_, v_ in ch.items() if not str(k_[0]).startswith("zero-")):
                            _cmp(rep, construct, "node(%s):id-equals-a-value-of-the-stream" % side, "%s, node A whose id equals %s" % (
                                label, [k[2] for k, v_ in ch.items() if v_]), got2, r2, _gaps(sel))
        for label, tl in TIMELINES:
            n += 1
            pts = []
            for (a, b) in tl:
                pts += [a] if a == b else [a, b]
            want = {} if (len(pts) == 2 and pts[0] == pts[1]) else _gaps(pts)
            u, v = ("A", "B")
            if side == "in":
                u, v = "B", "A"         # the pair is looked up in the predecessor table of u
            run.want = want
            got, r = run({"self": SelfV(), "u": NodeV(u), "v": NodeV(v)}, STREAMS[0][1], tl)
            _cmp(rep, construct, "pair", "%s %s%s" % (label, tl, run.zero), got, r, want)
        rep.ob("O.inter_event", construct, "global / per-node / per-pair distributions on %d streams and %d timelines" % (len(STREAMS), len(TIMELINES)))
    rep.sample(dict(engine="O", what="inter-event distributions", streams=[s[0] for s in STREAMS], timelines=[t[1] for t in TIMELINES]))
    return n


def _cmp(rep, construct, branch, label, got, r, want):
    if r is not None:
        rep.finding("O.inter_event", construct, "%s:raises:%s" % (branch, r.exc), "%s branch raises %s (%s) on the stream '%s'" % (branch, r.exc, r.detail, label),
                    witness=label, line=getattr(r.node, "lineno", 0))
        return
    if got != want:
        mass_ok = isinstance(got, dict) and sum(got.values()) == sum(want.values())
        rep.finding("O.inter_event", construct, "%s:%s" % (branch, "wrong-gaps" if mass_ok else "wrong-mass"),
                    "%s branch: the distribution of gaps between consecutive selected events is %s, the code answers %s" % (branch, want, got),
                    witness=label)


# ---------------------------------------------------------------------------------------------------
class StatWorld(QueryWorld):
    def __init__(self, *a, **k):
        super().__init__(*a, **k)
        # two snapshot ids with a silent gap between them (t+1 and t+4): |T| = 2, span = 4
        self.ids = [Int("t", 1), Int("t", 4)]

    def call_method(self, ip, obj, name, args, kwargs, node):
        if isinstance(obj, SnapView) and name == "keys" and not args:
            from .absint import SetObj
            return SetObj(list(self.ids))       # a keys view: iterable in insertion order, supports & | -
        return super().call_method(ip, obj, name, args, kwargs, node)

    def load_attr(self, ip, obj, attr, node):
        if isinstance(obj, SnapView):
            from .absint import BoundMethod
            return BoundMethod(obj, attr)
        return super().load_attr(ip, obj, attr, node)

    def concretise_iter(self, ip, it, node):
        if isinstance(it, SnapView):
            return ListObj(list(self.ids))
        return super().concretise_iter(ip, it, node)

    def call_builtin(self, ip, name, args, kwargs, node):
        if name == "len" and len(args) == 1 and isinstance(args[0], SnapView):
            return Const(len(self.ids))
        if name == "combinations" and len(args) == 2 and isinstance(args[1], Const):
            seq = ip._seq(args[0], node)
            if seq is None:
                return None
            return IterV([TupleV(list(c)) for c in itertools.combinations(seq, args[1].v)])
        return super().call_builtin(ip, name, args, kwargs, node)

    def resolve_name(self, ip, name, node):
        if name == "combinations":
            return Builtin("combinations")
        return super().resolve_name(ip, name, node)


class SnapshotOf:
    """self.time_slice(t): the graph of the interactions present at t (C06 decides time_slice itself)"""

    def __init__(self, lo, hi):
        self.lo, self.hi = lo, hi

    def __repr__(self):
        return "slice[%r, %r]" % (self.lo, self.hi)


class RatioWorld(StatWorld):
    """Snapshot ids t-2, t+1 .. t+5, t+8 (|T| = 7, span 11): every stored pair is present at the two outer ids, its presence
    at the three inner ones is the valuation; the timelines are materialised accordingly (runs, nested runs, gaps), so a
    statistic computed from the stored spans sees the same facts as one computed through the presence test."""
    INNER = (1, 2, 3, 4, 5)

    def __init__(self, *a, **k):
        super().__init__(*a, **k)
        inner = [T(o) for o in self.INNER]
        self.materialise_timelines(inner)
        self.ids = [T(self.INNER[0] - 3)] + inner + [T(self.INNER[-1] + 3)]

    def call_method(self, ip, obj, name, args, kwargs, node):
        if isinstance(obj, SnapshotOf):
            # the slice is a DynGraph holding the interactions present in the window (C06): what networkx.density asks of it
            n_, m_ = self._slice_counts(obj)
            if name in ("number_of_nodes", "order", "__len__") and not args:
                return Const(n_)
            if name in ("number_of_edges", "size", "number_of_interactions") and not args:
                return Const(m_)
            if name == "is_directed" and not args:
                return Const(False)
            if name == "is_multigraph" and not args:
                return Const(False)
            raise Unsupported(node, "method %s of a slice inside a statistic" % name)
        if isinstance(obj, SelfV) and name == "time_slice" and not isinstance(obj, SnapshotOf):
            lo = args[0] if args else kwargs.get("t_from")
            hi = args[1] if len(args) > 1 else kwargs.get("t_to", NONE)
            if isinstance(lo, Int) and isinstance(hi, Const) and hi.v is None:
                return SnapshotOf(lo, lo)
            if isinstance(lo, Int) and isinstance(hi, Int) and hi.base == lo.base:
                if hi.k < lo.k:
                    raise AbstractRaise("ValueError", node, explicit=True, detail="time_slice: t_to < t_from")
                return SnapshotOf(lo, hi)
            raise Unsupported(node, "time_slice(%r, %r) inside a statistic" % (lo, hi))
        return super().call_method(ip, obj, name, args, kwargs, node)

    def _slice_counts(self, sl):
        window = [t for t in self.ids if t.base == sl.lo.base and sl.lo.k <= t.k <= sl.hi.k]
        pairs = [k for k in sorted({self.shape.key(*e) for e in self.shape.edges}, key=str) if any(self.present(k[0], k[1], t) for t in window)]
        return len({x for k in pairs for x in k}), len(pairs)

    def load_attr(self, ip, obj, attr, node):
        if isinstance(obj, SnapshotOf):
            from .absint import BoundMethod
            return BoundMethod(obj, attr)
        return super().load_attr(ip, obj, attr, node)

    def call(self, ip, f, args, kwargs, node):
        if isinstance(f, Opaque) and f.tag in ("module:nx.number_of_nodes", "module:nx.number_of_edges", "module:nx.is_directed") \
                and len(args) == 1 and isinstance(args[0], SnapshotOf):
            return self.call_method(ip, args[0], f.tag.rsplit(".", 1)[1], [], {}, node)
        if isinstance(f, Opaque) and f.tag in ("module:nx.density", "module:networkx.density") and len(args) == 1 and isinstance(args[0], SnapshotOf):
            # networkx.density of an undirected simple graph: 2m / (n (n - 1)), 0 for fewer than two nodes
            window = [t for t in self.ids if t.base == args[0].lo.base and args[0].lo.k <= t.k <= args[0].hi.k]
            pairs = [k for k in sorted({self.shape.key(*e) for e in self.shape.edges}, key=str) if any(self.present(k[0], k[1], t) for t in window)]
            n_, m_ = len({x for k in pairs for x in k}), len(pairs)
            return Const(0 if n_ <= 1 else 2 * m_ / (n_ * (n_ - 1)))
        return super().call(ip, f, args, kwargs, node)


def check_ratio_statistics(repo: Repo, rep: Report, tier="quick"):
    """coverage, node_contribution, uniformity, node_pair_uniformity, density, pair_density, node_presence on the path
    A-B-C + isolated D with five snapshot ids; presence of each pair at the inner ids is an uninterpreted predicate."""
    cls, rel = "DynGraph", DYNGRAPH
    methods = repo.class_methods(rel, cls)
    shape = SHAPES[False][0]
    inner = [repr(T(o)) for o in RatioWorld.INNER]
    outer = [repr(T(RatioWorld.INNER[0] - 3)), repr(T(RatioWorld.INNER[-1] + 3))]
    ids = [outer[0]] + inner + [outer[1]]
    keys = sorted({shape.key(*e) for e in shape.edges}, key=str)
    ot = OrderType([["q"], ["t"]], [None], 12)
    n = 0
    specs = {
        "coverage": ((), lambda P: Fraction(sum(len(P.V(t)) for t in ids), len(ids) * len(shape.nodes))),
        "node_contribution": (("B",), lambda P: Fraction(len(P.Tn("B")), len(ids))),      # B: two incident pairs (nested / staggered runs)
        "uniformity": ((), lambda P: _ratio(sum(len(P.Tn(u) & P.Tn(v)) for u, v in itertools.combinations(shape.nodes, 2)),
                                           sum(len(P.Tn(u) | P.Tn(v)) for u, v in itertools.combinations(shape.nodes, 2)))),
        "node_pair_uniformity": (("A", "B"), lambda P: _ratio(len(P.Tn("A") & P.Tn("B")), len(P.Tn("A") | P.Tn("B")))),
        "density": ((), lambda P: _ratio(sum(len(P.Te(u, v)) for u, v in itertools.combinations(shape.nodes, 2)),
                                        sum(len(P.Tn(u) & P.Tn(v)) for u, v in itertools.combinations(shape.nodes, 2)))),
        "pair_density": (("A", "B"), lambda P: _ratio(len(P.Te("A", "B")), len(P.Tn("A") & P.Tn("B")), zero_ok=True)),
        "node_presence": (("B",), lambda P: P.Tn("B")),
        # the statement gives no formula for node_density; the one used is the one the pinned suite fixes (test_density: 5/9):
        # sum_t deg_t(u) / sum_{v in V} |T_v & T_u|, v = u included (Latapy's delta(u) leaves that term out)
        "node_density": (("B",), lambda P: _ratio(sum(len(P.Te(*k)) for k in P.keys() if "B" in k),
                                                  sum(len(P.Tn(v) & P.Tn("B")) for v in shape.nodes))),
        # |E_t| / C(|V_t|, 2) at an inner id (the valuation decides) and at an outer one (everything present)
        "snapshot_density": ((T(3),), lambda P: _ratio(len(P.E(repr(T(3)))), len(P.V(repr(T(3)))) * (len(P.V(repr(T(3)))) - 1) // 2, zero_ok=True)),
    }
    for name, (args, ref) in specs.items():
        if name not in methods:
            raise AnalysisError("anchor vanished: DynGraph.%s" % name)
        fn = methods[name]
        construct = repo.construct(rel, cls + "." + name)
        params = [a.arg for a in fn.args.args][1:]
        if tier == "quick":
            # runs, a run with holes, nested runs (one pair's run inside the other's), staggered and disjoint runs
            patterns = [(), (1, 2, 3, 4, 5), (2, 4), (1, 2), (3,), (4, 5), (1, 3, 5)]
        else:
            patterns = [tuple(o for o, b in zip(RatioWorld.INNER, bits) if b) for bits in itertools.product((0, 1), repeat=len(inner))]
        for combo in itertools.product(patterns, repeat=len(keys)):
            seed = {}
            for k, on in zip(keys, combo):
                for o, t in zip(RatioWorld.INNER, inner):
                    seed[("present", k, t)] = o in on
                for t in outer:
                    seed[("present", k, t)] = True
            n += 1

            def once(ch):
                w = RatioWorld(cls, shape, ch, methods, {})
                ip = Interp(w, ot, max_depth=10)
                env = {"self": SelfV()}
                env.update({p: (NodeV(a) if isinstance(a, str) else a) for p, a in zip(params, args)})
                try:
                    return ip.call_function(fn, env), None
                except AbstractRaise as r:
                    return None, r
            P = _Pres(shape, seed, ids)
            want = ref(P)
            for ch, (val, r) in run_all_choices(once, max_runs=64, seed=seed):
                wit = "%s | presence: %s" % (shape.name, ", ".join("%s-%s@%s" % (k[1][0], k[1][1], k[2]) for k, v in sorted(seed.items(), key=str) if v) or "none")
                if want is None:
                    continue        # zero denominator: outside the property's quantifier
                if r is not None:
                    rep.finding("Q.statistics", construct, "raises:%s" % r.exc, "%s raises %s (%s)" % (name, r.exc, r.detail), witness=wit,
                                line=getattr(r.node, "lineno", 0))
                    continue
                got = to_py(val)
                if isinstance(want, set):
                    ok = isinstance(got, dict) and set(got.get("__set__", [])) == want
                else:
                    ok = isinstance(got, (int, float)) and abs(got - float(want)) < 1e-12
                if not ok:
                    rep.finding("Q.statistics", construct, "wrong-value", "%s answers %s, its stream-graph definition gives %s" % (
                        name, got, want if not isinstance(want, Fraction) else "%s (= %.4f)" % (want, float(want))), witness=wit)
        rep.ob("Q.statistics", construct, "definition matched on %d presence valuations over 7 snapshot ids" % (len(patterns) ** len(keys)))
    return n


def _ratio(num, den, zero_ok=False):
    if den == 0:
        return Fraction(0) if zero_ok else None
    return Fraction(num, den)


class _Pres:
    def __init__(self, shape, seed, ids):
        self.shape, self.seed, self.ids = shape, seed, ids

    def Te(self, u, v):
        k = self.shape.key(u, v)
        return {t for t in self.ids if self.seed.get(("present", k, t))}

    def Tn(self, n):
        out = set()
        for (u, v) in self.shape.edges:
            if n in (u, v):
                out |= self.Te(u, v)
        return out

    def V(self, t):
        return {n for n in self.shape.nodes if t in self.Tn(n)}

    def keys(self):
        return sorted({self.shape.key(*e) for e in self.shape.edges}, key=str)

    def E(self, t):
        return {k for k in {self.shape.key(*e) for e in self.shape.edges} if self.seed.get(("present", k, t))}
