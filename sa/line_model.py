"""Parsers, read_ids and the open_file decorator interpreted on *abstract text lines* (C18, C09, C10).

A line of an edge-list file is modelled structurally:

    LineV(fields, lead, trail, nl, comment)      fields : symbolic tokens (u, v, t, e, op, extra)
                                                 lead / trail : surrounding blanks     nl : trailing newline
                                                 comment : None | 'start' (marker at column 0) | 'after'

with the string operations the readers use: ``find(comments)`` (-1, 0 or a positive position),
slicing up to that position, ``len`` (zero iff the text is empty), ``strip / rstrip / lstrip``,
``split(delimiter[, maxsplit])`` for ``delimiter=None`` (whitespace) and for an explicit
delimiter (blanks around the row then stay inside the first / last field, a blank line yields
one empty-ish field).  Tokens are converted by the opaque callables nodetype / timestamptype,
which either succeed or raise an *arbitrary* exception (a choice), and ranked through ``keys``.
The graph being built is a recording object.

For every row shape of the grammar (valid, 4-column, trailing comment, comment only, empty,
blank, short, extra columns, padded) x delimiter x nodetype / timestamptype / keys given or not,
the interpreted outcome must be: skip silently, or exactly one add_interaction with the converted
/ ranked fields of the right columns, or TypeError when a conversion fails.
"""
from __future__ import annotations
import ast
import itertools
from .core import Repo, Report, CLASSES, EDGELIST, DECORATORS, AnalysisError, src
from .ordertype import OrderType
from .absint import (Interp, Int, Const, NONE, TRUE, FALSE, NodeV, SelfV, TupleV, ListObj, DictObj, SetObj, IterV, AbstractRaise,
                     Unsupported, Opaque, BoundMethod, Builtin, TypeV, PyFunc, LambdaV, run_all_choices, Fork, lookup_function)
from .world_graph import AdjMap
from .ctor_check import CtorWorld, CtorInterp, NewGraph, ClassRef


class Tok:
    """A field of a row (a str).  dirty: carries blanks / newline / glued extra columns."""
    hashable_value = True
    python_type = "str"

    def __init__(self, name, text=None, dirty=None, conv=(), ranked=False):
        self.name, self.text, self.dirty, self.conv, self.ranked = name, text, dirty, tuple(conv), ranked

    def but(self, **kw):
        d = dict(name=self.name, text=self.text, dirty=self.dirty, conv=self.conv, ranked=self.ranked)
        d.update(kw)
        return Tok(**d)

    def __repr__(self):
        s = self.name if self.text is None else "%s=%r" % (self.name, self.text)
        if self.dirty:
            s += "<%s>" % self.dirty
        for c in self.conv:
            s = "%s(%s)" % (c, s)
        return "rank[%s]" % s if self.ranked else s

    def __eq__(self, o):
        return isinstance(o, Tok) and (o.name, o.conv, o.ranked, o.dirty) == (self.name, self.conv, self.ranked, self.dirty)

    def __hash__(self):
        return hash(("Tok", self.name, self.conv, self.ranked, self.dirty))


class LineV:
    python_type = "str"

    def __init__(self, fields, lead=False, trail=False, nl=True, comment=None, sep="ws", comment_fields=None):
        self.fields, self.lead, self.trail, self.nl, self.comment, self.sep = list(fields), lead, trail, nl, comment, sep
        self.comment_fields = comment_fields      # the words of the comment text, when they matter (a commented-out row)

    def but(self, **kw):
        d = dict(fields=self.fields, lead=self.lead, trail=self.trail, nl=self.nl, comment=self.comment, sep=self.sep,
                 comment_fields=self.comment_fields)
        d.update(kw)
        return LineV(**d)

    def empty_text(self):
        return not self.fields and not self.lead and not self.trail and not self.nl and self.comment is None

    def __repr__(self):
        body = (" " if self.sep == "ws" else ",").join(f.name for f in self.fields)
        return "%r" % ("%s%s%s%s%s" % ("  " if self.lead else "", body, "  " if self.trail else "",
                                       "" if self.comment is None else ("#c" if self.comment == "glued" else "# c"), "\\n" if self.nl else ""))


class PosV:
    """Result of line.find(marker): 'zero' (column 0) or 'positive'."""

    def __init__(self, kind, line):
        self.kind, self.line = kind, line


class PosNear:
    """p - 1 / p + 1 for a marker position p"""

    def __init__(self, pos, delta):
        self.pos, self.delta = pos, delta


class CharV:
    """One character of a line: only its class is known."""
    python_type = "str"

    def __init__(self, space):
        self.space = space

    def __repr__(self):
        return "<%s character>" % ("blank" if self.space else "non-blank")


class LenLine:
    def __init__(self, zero):
        self.zero = zero


class Converter:
    def __init__(self, name):
        self.name = name

    def __repr__(self):
        return "<%s>" % self.name


class RankMap:
    def __repr__(self):
        return "keys"


class FileV:
    def __init__(self, lines, name="f"):
        self.lines, self.closed = lines, False


class LineWorld(CtorWorld):
    """CtorWorld (recording result graph) + the text model."""

    def __init__(self, cfg, ot, choices, methods, all_methods):
        super().__init__(cfg, ot, choices, methods, all_methods)
        self.string_compares = []
        self.handled = []
        self.rank_requests = []
        self.collected = None

    # -- names ------------------------------------------------------------------
    def resolve_name(self, ip, name, node):
        if name == "open":
            return Builtin("open")
        if name in ("compact_timeslot",):
            return Builtin("compact_timeslot")
        return super().resolve_name(ip, name, node)

    def on_handler(self, ip, r, handler):
        self.handled.append(r.exc)

    # -- attributes / methods on text ----------------------------------------------
    def load_attr(self, ip, obj, attr, node):
        if isinstance(obj, (LineV, Tok, FileV, CharV)):
            return BoundMethod(obj, attr)
        if isinstance(obj, NewGraph) and attr in ("adj", "_adj", "succ", "_succ"):
            return AdjMap("succ" if self.directed else "adj")
        return super().load_attr(ip, obj, attr, node)

    def call_method(self, ip, obj, name, args, kwargs, node):
        if isinstance(obj, LineV):
            if name in ("find", "index") and len(args) == 2 and isinstance(args[1], PosNear) and args[1].delta > 0:
                # a second marker after the first one: the modelled lines carry one marker
                if name == "index":
                    raise AbstractRaise("ValueError", node, detail="substring not found")
                return Const(-1)
            if name in ("find", "index") and len(args) == 1:
                if obj.comment is None:
                    if name == "index":
                        raise AbstractRaise("ValueError", node, detail="substring not found")
                    return Const(-1)
                return PosV("zero" if obj.comment == "start" and not obj.lead else "positive", obj)
            if name in ("partition", "rpartition") and len(args) == 1 and isinstance(args[0], Const) and args[0].v == self.cfg.get("marker", "#"):
                if obj.comment is None:
                    empty = LineV([], lead=False, trail=False, nl=False, comment=None, sep=obj.sep)
                    return TupleV([obj, empty, empty]) if name == "partition" else TupleV([empty, empty, obj])
                if name == "rpartition":
                    raise Unsupported(node, "rpartition at the comment marker")
                return TupleV([self.before_marker(obj), args[0], Opaque("comment text")])
            if name in ("strip", "rstrip", "lstrip"):
                chars = args[0].v if args and isinstance(args[0], Const) else None
                new = obj
                if name in ("strip", "lstrip") and chars is None:
                    new = new.but(lead=False)
                if name in ("strip", "rstrip"):
                    if chars is None:
                        new = new.but(trail=False, nl=False)
                    elif set(chars) <= set("\r\n"):
                        new = new.but(nl=False)             # blanks stay
                    else:
                        raise Unsupported(node, "strip(%r)" % chars)
                return new
            if name == "split":
                delim = args[0] if args else kwargs.get("sep", NONE)
                maxsplit = args[1] if len(args) > 1 else kwargs.get("maxsplit")
                return self.split(obj, delim, maxsplit, node)
            if name in ("decode", "encode"):
                return obj
        if isinstance(obj, CharV) and name == "isspace" and not args:
            return Const(obj.space)
        if isinstance(obj, FileV):
            if name in ("close", "flush"):
                obj.closed = name == "close" or obj.closed
                return NONE
            if name in ("readlines",):
                return ListObj(list(obj.lines))
        if isinstance(obj, RankMap) and name == "get":
            return self.rank(args[0], node)
        return super().call_method(ip, obj, name, args, kwargs, node)

    def before_marker(self, line):
        """the text in front of the comment marker"""
        if line.comment == "start" and not line.lead:
            return LineV([], lead=False, trail=False, nl=False, comment=None, sep=line.sep)
        return line.but(comment=None, trail=(bool(line.fields) and line.comment != "glued") or (line.trail and line.comment != "glued")
                        or (line.comment == "start" and line.lead), nl=False)

    def split(self, line, delim, maxsplit, node):
        if isinstance(delim, Const) and delim.v == self.cfg.get("marker", "#") and line.sep != "marker":
            # cutting at the comment marker: 'text # comment'.split('#', 1)
            if line.comment is None:
                return ListObj([line])
            k = maxsplit.v if isinstance(maxsplit, Const) and isinstance(maxsplit.v, int) else -1
            if k != 1:
                raise Unsupported(node, "split at the comment marker without maxsplit=1")
            return ListObj([self.before_marker(line), Opaque("comment text")])
        glued = line.comment == "glued" and bool(line.fields)
        if line.comment is not None and not glued:
            # splitting a line that still carries its comment: the comment words become fields
            if line.comment_fields:
                extra = [line.comment_fields[0].but(dirty="glued-to-the-marker")] + list(line.comment_fields[1:])
            else:
                extra = [Tok("comment-word", dirty="comment")]
        else:
            extra = []
        if glued:
            # the marker and the comment stick to the last field
            line = line.but(fields=list(line.fields[:-1]) + [line.fields[-1].but(dirty="glued-comment")])
        if isinstance(delim, Const) and delim.v is None:
            toks = list(line.fields) + extra
        elif isinstance(delim, Const) and isinstance(delim.v, str):
            if line.sep != "delim":
                raise Unsupported(node, "explicit delimiter on a whitespace separated line")
            if not line.fields:
                # a blank line: '' -> [''] ; '  \\n' -> ['  \\n']
                toks = [Tok("blank", text="", dirty=None if not (line.lead or line.trail or line.nl) else "blank")] + extra
            else:
                toks = [f for f in line.fields]
                if line.lead:
                    toks[0] = toks[0].but(dirty="leading-blank")
                if line.trail or line.nl:
                    toks[-1] = toks[-1].but(dirty="trailing-blank-or-newline")
                toks += extra
        else:
            raise Unsupported(node, "split on %r" % (delim,))
        if maxsplit is not None:
            if not (isinstance(maxsplit, Const) and isinstance(maxsplit.v, int)):
                raise Unsupported(node, "maxsplit")
            k = maxsplit.v
            if k >= 0 and len(toks) > k + 1:
                toks = toks[:k] + [toks[k].but(dirty="glued-with-%d-more-columns" % (len(toks) - k - 1))]
        return ListObj(toks)

    def load_slice(self, ip, obj, sl, env, node):
        if isinstance(obj, LineV) and sl.lower is None and sl.step is None and sl.upper is not None:
            p = ip.eval(sl.upper, env)
            if isinstance(p, PosV):
                if p.kind == "zero":
                    return LineV([], lead=False, trail=False, nl=False, comment=None, sep=obj.sep)
                # text before the marker: the fields, possibly followed by the blanks that separated them from the marker
                return self.before_marker(obj)
            if isinstance(p, Const) and p.v == -1:
                # line[:-1] chops the last character
                raise Unsupported(node, "line[:-1]")
        return super().load_slice(ip, obj, sl, env, node)

    def call_builtin(self, ip, name, args, kwargs, node):
        if name == "len" and len(args) == 1 and isinstance(args[0], LineV):
            return LenLine(args[0].empty_text())
        if name == "open" and args:
            f = self.cfg.get("file")
            if f is None:
                raise Unsupported(node, "open() in a world without a file")
            return f
        if name == "compact_timeslot" and len(args) == 1:
            seq = args[0]
            items = seq.drain() if isinstance(seq, IterV) else (list(seq.items) if isinstance(seq, (ListObj, SetObj)) else
                                                               (list(seq.entries.keys()) if isinstance(seq, DictObj) else None))
            if items is None:
                raise Unsupported(node, "compact_timeslot(%r)" % (seq,))
            self.collected = items
            return RankMap()
        if name in ("str",) and len(args) == 1:
            return args[0]
        return super().call_builtin(ip, name, args, kwargs, node)

    def concretise_iter(self, ip, it, node):
        if isinstance(it, FileV):
            return ListObj(list(it.lines))
        return super().concretise_iter(ip, it, node)

    def compare(self, ip, a, sym, b, node):
        if isinstance(a, PosV) and isinstance(b, Const) and isinstance(b.v, int):
            c = b.v
            val_lo = 0 if a.kind == "zero" else 1          # 'positive' means >= 1 (exact value irrelevant for c <= 0)
            if a.kind == "zero":
                return {"<": 0 < c, "<=": 0 <= c, ">": 0 > c, ">=": 0 >= c, "==": 0 == c, "!=": 0 != c}[sym]
            if c <= 0:
                return {"<": False, "<=": False, ">": True, ">=": True, "==": False, "!=": True}[sym]
            raise Unsupported(node, "comparison of a column position with %d" % c)
        if isinstance(a, LenLine) and isinstance(b, Const) and isinstance(b.v, int):
            if b.v == 0:
                z = a.zero
                return {"==": z, "!=": not z, ">": not z, "<=": z, "<": False, ">=": True}[sym]
            if b.v == 1 and sym in ("<", ">="):
                return a.zero if sym == "<" else not a.zero
            raise Unsupported(node, "length of a line compared with %d" % b.v)
        if isinstance(a, Tok) or isinstance(b, Tok):
            if sym in ("==", "!="):
                if isinstance(a, Tok) and isinstance(b, Const) and a.text is not None:
                    r = a.text == b.v and not a.dirty
                    return r if sym == "==" else not r
                if isinstance(b, Tok) and isinstance(a, Const) and b.text is not None:
                    r = b.text == a.v and not b.dirty
                    return r if sym == "==" else not r
            raw = [x for x in (a, b) if isinstance(x, Tok) and not x.conv]
            if sym in ("<", "<=", ">", ">=") and raw:
                self.string_compares.append((repr(a), sym, repr(b), getattr(node, "lineno", 0)))
            return self.choose(("token-compare", repr(a), sym, repr(b)))
        return super().compare(ip, a, sym, b, node)

    def contains(self, ip, container, x, node):
        if isinstance(x, Tok) and isinstance(container, (ListObj, TupleV)) and all(isinstance(c, Const) for c in container.items):
            return any(x.text == c.v and not x.dirty for c in container.items) if x.text is not None else False
        if isinstance(container, RankMap):
            return True
        return super().contains(ip, container, x, node)

    def truth_of(self, ip, v):
        if isinstance(v, Tok) and (v.conv or v.ranked):
            # a converted field is whatever the converter made of it: int("0") and the rank of the smallest timestamp are falsy
            return not self.choose(("zero-valued-field", v.name))
        return super().truth_of(ip, v)

    def truthy_len(self, v):
        return None

    def rank(self, tok, node):
        self.rank_requests.append(tok)
        if isinstance(tok, Tok):
            return tok.but(ranked=True)
        if isinstance(tok, Int):
            return tok
        raise Unsupported(node, "keys[%r]" % (tok,))

    def load_subscript(self, ip, obj, key, node):
        if isinstance(obj, RankMap):
            return self.rank(key, node)
        if isinstance(obj, LineV) and isinstance(key, PosNear) and key.delta == -1 and key.pos.kind == "positive":
            # the character in front of the marker: a blank unless the comment is glued to a field
            return CharV(space=obj.comment != "glued")
        return super().load_subscript(ip, obj, key, node)

    def binop(self, ip, a, op, b, node):
        if isinstance(a, PosV) and isinstance(b, Const) and b.v == 1 and isinstance(op, (ast.Add, ast.Sub)):
            return PosNear(a, 1 if isinstance(op, ast.Add) else -1)
        return super().binop(ip, a, op, b, node)

    def call(self, ip, f, args, kwargs, node):
        if isinstance(f, Converter):
            if len(args) != 1:
                raise Unsupported(node, "converter call")
            x = args[0]
            fails = self.choose(("conversion-fails", f.name, repr(x))) if not (isinstance(x, Tok) and x.dirty) else \
                self.choose(("conversion-of-dirty-field-fails", f.name, repr(x)))
            if fails:
                raise AbstractRaise("SomeConversionError", node, detail="%s(%r) fails with an arbitrary exception" % (f.name, x))
            if isinstance(x, Tok):
                return x.but(conv=x.conv + (f.name,))
            return x
        return super().call(ip, f, args, kwargs, node)


class LenTruth:
    pass


def _interp_truth_patch():
    """LenLine is used as a truth value (``if not len(line)``)."""
    from . import absint
    orig = absint.truth

    def truth2(v, node=None):
        if isinstance(v, LenLine):
            return not v.zero
        if isinstance(v, (LineV,)):
            return not v.empty_text()
        if isinstance(v, Tok):
            return not (v.text == "")
        return orig(v, node)
    absint.truth = truth2


_interp_truth_patch()


# ---------------------------------------------------------------------------------------------------
def row_shapes(fmt, sep):
    """(label, LineV, expectation) for the row grammar of a format.  expectation: None = skipped, or the list of field
    names that reach add_interaction as (u, v, t, e)."""
    def T(n, text=None):
        return Tok(n, text=text)
    if fmt == "snapshots":
        base = [T("u"), T("v"), T("t")]
        four = base + [T("e")]
        shapes = [
            ("valid 3 columns", LineV(base, sep=sep), ("u", "v", "t", None)),
            ("valid 4 columns", LineV(four, sep=sep), ("u", "v", "t", "e")),
            ("extra 5th column", LineV(four + [T("x")], sep=sep), ("u", "v", "t", "e")),
            ("2 columns", LineV(base[:2], sep=sep), None),
            ("1 column", LineV(base[:1], sep=sep), None),
        ]
    else:
        base = [T("u"), T("v"), T("op", "+"), T("s")]
        shapes = [
            ("valid + row", LineV(base, sep=sep), ("u", "v", "s", None)),
            ("3 columns", LineV(base[:3], sep=sep), None),
            ("5 columns", LineV(base + [T("x")], sep=sep), None),
            ("2 columns", LineV(base[:2], sep=sep), None),
        ]
    valid = shapes[0]
    shapes += [
        ("valid row + trailing comment", valid[1].but(comment="after"), valid[2]),
        ("valid row + comment glued to the last field", valid[1].but(comment="glued"), valid[2]),
        ("comment-only line", LineV([], comment="start", sep=sep), None),
        ("commented-out valid row", LineV([], comment="start", sep=sep, comment_fields=list(valid[1].fields)), None),
        ("empty string", LineV([], nl=False, sep=sep), None),
        ("bare newline", LineV([], nl=True, sep=sep), None),
        ("blanks only", LineV([], lead=True, trail=True, nl=True, sep=sep), None),
        ("padded valid row", valid[1].but(lead=True, trail=True), valid[2]),
        ("valid row without newline", valid[1].but(nl=False), valid[2]),
    ]
    return shapes


def check_parser(repo: Repo, rep: Report, fmt):
    """Interpret parse_snapshots / parse_interactions on every row shape."""
    fname = "parse_" + fmt
    fn = repo.get(EDGELIST, fname)
    construct = repo.construct(EDGELIST, fname)
    all_methods = {c: repo.class_methods(rel, c) for c, rel in CLASSES.items()}
    params = [a.arg for a in fn.args.args]
    need = ["lines", "comments", "directed", "delimiter", "nodetype", "timestamptype", "keys"]
    if params != need:
        raise AnalysisError("%s: unexpected signature %s" % (fname, params))
    n = 0
    findings = {}

    def add(key, msg, wit, line=0):
        if key not in findings:
            findings[key] = (msg, wit, line)
    ot = OrderType([["a"], ["b"], ["s"]], [None, None], 2)
    for sep, delim in (("ws", NONE), ("delim", Const(","))):
        for (label, line, expect) in row_shapes(fmt, sep):
            for nodetype, tstype, keys in itertools.product((False, True), (False, True), (False, True)):
                n += 1
                cfgbase = dict(cls="DynGraph", directed=False, removal=True, exists=False)

                def once(ch):
                    w = LineWorld(dict(cfgbase), ot, ch, all_methods["DynGraph"], all_methods)
                    ip = CtorInterp(w, ot, max_depth=6)
                    env = {"lines": ListObj([line]), "comments": Const("#"), "directed": FALSE, "delimiter": delim,
                           "nodetype": Converter("nodetype") if nodetype else NONE,
                           "timestamptype": Converter("timestamptype") if tstype else NONE,
                           "keys": RankMap() if keys else NONE}
                    try:
                        return w, ip.call_function(fn, env), None
                    except AbstractRaise as r:
                        return w, None, r
                for ch, (w, val, r) in run_all_choices(once, max_runs=256):
                    wit = "%s %r, delimiter=%s, nodetype %s, timestamptype %s, keys %s%s" % (
                        label, line, "None" if sep == "ws" else "','", "given" if nodetype else "None", "given" if tstype else "None",
                        "given" if keys else "None", (" | " + ", ".join("%s" % (k,) for k, v in ch.items() if v)) if any(ch.values()) else "")
                    conv_failed = any(isinstance(k, tuple) and k[0].startswith("conversion") and v for k, v in ch.items())
                    for (a, sym, b, ln) in w.string_compares:
                        add("string-compare", "%s compares the text of a field (%s %s %s) before it is converted: the order of strings is "
                            "lexicographic ('10' < '9')" % (fname, a, sym, b), wit, ln)
                    if r is not None:
                        if conv_failed and r.exc == "TypeError" and r.explicit:
                            continue
                        if conv_failed:
                            add("conversion-error-leaks:%s" % r.exc, "a failing nodetype / timestamptype conversion surfaces as %s instead of "
                                "TypeError (%s)" % (r.exc, r.detail or "not caught by the handler around the conversion"), wit, getattr(r.node, "lineno", 0))
                        else:
                            add("raises:%s:%s" % (r.exc, label), "%s raises %s on the row %r (%s)" % (fname, r.exc, line, r.detail), wit,
                                getattr(r.node, "lineno", 0))
                        continue
                    if conv_failed:
                        add("conversion-error-swallowed", "a failing conversion does not raise TypeError", wit)
                        continue
                    if not isinstance(val, NewGraph):
                        add("no-graph", "%s returns %r" % (fname, val), wit)
                        continue
                    calls = val.calls
                    if expect is None:
                        if calls:
                            add("noise-row-accepted:%s" % label, "the row %r must be skipped but reaches add_interaction%r" % (
                                line, tuple(repr(x) for x in calls[0][:4])), wit)
                        continue
                    if len(calls) != 1:
                        add("valid-row-dropped:%s" % label if not calls else "row-added-twice", "the row %r yields %d add_interaction calls, expected 1" % (
                            line, len(calls)), wit)
                        continue
                    u, v, t, e = calls[0][:4]
                    want = []
                    for nm, val_, kind in zip(expect, (u, v, t, e), ("node", "node", "time", "time")):
                        if nm is None:
                            ok = isinstance(val_, Const) and val_.v is None
                            desc = "None"
                        else:
                            conv = (("nodetype",) if nodetype else ()) if kind == "node" else (("timestamptype",) if tstype else ())
                            ranked = keys and kind == "time"
                            ok = isinstance(val_, Tok) and val_.name == nm and val_.conv == conv and val_.ranked == ranked and not val_.dirty
                            desc = repr(Tok(nm, conv=conv, ranked=ranked))
                        want.append(desc)
                        if not ok:
                            add("field:%s:%s" % (kind if nm else "e", _field_problem(val_, nm, nodetype, tstype, keys, kind)),
                                "for the row %r add_interaction receives %s, expected (%s)" % (
                                    line, tuple(repr(x) for x in (u, v, t, e)), ", ".join(want + ["..."] * (4 - len(want)))), wit)
                            break
    for k, (msg, wit, line) in sorted(findings.items()):
        rep.finding("L.parser", construct, k, msg, witness=wit, line=line)
    rep.ob("L.parser", construct, "%d (row shape, delimiter, options) cases interpreted" % n, ok=not findings)
    rep.stats["abstract_runs"] = rep.stats.get("abstract_runs", 0) + n
    rep.sample(dict(engine="L", function=construct, cases=n, shapes=[s[0] for s in row_shapes(fmt, "ws")]))
    return n


def _field_problem(val, nm, nodetype, tstype, keys, kind):
    if not isinstance(val, Tok):
        return "not-a-field"
    if val.name != nm:
        return "wrong-column(%s)" % val.name
    if val.dirty:
        return "dirty(%s)" % val.dirty
    want_conv = (("nodetype",) if nodetype else ()) if kind == "node" else (("timestamptype",) if tstype else ())
    if val.conv != want_conv:
        return "conversion(%s)" % (",".join(val.conv) or "none")
    return "rank(%s)" % val.ranked


def check_read_ids(repo: Repo, rep: Report):
    """read_ids must collect exactly the converted time fields of the rows the parser of the format accepts."""
    fn = repo.get(EDGELIST, "read_ids")
    construct = repo.construct(EDGELIST, "read_ids")
    params = [a.arg for a in fn.args.args]
    all_methods = {c: repo.class_methods(rel, c) for c, rel in CLASSES.items()}
    if "path" not in params:
        raise AnalysisError("read_ids: unexpected signature %s" % params)
    defaults = dict(zip(params[len(params) - len(fn.args.defaults):], fn.args.defaults))
    n = 0
    ot = OrderType([["s"]], [], 2)
    for fmt, ops in (("snapshots", False), ("interactions", True)):
        for sep, delim in (("ws", NONE), ("delim", Const(","))):
            shapes = row_shapes(fmt, sep)
            # give every row its own token names
            lines, want = [], set()
            for i, (label, line, expect) in enumerate(shapes):
                ren = LineV([f.but(name="%s%d" % (f.name, i)) for f in line.fields], line.lead, line.trail, line.nl, line.comment, line.sep)
                lines.append(ren)
                if expect is not None:
                    for nm in expect[2:]:
                        if nm is not None:
                            want.add("%s%d" % (nm, i))
            for tstype in (False, True):
                n += 1

                def once(ch):
                    cfg = dict(cls="DynGraph", directed=False, removal=True, exists=False, file=FileV(lines))
                    w = LineWorld(cfg, ot, ch, all_methods["DynGraph"], all_methods)
                    ip = CtorInterp(w, ot, max_depth=6)
                    env = {}
                    for p in params:
                        env[p] = {"path": Const("file.txt"), "delimiter": delim, "timestamptype": Converter("timestamptype") if tstype else NONE,
                                  "comments": Const("#"), "ops": Const(ops)}.get(p)
                        if env[p] is None and p in defaults and isinstance(defaults[p], ast.Constant):
                            env[p] = Const(defaults[p].value)
                        if env[p] is None:
                            raise AnalysisError("read_ids: parameter %s not modelled" % p)
                    try:
                        ip.call_function(fn, env)
                        return w, None
                    except AbstractRaise as r:
                        return w, r
                for ch, (w, r) in run_all_choices(once, max_runs=512):
                    if any(v for k, v in ch.items() if isinstance(k, tuple) and k[0].startswith("conversion")):
                        if r is None or r.exc != "TypeError":
                            rep.finding("L.read_ids", construct, "conversion-error:%s" % (r.exc if r else "swallowed"),
                                        "a failing timestamp conversion in read_ids surfaces as %s instead of TypeError" % (r.exc if r else "nothing"),
                                        witness="%s format, delimiter %s" % (fmt, "None" if sep == "ws" else "','"))
                        continue
                    wit = "%s format, delimiter=%s, timestamptype %s; file = %s" % (fmt, "None" if sep == "ws" else "','", "given" if tstype else "None",
                                                                                     [repr(l) for l in lines])
                    if r is not None:
                        rep.finding("L.read_ids", construct, "raises:%s:%s" % (fmt, r.exc), "read_ids raises %s (%s) on a file of the %s format that "
                                    "contains noise rows" % (r.exc, r.detail, fmt), witness=wit, line=getattr(r.node, "lineno", 0))
                        continue
                    got = w.collected
                    if got is None:
                        rep.finding("L.read_ids", construct, "no-rank-map", "read_ids does not hand the collected timestamps to compact_timeslot", witness=wit)
                        continue
                    names = set()
                    bad = None
                    for x in got:
                        if not isinstance(x, Tok) or x.dirty or x.conv != (("timestamptype",) if tstype else ()):
                            bad = x
                        else:
                            names.add(x.name)
                    if bad is not None or names != want:
                        rep.finding("L.read_ids", construct, "collects:%s:%s" % (fmt, "extra" if names - want else ("missing" if want - names else "malformed")),
                                    "for the %s format read_ids ranks the timestamps %s; the rows the parser accepts carry %s%s" % (
                                        fmt, sorted(names), sorted(want), (" (malformed: %r)" % (bad,)) if bad is not None else ""), witness=wit)
    rep.ob("L.read_ids", construct, "%d (format, delimiter, conversion) files interpreted" % n, ok=True)
    return n


# ---------------------------------------------------------------------------------------------------
class OpenedV:
    python_type = "file"

    def __init__(self, opener, path, mode):
        self.opener, self.path, self.mode = opener, path, mode
        self.closed = False
        self.calls = []

    def __repr__(self):
        return "%s(%r, mode=%r)" % (self.opener, self.path, self.mode)


class CallerFile:
    """A file object supplied by the caller (has .read / .write)."""
    python_type = "file"

    def __init__(self):
        self.calls = []
        self.closed = False

    def __repr__(self):
        return "<caller's file object>"


class DecoWorld(LineWorld):
    def __init__(self, repo, cfg, ot, choices, methods, all_methods):
        super().__init__(cfg, ot, choices, methods, all_methods)
        self.repo = repo
        self.func_calls = []
        self.renames = []           # (src, dst, number of wrapped calls made so far)
        self.removed = []
        self.globals = _module_globals(repo, DECORATORS)

    def resolve_name(self, ip, name, node):
        if name in ("splitext", "hasattr", "getattr", "str", "open", "gzip", "bz2", "os", "nx"):
            return Builtin(name) if name in ("splitext", "hasattr", "getattr", "str", "open") else Opaque("module:" + name)
        if name in self.globals:
            return self.globals[name]
        return super().resolve_name(ip, name, node)

    def load_attr(self, ip, obj, attr, node):
        if isinstance(obj, (OpenedV, CallerFile)):
            return BoundMethod(obj, attr)
        if isinstance(obj, Opaque):
            return Opaque(obj.tag + "." + attr)
        return super().load_attr(ip, obj, attr, node)

    def call_method(self, ip, obj, name, args, kwargs, node):
        if isinstance(obj, (OpenedV, CallerFile)):
            if name in ("seekable", "readable", "writable", "isatty"):
                return Const(self.choose(("file-%s" % name,)))       # a harmless query
            if name in ("tell", "fileno"):
                return Opaque("position")
            obj.calls.append(name)
            if name == "close":
                obj.closed = True
            return NONE
        if isinstance(obj, DictObj) and name == "get":
            return super().call_method(ip, obj, name, args, kwargs, node)
        return super().call_method(ip, obj, name, args, kwargs, node)

    def call_builtin(self, ip, name, args, kwargs, node):
        if name == "splitext" and len(args) == 1 and isinstance(args[0], Const) and isinstance(args[0].v, str):
            import os.path
            a, b = os.path.splitext(args[0].v)
            return TupleV([Const(a), Const(b)])
        if name == "hasattr" and len(args) == 2 and isinstance(args[1], Const):
            return Const(isinstance(args[0], (CallerFile, OpenedV)) and args[1].v in (
                "read", "write", "close", "seek", "seekable", "tell", "readable", "writable", "flush", "truncate", "name", "mode"))
        if name == "isinstance":
            return None
        if name == "open" and args:
            mode = kwargs.get("mode", args[1] if len(args) > 1 else Const("r"))
            return OpenedV("open", args[0], mode.v if isinstance(mode, Const) else repr(mode))
        return super().call_builtin(ip, name, args, kwargs, node)

    def call(self, ip, f, args, kwargs, node):
        if isinstance(f, WrappedFunc):
            self.func_calls.append((list(args), dict(kwargs)))
            return Opaque("result of the wrapped function")
        if isinstance(f, Opaque) and f.tag in ("module:os.fspath", "module:os.fsdecode", "module:os.path.expanduser") and len(args) == 1:
            return args[0]
        if isinstance(f, Opaque) and f.tag in ("module:os.replace", "module:os.rename", "module:shutil.move") and len(args) == 2 \
                and all(isinstance(a, Const) and isinstance(a.v, str) for a in args):
            self.renames.append((args[0].v, args[1].v, len(self.func_calls)))
            return NONE
        if isinstance(f, Opaque) and f.tag in ("module:os.remove", "module:os.unlink") and len(args) == 1 and isinstance(args[0], Const):
            self.removed.append(args[0].v)
            return NONE
        if isinstance(f, Opaque) and f.tag in ("module:os.path.exists", "module:os.path.isfile") and len(args) == 1:
            return Const(self.choose(("path-exists", repr(args[0]))))
        if isinstance(f, Opaque) and f.tag in ("module:gzip.open", "module:bz2.BZ2File", "module:gzip.GzipFile", "module:bz2.open"):
            mode = kwargs.get("mode", args[1] if len(args) > 1 else Const("r"))
            return OpenedV(f.tag.split(":")[1], args[0], mode.v if isinstance(mode, Const) else repr(mode))
        if isinstance(f, Opaque):
            return Opaque(f.tag + "()")
        return super().call(ip, f, args, kwargs, node)

    def load_subscript(self, ip, obj, key, node):
        if isinstance(obj, DefaultDictV):
            k = ip.dict_key(key, node)
            if k in obj.entries:
                return obj.entries[k]
            return ip.call_value(obj.factory, [], {}, node)
        return super().load_subscript(ip, obj, key, node)


class WrappedFunc:
    pass


class DefaultDictV:
    def __init__(self, factory):
        self.factory, self.entries = factory, {}


def _module_globals(repo, rel):
    """Simple module-level constants of a module: dispatch tables, lambdas, function references."""
    g = {}
    tree = repo.modules[rel]
    funcs = {n.name: n for n in tree.body if isinstance(n, ast.FunctionDef)}
    for st in tree.body:
        if isinstance(st, ast.Assign) and len(st.targets) == 1:
            t, v = st.targets[0], st.value
            if isinstance(t, ast.Name):
                if isinstance(v, ast.Call) and isinstance(v.func, ast.Name) and v.func.id == "defaultdict" and len(v.args) == 1:
                    g[t.id] = DefaultDictV(v.args[0])
                elif isinstance(v, ast.Constant):
                    g[t.id] = Const(v.value)
            elif isinstance(t, ast.Subscript) and isinstance(t.value, ast.Name) and t.value.id in g and isinstance(g[t.value.id], DefaultDictV) \
                    and isinstance(t.slice, ast.Constant) and isinstance(v, ast.Name) and v.id in funcs:
                g[t.value.id].entries[Const(t.slice.value)] = PyFunc(funcs[v.id], rel)
    return g


def check_decorator(repo: Repo, rep: Report):
    """open_file(i, mode) interpreted: string paths are opened by extension and closed afterwards; a caller-supplied file
    object (or None) is passed through untouched and left open."""
    outer = repo.get(DECORATORS, "open_file")
    construct = repo.construct(DECORATORS, "open_file")
    inner = next((n for n in ast.walk(outer) if isinstance(n, ast.FunctionDef) and n is not outer), None)
    if inner is None:
        raise AnalysisError("open_file: inner wrapper not found")
    all_methods = {c: repo.class_methods(rel, c) for c, rel in CLASSES.items()}
    ot = OrderType([], [], 2)
    n = 0
    cases = [("x.txt", "open"), ("x.gz", "gzip.open"), ("x.gzip", "gzip.open"), ("x.bz2", "bz2.BZ2File"), ("x", "open")]
    for mode in ("wb", "rb"):
        for kind in ["str:%s" % c[0] for c in cases] + ["fileobj", "none"]:
            n += 1

            def once(ch):
                w = DecoWorld(repo, dict(cls="DynGraph", directed=False, removal=True, exists=False), ot, ch, all_methods["DynGraph"], all_methods)
                ip = CtorInterp(w, ot, max_depth=6)
                ip.call_value = lambda f, a, k, node: ip.call(ast.Call(func=ast.Name(id="__f__", ctx=ast.Load()), args=[], keywords=[]), {"__f__": _as_value(ip, w, f)})
                if kind.startswith("str:"):
                    path = Const(kind[4:])
                elif kind == "fileobj":
                    path = CallerFile()
                else:
                    path = NONE
                other = Opaque("G")
                env = {inner.args.args[0].arg: WrappedFunc(), "path_arg": Const(1), "mode": Const(mode)}
                if inner.args.vararg:
                    env[inner.args.vararg.arg] = TupleV([other, path])
                if inner.args.kwarg:
                    env[inner.args.kwarg.arg] = DictObj()
                try:
                    ip.call_function(inner, env)
                    return w, path, None
                except AbstractRaise as r:
                    return w, path, r
            for ch, (w, path, r) in run_all_choices(once, max_runs=32):
                wit = "path argument: %s, decorator mode %r" % (kind, mode)
                if r is not None:
                    rep.finding("L.open_file", construct, "raises:%s:%s" % (kind.split(":")[0], r.exc), "the open_file wrapper raises %s (%s)" % (r.exc, r.detail),
                                witness=wit, line=getattr(r.node, "lineno", 0))
                    continue
                if len(w.func_calls) != 1:
                    rep.finding("L.open_file", construct, "wrapped-call-count", "the wrapped function is called %d times" % len(w.func_calls), witness=wit)
                    continue
                args, kwargs = w.func_calls[0]
                got = args[1] if len(args) > 1 else None
                if kind.startswith("str:"):
                    want_opener = dict(cases)[kind[4:]]
                    # where the opened file ends up: a writer may go through a temporary sibling that is moved over the target
                    final = got.path.v if isinstance(got, OpenedV) and isinstance(got.path, Const) else None
                    for (src_, dst_, after) in w.renames:
                        if final is not None and src_ == final and after >= 1 and mode.startswith("w"):
                            final = dst_
                    if final in w.removed:
                        final = None
                    ok = isinstance(got, OpenedV) and got.opener == want_opener and got.mode == mode and final == kind[4:]
                    if not ok:
                        rep.finding("L.open_file", construct, "opener:%s" % kind[4:].split(".")[-1], "a path %r is handed to the wrapped function as %r%s, "
                                    "expected %s(path, mode=%r)" % (kind[4:], got, (" (moved to %r afterwards)" % final) if w.renames else "",
                                                                     want_opener, mode), witness=wit)
                    elif not got.closed:
                        rep.finding("L.open_file", construct, "not-closed", "the file the decorator opened for %r is not closed after the call" % kind[4:], witness=wit)
                    elif [c for c in got.calls if c != "close"]:
                        rep.finding("L.open_file", construct, "touches-opened-file", "the decorator calls %s on the file before the wrapped function" % got.calls, witness=wit)
                elif kind == "fileobj":
                    if got is not path:
                        rep.finding("L.open_file", construct, "fileobj-replaced", "a caller-supplied file object is replaced by %r" % (got,), witness=wit)
                    elif path.calls:
                        rep.finding("L.open_file", construct, "fileobj-touched:%s" % ",".join(path.calls),
                                    "the decorator calls %s on the caller's open file object: it must be used as it is (position and content "
                                    "preserved) and stay open" % path.calls, witness=wit)
                else:
                    if not (isinstance(got, Const) and got.v is None):
                        rep.finding("L.open_file", construct, "none-replaced", "a None target becomes %r" % (got,), witness=wit)
    rep.ob("L.open_file", construct, "%d (target kind, mode) cases interpreted" % n, ok=True)
    return n


def _as_value(ip, w, f):
    """Evaluate a factory expression of a defaultdict (``lambda: open``)."""
    if isinstance(f, ast.Lambda):
        return LambdaV(f, {})
    if isinstance(f, ast.Name):
        r = w.resolve_name(ip, f.id, f)
        if r is not None:
            return r
    raise Unsupported(f, "defaultdict factory")


# ---------------------------------------------------------------------------------------------------
def check_compact_timeslot(repo: Repo, rep: Report):
    """compact_timeslot interpreted on three distinct symbolic timestamps in every order (plus the literal 0 when the
    code compares with a constant): the result must map each timestamp to its rank 0..k-1."""
    from .core import TRANSFORM
    from .ordertype import enumerate_order_types
    from .absint import NeedZero
    fn = repo.get(TRANSFORM, "compact_timeslot")
    construct = repo.construct(TRANSFORM, "compact_timeslot")
    all_methods = {c: repo.class_methods(rel, c) for c, rel in CLASSES.items()}
    from .ordertype import Undetermined
    syms = ["x1", "x2", "x3"]
    try:
        for R in (2, 3, 4, 5):
            try:
                return _compact_at(repo, rep, fn, construct, all_methods, syms, R)
            except Undetermined:
                continue
        raise AnalysisError("compact_timeslot: comparisons undetermined up to resolution 5")
    except (Unsupported, AnalysisError) as ex:
        # the symbolic run left the interpreted fragment (e.g. the timestamps are turned into text): a run on concrete integer
        # sets can still establish a violation; if it finds none the general claim stays undecided
        if _compact_concrete(rep, fn, construct, all_methods):
            rep.ob("L.compact_timeslot", construct, "rank map (symbolic run abstained: %s)" % ex, ok=False)
            return 1
        raise


COMPACT_SETS = [[3, 10, -5, -12], [0, 7, 100, 23], [-1, -10, -100], [9, 10, 11, 99, 100, 101], [5], []]


def _compact_concrete(rep, fn, construct, all_methods):
    """True iff a violation was found (and reported) on one of the concrete timestamp sets"""
    ot = OrderType([["t"]], [], 2)
    for stamps in COMPACT_SETS:
        w = LineWorld(dict(cls="DynGraph", directed=False, removal=True, exists=False), ot, {}, all_methods["DynGraph"], all_methods)
        ip = CtorInterp(w, ot, max_depth=4)
        try:
            val = ip.call_function(fn, {fn.args.args[0].arg: ListObj([Const(x) for x in stamps])})
        except AbstractRaise as r:
            rep.finding("L.compact_timeslot", construct, "raises:%s" % r.exc, "compact_timeslot raises %s (%s)" % (r.exc, r.detail),
                        witness="timestamps %s" % stamps, line=fn.lineno)
            return True
        want = {x: i for i, x in enumerate(sorted(stamps))}
        got = {k.v: v.v for k, v in val.entries.items() if isinstance(k, Const) and isinstance(v, Const)} if isinstance(val, DictObj) else None
        if got is None or len(got) != len(val.entries):
            raise Unsupported(fn, "compact_timeslot returns %r on concrete timestamps" % (val,))
        if got != want:
            neg = any(x < 0 for x in stamps)
            rep.finding("L.compact_timeslot", construct, "not-rank-map" + (":negative-timestamps" if neg else ""),
                        "compact_timeslot maps the timestamps to %s, their ranks are %s" % (got, want), witness="timestamps %s" % stamps,
                        line=fn.lineno)
            return True
    return False


def _compact_at(repo, rep, fn, construct, all_methods, syms, R):
    from .ordertype import enumerate_order_types
    from .absint import NeedZero
    n = 0
    findings = {}
    for zero in (False, True):
        try:
            for ot in enumerate_order_types(syms + (["0"] if zero else []), [], R):
                if any(ot.cmp_terms((a, 0), (b, 0), "==") for a, b in itertools.combinations(syms, 2)):
                    continue            # the input is a set of distinct timestamps
                for perm in itertools.permutations(syms):
                    n += 1
                    w = LineWorld(dict(cls="DynGraph", directed=False, removal=True, exists=False), ot, {}, all_methods["DynGraph"], all_methods)
                    ip = CtorInterp(w, ot, max_depth=4)
                    try:
                        val = ip.call_function(fn, {fn.args.args[0].arg: ListObj([Int(s) for s in perm])})
                    except AbstractRaise as r:
                        findings.setdefault("raises:%s" % r.exc, ("compact_timeslot raises %s (%s)" % (r.exc, r.detail), ot.describe()))
                        continue
                    rank = {s: sum(1 for o in syms if ot.cmp_terms((o, 0), (s, 0), "<")) for s in syms}
                    ok = isinstance(val, DictObj) and len(val.entries) == 3
                    got = {}
                    if ok:
                        # keys are values: a key may come back written as another symbol of the same value plus an exact gap
                        named = []
                        for k, v in val.entries.items():
                            if isinstance(k, Int):
                                s_ = next((sy for sy in syms if ot.cmp_terms(k.term(), (sy, 0), "==")), None)
                                k = Int(s_) if s_ is not None else k
                            named.append((k, v))
                        for k, v in named:
                            if isinstance(k, Int) and k.k == 0 and isinstance(v, Const):
                                got[k.base] = v.v
                            elif isinstance(k, Int) and k.k == 0 and isinstance(v, Int) and ot.has("0") and \
                                    ot.cmp_terms(v.term(), ("0", rank[k.base]), "=="):
                                got[k.base] = rank[k.base]      # a timestamp that happens to equal its rank
                            else:
                                ok = False
                    if not ok or got != rank:
                        neg = zero and any(ot.cmp_terms((s, 0), ("0", 0), "<") for s in syms)
                        findings.setdefault("not-rank-map" + (":negative-timestamps" if neg else ""),
                                            ("compact_timeslot maps the timestamps to %s, their ranks are %s" % (
                                                got if ok else val, rank), "timestamps given as %s | order: %s" % (list(perm), ot.describe())))
            break
        except NeedZero:
            if zero:
                raise
            findings.clear()
            n = 0
    for k, (msg, wit) in sorted(findings.items()):
        rep.finding("L.compact_timeslot", construct, k, msg, witness=wit, line=fn.lineno)
    rep.ob("L.compact_timeslot", construct, "rank map on %d (ordering, input order) cases" % n, ok=not findings)
    return n


# ---------------------------------------------------------------------------------------------------
def check_event_replay(cc, cls):
    """parse_interactions interpreted on a two-row log  'u v + p' / 'u v <op> s'  (all orderings of p, s; the graph under
    construction shows the interval [p, p] after the first row): a second '+' is replayed as add_interaction(u, v, t=s);
    a '-' at s as one add_interaction(u, v, t in [p, p+1], e=s) exactly when s lies after p."""
    from .ordertype import enumerate_order_types
    from .absint import NeedZero
    repo = cc.repo
    fn = repo.get(EDGELIST, "parse_interactions")
    construct = repo.construct(EDGELIST, "parse_interactions") + "[%s]" % cls
    for op in ("+", "-"):
        cc.instances += 1
        syms, cons = ["p", "s"], []
        for zero in (False, True):
            try:
                for ot in enumerate_order_types(syms + (["0"] if zero else []), cons, cc.R):
                    cfg = dict(cls=cls, directed=cls == "DynDiGraph", removal=True, exists=False, closed=False, L="uv")
                    lines = [LineV([Tok("u"), Tok("v"), Tok("op", "+"), Tok("p")], sep="ws"),
                             LineV([Tok("u"), Tok("v"), Tok("op", op), Tok("s")], sep="ws")]

                    def once(ch, ot=ot, cfg=cfg):
                        w = ReplayLineWorld(dict(cfg), ot, ch, cc.all_methods[cls], cc.all_methods)
                        ip = CtorInterp(w, ot, max_depth=6)
                        env = {"lines": ListObj(list(lines)), "comments": Const("#"), "directed": Const(cls == "DynDiGraph"), "delimiter": NONE,
                               "nodetype": NONE, "timestamptype": Converter("timestamptype"), "keys": NONE}
                        try:
                            return ("ok", w, ip.call_function(fn, env))
                        except AbstractRaise as r:
                            return ("raise", w, r)
                    for ch, (kind, w, val) in run_all_choices(once, max_runs=64):
                        cc.n_runs += 1
                        if any(v for k, v in ch.items() if isinstance(k, tuple) and k[0].startswith("conversion")):
                            continue
                        _judge_replay_line(cc, construct, cls, op, ot, w, kind, val)
                    cc.n_ordertypes += 1
                break
            except NeedZero:
                if zero:
                    raise


class ReplayLineWorld(LineWorld):
    """Row fields that name the pair's end points become the node roles U, V; time fields become the symbols p / s;
    the recording graph shows, after a recorded point add at p, the pair (U, V) with the timeline [[p, p]]."""

    def call(self, ip, f, args, kwargs, node):
        if isinstance(f, Converter) and f.name == "timestamptype" and len(args) == 1 and isinstance(args[0], Tok) \
                and args[0].name in ("s", "p") and not args[0].dirty:
            return Int(args[0].name)
        return super().call(ip, f, args, kwargs, node)

    def _node(self, x):
        if isinstance(x, Tok) and x.name in ("u", "v") and not x.dirty and not x.conv:
            return NodeV(x.name.upper())
        return x

    def load_subscript(self, ip, obj, key, node):
        return super().load_subscript(ip, obj, self._node(key), node)

    def node_exists(self, role):
        return bool(self.cfg.get("exists"))

    def call_method(self, ip, obj, name, args, kwargs, node):
        if isinstance(obj, NewGraph) and name == "add_interaction":
            args = [self._node(a) for a in args]
            kwargs = {k: self._node(v) for k, v in kwargs.items()}
            r = super().call_method(ip, obj, name, args, kwargs, node)
            u, v, t, e = obj.calls[-1][:4]
            if not self.cfg.get("exists") and isinstance(t, Int) and isinstance(e, Const) and e.v is None and \
                    (u, v) == (NodeV("U"), NodeV("V")):
                last = ListObj([t, t], persistent=True, tag="interval:last")
                self.last = self.first = last
                self.timeline = ListObj([last], persistent=True, tag="timeline")
                self.datadict = DictObj({Const("t"): self.timeline}, persistent=True, tag="datadict")
                self.cfg["exists"] = True
            return r
        if name == "get" and args:
            args = [self._node(args[0])] + list(args[1:])
        return super().call_method(ip, obj, name, args, kwargs, node)

    def contains(self, ip, container, x, node):
        return super().contains(ip, container, self._node(x), node)


def _judge_replay_line(cc, construct, cls, op, ot, w, kind, val):
    wit = "log 'u v + p' / 'u v %s s' | order: %s" % (op, ot.describe())
    if kind == "raise":
        cc.add("C10.replay", construct, "raises:%s:%s" % (op, val.exc), "replaying the log raises %s (%s)" % (val.exc, val.detail), wit,
               getattr(val.node, "lineno", 0))
        return
    if not isinstance(val, NewGraph):
        cc.add("C10.replay", construct, "no-graph", "parse_interactions returns %r" % (val,), wit)
        return
    if val.cls != cls:
        cc.add("C10.replay", construct, "class", "directed=%s builds a %s" % (cls == "DynDiGraph", val.cls), wit)
    calls = [(u, v, t, e) for (u, v, t, e, _, _) in val.calls]
    if any((u, v) != (NodeV("U"), NodeV("V")) for (u, v, _, _) in calls):
        cc.add("C10.replay", construct, "endpoints:%s" % op, "the row's (u, v) is not forwarded unswapped: %s" % ([(c[0], c[1]) for c in calls],), wit)
        return
    first_ok = bool(calls) and isinstance(calls[0][2], Int) and calls[0][2].term() == ("p", 0) and isinstance(calls[0][3], Const) and calls[0][3].v is None
    if not first_ok:
        cc.add("C10.replay", construct, "plus-row", "the '+' row at p is replayed as %s, expected add_interaction(u, v, t=p)" % (calls[:1],), wit)
        return
    rest = calls[1:]
    if op == "+":
        ok = len(rest) == 1 and isinstance(rest[0][2], Int) and rest[0][2].term() == ("s", 0) and isinstance(rest[0][3], Const) and rest[0][3].v is None
        if not ok:
            cc.add("C10.replay", construct, "plus-row", "a second '+' row at s is replayed as %s, expected add_interaction(u, v, t=s)" % (rest,), wit)
        return
    if ot.cmp_terms(("p", 0), ("s", 0), ">="):
        if rest:
            cc.add("C10.replay", construct, "minus-row:not-after-run", "a '-' at or before the last present instant re-adds %s" % (rest,), wit)
        return
    ok = len(rest) == 1
    if ok:
        u, v, t, e = rest[0]
        ok = isinstance(t, Int) and isinstance(e, Int) and ot.cmp_terms(e.term(), ("s", 0), "==") and \
            ot.cmp_terms(("p", 0), t.term(), "<=") and ot.cmp_terms(t.term(), ("p", 1), "<=")
    if not ok:
        gap = "s=p+1" if ot.cmp_terms(("s", 0), ("p", 1), "==") else "s>p+1"
        cc.add("C10.replay", construct, "minus-row:%s" % gap,
               "after '+' at p, a '-' row at s (%s) is replayed as %s; the pair must stay present through s-1 and the vanishing must be "
               "logged at s: add_interaction(u, v, t=<instant of the last run>, e=s)" % (gap, [(repr(c[2]), repr(c[3])) for c in rest]), wit)


# ---------------------------------------------------------------------------------------------------
# whole event logs (several pairs, reciprocal directions, interleaving): concrete offsets, state by specification
# ---------------------------------------------------------------------------------------------------
LOG_GRAPHS = [
    # (label, directed only?, {(source, target): [(first, last), ...]})   instants are t + k
    ("one pair, two runs", False, {("A", "B"): [(1, 3), (6, 6)]}),
    ("two pairs sharing a node, interleaved", False, {("A", "B"): [(1, 4)], ("B", "C"): [(2, 2), (4, 7)]}),
    ("closed one-instant run, then a longer one", False, {("A", "B"): [(2, 2), (5, 8)], ("A", "C"): [(5, 5)]}),
    ("reciprocal directions, overlapping", True, {("A", "B"): [(1, 5)], ("B", "A"): [(3, 8)]}),
    ("reciprocal directions, nested and re-appearing", True, {("A", "B"): [(1, 9)], ("B", "A"): [(2, 3), (6, 7)], ("B", "C"): [(3, 3)]}),
    ("self-loop and a pair", False, {("A", "A"): [(1, 2)], ("A", "B"): [(2, 4)]}),
]


def _log_events(timelines, close_points=False):
    ev = []
    for (u, v), runs in timelines.items():
        for (lo, hi) in runs:
            ev.append((lo, 0, u, v, "+"))
            if hi > lo or close_points:
                ev.append((hi + 1, 1, u, v, "-"))
    ev.sort(key=lambda e: (e[0], e[1], e[2], e[3]))
    return [(u, v, op, k) for (k, _, u, v, op) in ev]


class LogAdj:
    def __init__(self, g):
        self.g = g


class LogRow:
    def __init__(self, g, u):
        self.g, self.u = g, u


class LogWorld(LineWorld):
    """The recording graph answers questions about its adjacency from the calls it has received so far, replayed by the
    *specification* of add_interaction (C01: union of spans, merge of adjacent / overlapping runs)."""

    def __init__(self, cfg, ot, choices, methods, all_methods):
        super().__init__(cfg, ot, choices, methods, all_methods)
        self.state = {}           # pair key -> list of [lo, hi] offsets
        self.rejected = []

    def key(self, u, v):
        return (u, v) if self.directed else tuple(sorted((u, v)))

    def _n(self, x):
        if isinstance(x, Tok) and x.name.startswith("n:") and not x.dirty and not x.conv:
            return x.name[2:]
        if isinstance(x, NodeV):
            return x.role
        return None

    def call(self, ip, f, args, kwargs, node):
        if isinstance(f, Converter) and f.name == "timestamptype" and len(args) == 1 and isinstance(args[0], Tok) \
                and args[0].name.startswith("t:") and not args[0].dirty:
            return Int("t", int(args[0].name[2:]))
        return super().call(ip, f, args, kwargs, node)

    def load_attr(self, ip, obj, attr, node):
        if isinstance(obj, NewGraph) and attr in ("adj", "_adj", "succ", "_succ"):
            return LogAdj(obj)
        if isinstance(obj, (LogAdj, LogRow)):
            return BoundMethod(obj, attr)
        return super().load_attr(ip, obj, attr, node)

    def nodes_of(self):
        return {n for k in self.state for n in k}

    def _data(self, u, v, node):
        k = self.key(u, v)
        if k not in self.state:
            return None
        tl = ListObj([ListObj([Int("t", a), Int("t", b)]) for a, b in self.state[k]])
        return DictObj({Const("t"): tl})

    def load_subscript(self, ip, obj, key, node):
        if isinstance(obj, LogAdj):
            n = self._n(key)
            if n is None or n not in self.nodes_of():
                raise AbstractRaise("KeyError", node, detail="the graph under construction has no node %r" % (key,))
            return LogRow(obj.g, n)
        if isinstance(obj, LogRow):
            n = self._n(key)
            d = self._data(obj.u, n, node) if n is not None else None
            if d is None:
                raise AbstractRaise("KeyError", node, detail="the graph under construction has no interaction %s-%s" % (obj.u, key))
            return d
        return super().load_subscript(ip, obj, key, node)

    def contains(self, ip, container, x, node):
        if isinstance(container, LogAdj):
            return self._n(x) in self.nodes_of()
        if isinstance(container, LogRow):
            n = self._n(x)
            return n is not None and self.key(container.u, n) in self.state and (
                not self.directed or (container.u, n) in self.state)
        return super().contains(ip, container, x, node)

    def call_method(self, ip, obj, name, args, kwargs, node):
        if isinstance(obj, NewGraph) and name == "add_interaction":
            r = super().call_method(ip, obj, name, args, kwargs, node)
            u, v, t, e = obj.calls[-1][:4]
            nu, nv = self._n(u), self._n(v)
            if nu is None or nv is None or not (isinstance(t, Int) and t.base == "t"):
                raise Unsupported(node, "add_interaction(%r, %r, %r, %r) in the log replay" % (u, v, t, e))
            lo = t.k
            if isinstance(e, Const) and e.v is None:
                hi = lo
            elif isinstance(e, Int) and e.base == "t":
                hi = e.k - 1
            else:
                raise Unsupported(node, "vanishing time %r" % (e,))
            if hi < lo:
                return r            # an empty span adds nothing
            tl = self.state.setdefault(self.key(nu, nv), [])
            if not tl:
                tl.append([lo, hi])
            elif lo < tl[-1][0]:
                self.rejected.append((nu, nv, lo, tl[-1][0]))
                raise AbstractRaise("ValueError", node, explicit=True, detail="add_interaction rejects a span starting at t%+d before "
                                    "the start t%+d of the latest run" % (lo, tl[-1][0]))
            elif lo <= tl[-1][1] + 1:
                tl[-1][1] = max(tl[-1][1], hi)
            else:
                tl.append([lo, hi])
            return r
        if isinstance(obj, NewGraph) and name in ("has_edge", "has_interaction") and len(args) >= 2:
            nu, nv = self._n(args[0]), self._n(args[1])
            if name == "has_edge" or len(args) == 2:
                return Const(self.key(nu, nv) in self.state)
        if isinstance(obj, (LogAdj, LogRow)) and name == "get" and 1 <= len(args) <= 2:
            try:
                return self.load_subscript(ip, obj, args[0], node)
            except AbstractRaise:
                return args[1] if len(args) == 2 else NONE
        return super().call_method(ip, obj, name, args, kwargs, node)


def check_event_logs(cc, cls):
    """parse_interactions on whole logs written from known presence relations (several pairs, reciprocal directions,
    interleaved and nested runs, closed one-instant runs): the graph read back must have exactly those timelines."""
    repo = cc.repo
    fn = repo.get(EDGELIST, "parse_interactions")
    construct = repo.construct(EDGELIST, "parse_interactions") + "[%s]" % cls
    directed = cls == "DynDiGraph"
    ot = OrderType([["t"]], [], 16)
    n = 0
    for (label, directed_only, timelines) in LOG_GRAPHS:
        if directed_only and not directed:
            continue
        # an undirected log may name a pair in either orientation: the '-' rows are also given as 'v u - t'
        for close_points, swap_minus in ((False, False), (True, False)) + (((False, True),) if not directed else ()):
            events = _log_events(timelines, close_points)
            if swap_minus:
                events = [(v, u, op, k) if op == "-" else (u, v, op, k) for (u, v, op, k) in events]
            lines = [LineV([Tok("n:" + u), Tok("n:" + v), Tok("op", op), Tok("t:%d" % k)], sep="ws") for (u, v, op, k) in events]
            n += 1
            cc.instances += 1

            def once(ch):
                cfg = dict(cls=cls, directed=directed, removal=True, exists=False, closed=False, L="uv")
                w = LogWorld(cfg, ot, ch, cc.all_methods[cls], cc.all_methods)
                w.lazy_zero_window = (0, 10)        # a reader that looks at the truth of an instant: the log is also read with t+k == 0
                ip = CtorInterp(w, ot, max_depth=6)
                env = {"lines": ListObj(list(lines)), "comments": Const("#"), "directed": Const(directed), "delimiter": NONE,
                       "nodetype": NONE, "timestamptype": Converter("timestamptype"), "keys": NONE}
                try:
                    return ("ok", w, ip.call_function(fn, env))
                except AbstractRaise as r:
                    return ("raise", w, r)
            for ch, (kind, w, val) in run_all_choices(once, max_runs=64):
                cc.n_runs += 1
                if any(v for k, v in ch.items() if isinstance(k, tuple) and k[0].startswith("conversion")):
                    continue
                zero = next((" | the literal 0 %s" % ("far below the log" if k[0] == "zero-far-below" else ("far above the log" if k[0] == "zero-far-above" else "= t%+d" % k[2]))
                             for k, v in ch.items() if v and isinstance(k, tuple) and str(k[0]).startswith("zero-")), "")
                wit = "%s%s%s | log: %s" % (label, ", '-' rows in the other orientation" if swap_minus else "", zero, " / ".join("%s %s %s t%+d" % e for e in events))
                if kind == "raise":
                    cc.add("C10.log", construct, "raises:%s" % val.exc, "replaying the log raises %s (%s)" % (val.exc, val.detail), wit,
                           getattr(val.node, "lineno", 0))
                    continue
                want = {}
                for (u, v), runs in timelines.items():
                    k = (u, v) if directed else tuple(sorted((u, v)))
                    want.setdefault(k, set()).update(o for lo, hi in runs for o in range(lo, hi + 1))
                got = {k: {o for lo, hi in tl for o in range(lo, hi + 1)} for k, tl in w.state.items()}
                for k in sorted(set(want) | set(got)):
                    g_, w_ = got.get(k, set()), want.get(k, set())
                    if g_ != w_:
                        kind2 = "missing" if w_ - g_ and not g_ - w_ else ("extra" if g_ - w_ and not w_ - g_ else "wrong")
                        recip = directed and (k[1], k[0]) in want and k[0] != k[1]
                        cc.add("C10.log", construct, "presence:%s%s" % (kind2, ":reciprocal-pair" if recip else ""),
                               "after reading the log, %s%s%s is present at %s; the log describes %s" % (
                                   k[0], "->" if directed else "-", k[1], sorted("t%+d" % o for o in g_), sorted("t%+d" % o for o in w_)), wit)
    return n
