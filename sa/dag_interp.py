"""temporal_dag and time_respecting_paths interpreted on symbolic temporal graphs (C15, C12).

The graph has a fixed small shape (node roles with labels A, B, AB, C; three snapshot ids t+1 < t+2 < t+3);
the presence of every stored pair at every id is an uninterpreted predicate and all valuations are enumerated.
Occurrence names f"{node}_{tid}" are structured values (label, instant) with the string operations the code
uses on them (split on '_', startswith, membership of '_').  The DAG is a recording object on which
all_simple_paths is computed by the checker.  The results are judged against the clauses of the properties:

  C15  every edge X@s -> Y@t is an interaction X-Y (X->Y when directed) present at t, t inside the window,
       s < t unless X@s is a source occurrence of the root (then s = t);  sources = occurrences of the root at
       window instants where it has a neighbour;  targets are occurrences of v (of reached nodes when v is
       None);  both are nodes of the DAG;  (waiting) an occurrence is only extended while it had a neighbour
       at every instant in between.
  C12  every returned path: non-empty, first hop leaves u, hops chain, times strictly increase inside the
       window, every hop is present at its time (oriented), no immediate reversal, every intermediate node has
       an (outgoing) interaction at each id strictly between arrival and departure, last hop reaches v, keyed by
       (first node, last node), no duplicates.
"""
from __future__ import annotations
import ast
import itertools
from .core import Repo, Report, PATHS, CLASSES, AnalysisError
from .ordertype import OrderType
from .absint import (Interp, Int, Const, NONE, NodeV, SelfV, TupleV, ListObj, DictObj, SetObj, IterV, AbstractRaise, Unsupported,
                     Opaque, BoundMethod, Builtin, TypeV, run_all_choices)
from .query_check import QueryWorld, Shape, to_py

LABELS = {"A": "A", "B": "B", "AB": "AB", "C": "C", "D": "D", "X": "X", "Y": "Y"}


class LabelV:
    """str(node): the label of a node (no underscore inside)."""
    hashable_value = True
    python_type = "str"

    def __init__(self, role):
        self.role = role

    def __eq__(self, o):
        return isinstance(o, LabelV) and o.role == self.role

    def __hash__(self):
        return hash(("LabelV", self.role))

    def __repr__(self):
        return "'%s'" % LABELS[self.role]


class OccV:
    """f"{node}_{tid}" """
    hashable_value = True
    python_type = "str"

    def __init__(self, role, tid):
        self.role, self.tid = role, tid

    def __eq__(self, o):
        return isinstance(o, OccV) and o.role == self.role and o.tid == self.tid

    def __hash__(self):
        return hash(("OccV", self.role, self.tid))

    def __repr__(self):
        return "%s_%r" % (LABELS[self.role], self.tid)


class TidStr:
    python_type = "str"

    def __init__(self, tid):
        self.tid = tid


class StaticRec:
    """nx.Graph() used as a scratch picture of one snapshot (undirected adjacency)."""

    def __init__(self):
        self.adj = {}

    def add_edge(self, a, b):
        self.adj.setdefault(a, [])
        self.adj.setdefault(b, [])
        if b not in self.adj[a]:
            self.adj[a].append(b)
        if a not in self.adj[b]:
            self.adj[b].append(a)

    def __repr__(self):
        return "nx.Graph(%d nodes)" % len(self.adj)


class DagRec:
    def __init__(self):
        self.nodes, self.edges = [], []

    def __repr__(self):
        return "DAG(%d edges)" % len(self.edges)


def T(k):
    return Int("t", k)


IDS = (1, 2, 4)         # snapshot ids t+1, t+2, t+4: a silent instant (t+3) lies between the last two


class DagLoopWorld(QueryWorld):
    def __init__(self, cls, shape, choices, methods, functions, n_ids=3, str_nodes=True, ids=None):
        super().__init__(cls, shape, choices, methods, functions)
        self.ids = list(ids) if ids is not None else [T(k) for k in IDS[:n_ids]]
        self.str_nodes = str_nodes
        self.materialise_timelines(self.ids)
        self.dags = []

    def present(self, u, v, t):
        # nothing is present at an instant that is not a snapshot id (removal-enabled graphs)
        if isinstance(t, Int) and t.base == "t" and all(t.k != i.k for i in self.ids) and self.shape.key(u, v) in self.dicts:
            return False
        return super().present(u, v, t)

    # -- strings ---------------------------------------------------------------------
    def eval_fstring(self, ip, parts, node):
        if len(parts) == 3 and isinstance(parts[1], Const) and parts[1].v == "_" and isinstance(parts[2], Int):
            x = parts[0]
            if isinstance(x, (NodeV, LabelV)):
                return OccV(x.role, parts[2])
        return Opaque("fstring")

    def type_of(self, ip, v):
        if isinstance(v, NodeV):
            return TypeV("str" if self.str_nodes else "nodetype")
        if isinstance(v, (OccV, LabelV, TidStr)):
            return TypeV("str")
        if isinstance(v, DagRec):
            return TypeV("DiGraph")
        return None

    def resolve_name(self, ip, name, node):
        if name in ("tqdm", "np", "random", "itertools", "copy"):
            return Opaque("module:" + name)
        return super().resolve_name(ip, name, node)

    def load_list_item(self, ip, obj, key, node):
        if getattr(obj, "tag", "") == "ndarray" and isinstance(key, ListObj) and not key.items:
            return ListObj([], tag="ndarray")          # an array indexed by an empty index array
        return super().load_list_item(ip, obj, key, node)

    def load_subscript(self, ip, obj, key, node):
        if isinstance(obj, StaticRec):
            if key not in obj.adj:
                raise AbstractRaise("KeyError", node)
            return ListObj(list(obj.adj[key]))
        return super().load_subscript(ip, obj, key, node)

    def load_attr(self, ip, obj, attr, node):
        from .query_check import SnapView
        if isinstance(obj, (OccV, NodeV, DagRec, StaticRec, TidStr, SnapView)):
            return BoundMethod(obj, attr)
        if isinstance(obj, Const) and isinstance(obj.v, str):
            return BoundMethod(obj, attr)
        return super().load_attr(ip, obj, attr, node)

    def contains(self, ip, container, x, node):
        if isinstance(container, StaticRec):
            return x in container.adj
        if isinstance(container, OccV) and isinstance(x, Const) and x.v == "_":
            return True
        if isinstance(container, (LabelV, NodeV)) and isinstance(x, Const) and x.v == "_":
            return False
        return super().contains(ip, container, x, node)

    def call_builtin(self, ip, name, args, kwargs, node):
        if name in ("str", "nodetype") and len(args) == 1 and isinstance(args[0], (NodeV, OccV)):
            # the label of a node is the node (str ids) or converts back to it (other id types)
            return args[0]
        if name == "int" and len(args) == 1 and isinstance(args[0], TidStr):
            return args[0].tid
        from .query_check import SnapView
        if name in ("list", "tuple") and len(args) == 1 and isinstance(args[0], SnapView):
            return ListObj(self.unsorted_ids())
        if name == "sorted" and len(args) == 1 and isinstance(args[0], SnapView) and not kwargs:
            return ListObj(list(self.ids))
        if name == "len" and len(args) == 1 and isinstance(args[0], SnapView):
            return Const(len(self.ids))
        if name in ("min", "max") and len(args) == 1 and isinstance(args[0], SnapView):
            return self.ids[0] if name == "min" else self.ids[-1]
        if name == "type" and len(args) == 1:
            return self.type_of(ip, args[0])
        if name == "len" and len(args) == 1 and isinstance(args[0], (LabelV,)):
            return Const(len(LABELS[args[0].role]))
        return super().call_builtin(ip, name, args, kwargs, node)

    def call_method(self, ip, obj, name, args, kwargs, node):
        if isinstance(obj, OccV):
            if name in ("split", "rsplit") and args and isinstance(args[0], Const) and args[0].v == "_" and (
                    len(args) == 1 or (len(args) == 2 and isinstance(args[1], Const) and isinstance(args[1].v, int) and args[1].v >= 1)):
                # labels contain no '_' (the property's own restriction): exactly one separator
                return ListObj([NodeV(obj.role), TidStr(obj.tid)])
            if name in ("partition", "rpartition") and len(args) == 1 and isinstance(args[0], Const) and args[0].v == "_":
                return TupleV([NodeV(obj.role), Const("_"), TidStr(obj.tid)])
            if name in ("startswith", "endswith") and len(args) == 1:
                full = "%s_%s" % (LABELS[obj.role], "TID")
                other = args[0]
                pre = LABELS[other.role] if isinstance(other, (LabelV, NodeV)) else (
                    "%s_%s" % (LABELS[other.role], "TID") if isinstance(other, OccV) and other.tid == obj.tid else None)
                if isinstance(other, OccV) and other.tid != obj.tid:
                    return Const(False)
                if pre is None:
                    raise Unsupported(node, "%s(%r)" % (name, other))
                return Const(full.startswith(pre) if name == "startswith" else full.endswith(pre))
        if isinstance(obj, NodeV):
            if name in ("split", "rsplit") and args and isinstance(args[0], Const) and args[0].v == "_":
                return ListObj([obj])
            if name in ("partition", "rpartition") and len(args) == 1 and isinstance(args[0], Const) and args[0].v == "_":
                # labels contain no '_' (the property's own restriction): nothing to cut
                return TupleV([obj, Const(""), Const("")]) if name == "partition" else TupleV([Const(""), Const(""), obj])
            if name == "startswith" and len(args) == 1 and isinstance(args[0], NodeV):
                return Const(LABELS[obj.role].startswith(LABELS[args[0].role]))
        if isinstance(obj, Const) and obj.v == "_" and name == "join" and len(args) == 1 and isinstance(args[0], ListObj):
            items = args[0].items
            if len(items) == 1 and isinstance(items[0], NodeV):
                return items[0]
            raise Unsupported(node, "'_'.join(%r)" % (items,))
        from .query_check import SnapView
        if isinstance(obj, SnapView) and name == "keys" and not args:
            return ListObj(self.unsorted_ids())
        if isinstance(obj, StaticRec):
            if name == "add_edge" and len(args) == 2:
                obj.add_edge(args[0], args[1])
                return NONE
            if name == "add_edges_from" and len(args) == 1:
                seq = ip._seq(args[0], node)
                if seq is not None and all(isinstance(x, (TupleV, ListObj)) and len(x.items) >= 2 for x in seq):
                    for x in seq:
                        obj.add_edge(x.items[0], x.items[1])
                    return NONE
            if name in ("add_node",) and len(args) == 1:
                obj.adj.setdefault(args[0], [])
                return NONE
            if name in ("neighbors", "__getitem__", "adj") and len(args) == 1:
                if args[0] not in obj.adj:
                    raise AbstractRaise("KeyError" if name != "neighbors" else "NetworkXError", node)
                return IterV(list(obj.adj[args[0]]))
            if name == "has_node" and len(args) == 1:
                return Const(args[0] in obj.adj)
            if name == "has_edge" and len(args) == 2:
                return Const(args[1] in obj.adj.get(args[0], []))
            if name == "nodes" and not args:
                return ListObj(list(obj.adj))
            if name == "degree" and len(args) == 1:
                return Const(len(obj.adj.get(args[0], [])))
        if isinstance(obj, DagRec):
            if name == "add_node" and len(args) == 1:
                if args[0] not in obj.nodes:
                    obj.nodes.append(args[0])
                return NONE
            if name == "add_edge" and len(args) == 2:
                for x in args:
                    if x not in obj.nodes:
                        obj.nodes.append(x)
                if (args[0], args[1]) not in obj.edges:
                    obj.edges.append((args[0], args[1]))
                return NONE
            if name == "add_edges_from" and len(args) == 1:
                seq = ip._seq(args[0], node)
                if seq is not None and all(isinstance(x, (TupleV, ListObj)) and len(x.items) >= 2 for x in seq):
                    for x in seq:
                        a, b = x.items[0], x.items[1]
                        for y in (a, b):
                            if y not in obj.nodes:
                                obj.nodes.append(y)
                        if (a, b) not in obj.edges:
                            obj.edges.append((a, b))
                    return NONE
            if name == "add_nodes_from" and len(args) == 1:
                seq = ip._seq(args[0], node)
                if seq is not None:
                    for y in seq:
                        if y not in obj.nodes:
                            obj.nodes.append(y)
                    return NONE
            if name == "has_edge" and len(args) == 2:
                return Const((args[0], args[1]) in obj.edges)
            if name in ("number_of_nodes", "order") and not args:
                return Const(len(obj.nodes))
            if name in ("number_of_edges", "size") and not args:
                return Const(len(obj.edges))
            if name in ("nodes", "edges") and not args:
                return ListObj(list(obj.nodes) if name == "nodes" else [TupleV(list(e)) for e in obj.edges])
            if name == "in_degree" and len(args) == 1:
                return Const(sum(1 for (a, b) in obj.edges if b == args[0]))
            if name == "in_degree" and not args:
                return ListObj([TupleV([n, Const(sum(1 for (a, b) in obj.edges if b == n))]) for n in obj.nodes])
            if name == "out_degree" and len(args) == 1:
                return Const(sum(1 for (a, b) in obj.edges if a == args[0]))
            if name == "has_node" and len(args) == 1:
                return Const(args[0] in obj.nodes)
            if name == "predecessors" and len(args) == 1:
                return IterV([a for (a, b) in obj.edges if b == args[0]])
            if name == "successors" and len(args) == 1:
                return IterV([b for (a, b) in obj.edges if a == args[0]])
        return super().call_method(ip, obj, name, args, kwargs, node)

    def unsorted_ids(self):
        """the keys of G.snapshots in insertion order, which need not be chronological"""
        ids = list(self.ids)
        return ids[1:2] + ids[0:1] + ids[2:]

    def concretise_iter(self, ip, it, node):
        from .query_check import SnapView
        if isinstance(it, StaticRec):
            return ListObj(list(it.adj))
        if isinstance(it, DagRec):
            return ListObj(list(it.nodes))
        if isinstance(it, SnapView):
            return ListObj(self.unsorted_ids())
        return super().concretise_iter(ip, it, node)

    def call(self, ip, f, args, kwargs, node):
        if isinstance(f, Opaque):
            if f.tag == "module:nx.Graph" and not args:
                return StaticRec()
            if f.tag == "module:nx.DiGraph" and not args:
                d = DagRec()
                self.dags.append(d)
                return d
            # drawing ZERO elements needs no model of the sampler: nothing is drawn
            if f.tag in ("module:np.random.choice", "module:numpy.random.choice") and args:
                size = kwargs.get("size", args[1] if len(args) > 1 else None)
                if isinstance(size, Const) and size.v == 0:
                    return ListObj([])
                raise Unsupported(node, "numpy.random.choice (the sampler is not modelled)")
            if f.tag in ("module:np.array", "module:numpy.array", "module:np.asarray", "module:numpy.asarray") and len(args) == 1 \
                    and isinstance(args[0], (ListObj, TupleV)):
                return ListObj(list(args[0].items), tag="ndarray")
            if f.tag == "module:nx.all_simple_paths" and len(args) == 3 and isinstance(args[0], DagRec) and set(kwargs) <= {"cutoff"}:
                paths = simple_paths(args[0], args[1], args[2])
                cut = kwargs.get("cutoff")
                if cut is not None and not (isinstance(cut, Const) and cut.v is None):
                    if not (isinstance(cut, Const) and isinstance(cut.v, int)):
                        raise Unsupported(node, "all_simple_paths cutoff %r" % (cut,))
                    paths = [p for p in paths if len(p) - 1 <= cut.v]
                return IterV([ListObj(p) for p in paths])
            if f.tag in ("module:collections.defaultdict", "module:defaultdict") and len(args) == 1 and isinstance(args[0], TypeV) \
                    and args[0].name in ("list", "dict", "set", "int"):
                d = DictObj()
                d.default_factory = {"list": lambda: ListObj([]), "dict": lambda: DictObj(), "set": lambda: SetObj(),
                                     "int": lambda: Const(0)}[args[0].name]
                return d
            if f.tag in ("module:bisect.bisect_left", "module:bisect.bisect_right", "module:bisect.bisect") and len(args) == 2 \
                    and isinstance(args[0], ListObj) and all(isinstance(x, Int) for x in args[0].items) and isinstance(args[1], Int):
                op = "<" if f.tag.endswith("bisect_left") else "<="
                return Const(sum(1 for x in args[0].items if ip.cmp_int(x, args[1], op, node)))
            if f.tag in ("module:tqdm.tqdm", "module:tqdm") and len(args) == 1:
                return args[0]
        return super().call(ip, f, args, kwargs, node)



def simple_paths(dag: DagRec, x, y):
    """networkx >= 3 semantics: all simple paths from x to y; [x] when x == y and x is a node."""
    if x not in dag.nodes or y not in dag.nodes:
        return []
    if x == y:
        return [[x]]
    out = []
    succ = {}
    for (a, b) in dag.edges:
        succ.setdefault(a, []).append(b)

    def rec(path):
        last = path[-1]
        for nb in succ.get(last, []):
            if nb in path:
                continue
            if nb == y:
                out.append(path + [nb])
            else:
                rec(path + [nb])
    rec([x])
    return out


# ---------------------------------------------------------------------------------------------------
def dag_shapes(directed):
    if directed:
        return [Shape("A->B, B->AB, AB->A", ["A", "B", "AB"], [("A", "B"), ("B", "AB"), ("AB", "A")], True),
                Shape("A<->B, B->C", ["A", "B", "C"], [("A", "B"), ("B", "A"), ("B", "C")], True)]
    return [Shape("A-B, B-AB", ["A", "B", "AB"], [("A", "B"), ("B", "AB")], False),
            Shape("triangle A-B-C", ["A", "B", "C"], [("A", "B"), ("B", "C"), ("A", "C")], False)]


class PresenceTable:
    def __init__(self, shape, seed, ids):
        self.shape, self.seed, self.ids = shape, seed, ids

    def present(self, x, y, tid):
        """is the interaction x-y (x->y when directed) present at tid?"""
        k = self.shape.key(x, y)
        return bool(self.seed.get(("present", k, repr(tid))))

    def out_nbrs(self, x, tid):
        out = []
        for (a, b) in self.shape.edges:
            if a == x and self.present(a, b, tid):
                out.append(b)
            elif not self.shape.directed and b == x and self.present(a, b, tid):
                out.append(a)
        return out


def _seeds(shape, ids):
    keys = sorted({shape.key(*e) for e in shape.edges}, key=str)
    slots = [(k, repr(t)) for k in keys for t in ids]
    for vals in itertools.product((False, True), repeat=len(slots)):
        yield {("present", k, t): v for (k, t), v in zip(slots, vals)}


def zero_placements():
    """Order types that place the literal 0 relative to the instants t+1 .. t+4: needed as soon as the code tests an instant
    for truth or compares it with a literal (``start or ids[0]``)."""
    ots = [OrderType([["0"], ["t"]], [None], 8), OrderType([["t"], ["0"]], [None], 8)]
    for k in (1, 2, 3, 4):
        ots.append(OrderType([["t"], ["0"]], [k], 8))         # t + k == 0
    return ots


def _with_zero(f, rep, *a, **k):
    """Run f(rep, ot) on the plain order type; if it needs the literal 0, run it for every placement of 0 instead."""
    from .absint import NeedZero
    scratch = Report(rep.prop)
    try:
        n = f(scratch, OrderType([["t"]], [], 8), *a, **k)
    except NeedZero:
        scratch = Report(rep.prop)
        n = 0
        for ot in zero_placements():
            n += f(scratch, ot, *a, **k)
        scratch.stats["zero_symbol"] = True
    rep.absorb(scratch)
    return n


def check_dag_and_paths(repo: Repo, rep: Report, tier="quick", which=("dag", "paths")):
    return _with_zero(lambda r, ot: _check_dag_and_paths(repo, r, tier, which, ot), rep)


def _check_dag_and_paths(repo: Repo, rep: Report, tier, which, ot):
    functions = repo.functions(PATHS)
    fn_dag = repo.get(PATHS, "temporal_dag")
    fn_trp = repo.get(PATHS, "time_respecting_paths")
    c_dag, c_trp = repo.construct(PATHS, "temporal_dag"), repo.construct(PATHS, "time_respecting_paths")
    findings = {}
    stats = dict(runs=0, dags=0, paths=0)

    def add(construct, key, msg, wit, line=0):
        if (construct, key) not in findings:
            findings[(construct, key)] = dict(message=msg, witness=wit, line=line, count=0)
        findings[(construct, key)]["count"] += 1
    n_ids = 3
    for cls in CLASSES:
        directed = cls == "DynDiGraph"
        methods = repo.class_methods(CLASSES[cls], cls)
        shapes = dag_shapes(directed)
        if tier == "quick":
            # two stored pairs per shape (64 presence valuations each); the three-pair shapes run in the thorough tier
            shapes = [Shape(sh.name + " (first two pairs)" if len(sh.edges) > 2 else sh.name, sh.nodes, sh.edges[:2], directed) for sh in shapes]
        def run_case(shape, ids, root, vt, window, str_nodes, seed, cls=cls, directed=directed, methods=methods):
            stats["runs"] += 1
            P = PresenceTable(shape, seed, ids)
            win = [t for t in ids if (window[0] is None or t.k >= window[0].k) and (window[1] is None or t.k <= window[1].k)]
            wit = "%s %s | root %s, v=%s, window=%s | present: %s" % (
                cls, shape.name, root, vt, ("all ids (%s)" % ", ".join("t%+d" % t.k for t in ids)) if window[0] is None else "[t%+d,t%+d] of ids %s" % (
                    window[0].k, window[1].k, ", ".join("t%+d" % t.k for t in ids)),
                ", ".join("%s%s%s@%s" % (k[1][0], "->" if directed else "-", k[1][1], k[2]) for k, v in sorted(seed.items(), key=str) if v) or "nothing")
            env = {"G": SelfV(), "u": NodeV(root), "v": NodeV(vt) if vt else NONE,
                   "start": window[0] if window[0] is not None else NONE, "end": window[1] if window[1] is not None else NONE}
            custom = ids if [t.k for t in ids] != list(IDS[:n_ids]) else None
            for what, fn_, construct, depth in (("dag", fn_dag, c_dag, 8), ("paths", fn_trp, c_trp, 10)):
                if what not in which:
                    continue

                def once(ch, fn_=fn_, depth=depth, what=what):
                    w = DagLoopWorld(cls, shape, ch, methods, functions, n_ids, str_nodes, ids=custom)
                    ip = Interp(w, ot, max_depth=depth)
                    env2 = dict(env)
                    if what == "paths":
                        env2["sample"] = Const(1)
                    try:
                        return ip.call_function(fn_, env2), None
                    except AbstractRaise as r:
                        return None, r
                # facts outside the presence valuation (is a node id falsy?) are explored as choices
                for ch, (val, r) in run_all_choices(once, max_runs=16, seed=dict(seed)):
                    extra = {k: v for k, v in ch.items() if k not in seed and v}
                    wit2 = wit + ((" | " + ", ".join("%s" % (k,) for k in extra)) if extra else "")
                    if r is not None:
                        add(construct, "raises:%s" % r.exc, "%s raises %s (%s)" % (fn_.name, r.exc, r.detail), wit2, getattr(r.node, "lineno", 0))
                        continue
                    if what == "dag":
                        stats["dags"] += 1
                        _judge_dag(add, c_dag, val, P, shape, root, vt, win, wit2)
                    else:
                        stats["paths"] += 1
                        _judge_paths(add, c_trp, val, P, shape, root, vt, win, window, wit2)

        if "dag" in which:
            # the root carries a self-loop: an occurrence must not become its own successor
            loop = Shape("self-loop A-A, A-B" if not directed else "self-loop A->A, A->B", ["A", "B"], [("A", "A"), ("A", "B")], directed)
            ids = [T(k) for k in IDS[:n_ids]]
            keep = which
            which = ("dag",)
            for vt in (None, "B"):
                for seed in _seeds(loop, ids):
                    run_case(loop, ids, "A", vt, (None, None), True, seed)
            which = keep
        for shape in shapes:
            ids = [T(k) for k in IDS[:n_ids]]
            combos = [("A", None), ("A", "AB" if "AB" in shape.nodes else "C")]
            if "AB" in shape.nodes:
                combos.append(("B", "A"))       # v's label is a proper prefix of another node's label
            for (root, vt) in combos:
                for window in ((None, None), (T(2), T(3)), (T(3), T(4))):
                    for str_nodes in ((True,) if tier == "quick" else (True, False)):
                        for seed in _seeds(shape, ids):
                            run_case(shape, ids, root, vt, window, str_nodes, seed)
        # walks that return to their source (a 3-cycle closing at an instant where the source interacts again): the place
        # where two consecutive hops can carry the same time.  Three stored pairs, a few targeted presence patterns.
        ids = [T(k) for k in IDS[:n_ids]]
        if directed:
            cyc = Shape("cycle A->B, B->AB, AB->A", ["A", "B", "AB"], [("A", "B"), ("B", "AB"), ("AB", "A")], True)
            pats = {("A", "B"): [(1,), (1, 4), (1, 2)], ("B", "AB"): [(2,), (2, 4)], ("AB", "A"): [(4,), (2, 4)]}
        else:
            cyc = Shape("triangle A-B-C", ["A", "B", "C"], [("A", "B"), ("B", "C"), ("A", "C")], False)
            pats = {("A", "B"): [(1,), (1, 4), (1, 2)], ("B", "C"): [(2,), (2, 4)], ("A", "C"): [(4,), (2, 4)]}
        keys = sorted(pats, key=str)
        for combo in itertools.product(*[pats[k] for k in keys]):
            seed = {("present", k, repr(t)): (t.k in on) for k, on in zip(keys, combo) for t in ids}
            for vt in (None, "B"):
                run_case(cyc, ids, "A", vt, (None, None), True, seed)
        # ... and a walk that returns to its source, finds it idle at the next snapshot and would leave it afterwards: the
        # occurrence of the source reached through the cycle expires like any other (five snapshot ids, one valuation each)
        ids5 = [T(k) for k in (1, 2, 3, 4, 5)]
        if directed:
            back = Shape("cycle A->B->C->A, X->Y, A->D", ["A", "B", "C", "D", "X", "Y"], [("A", "B"), ("B", "C"), ("C", "A"), ("X", "Y"), ("A", "D")], True)
            on = {("A", "B"): (1,), ("B", "C"): (2,), ("C", "A"): (3,), ("X", "Y"): (4,)}
        else:
            back = Shape("cycle A-B-C-A, X-Y, A-D", ["A", "B", "C", "D", "X", "Y"], [("A", "B"), ("B", "C"), ("A", "C"), ("X", "Y"), ("A", "D")], False)
            on = {("A", "B"): (1,), ("B", "C"): (2,), ("A", "C"): (3,), ("X", "Y"): (4,)}
        for ad in ((5,), (3, 5), (4, 5), (1, 5)):
            pres = dict(on)
            pres[("A", "D")] = ad
            seed = {("present", k, repr(t)): (t.k in pres[k]) for k in pres for t in ids5}
            run_case(back, ids5, "A", None, (None, None), True, seed)
    for (construct, key), f in sorted(findings.items()):
        rep.finding("Q.paths", construct, key, f["message"] + " [%d valuations]" % f["count"], witness=f["witness"], line=f["line"])
    if "dag" in which:
        rep.ob("Q.paths", c_dag, "DAG clauses judged on %d interpreted DAGs" % stats["dags"], ok=not any(c == c_dag for c, _ in findings))
    if "paths" in which:
        rep.ob("Q.paths", c_trp, "path clauses judged on %d interpreted calls" % stats["paths"], ok=not any(c == c_trp for c, _ in findings))
    rep.stats["abstract_runs"] = rep.stats.get("abstract_runs", 0) + stats["dags"] + stats["paths"]
    rep.sample(dict(engine="Q", what="temporal_dag / time_respecting_paths on symbolic temporal graphs", runs=stats["runs"],
                    shapes=[s.name for s in dag_shapes(False)] + [s.name for s in dag_shapes(True)], ids=["t+1", "t+2", "t+3"]))
    return stats["dags"] + stats["paths"]


def _occ(x):
    if isinstance(x, OccV):
        return x.role, x.tid.k
    if isinstance(x, NodeV):
        return x.role, None
    return None, None


def _judge_dag(add, construct, val, P, shape, root, vt, win, wit):
    if not (isinstance(val, TupleV) and len(val.items) == 5 and isinstance(val.items[0], DagRec)):
        add(construct, "result-shape", "temporal_dag returns %r" % (val,), wit)
        return
    dag, sources, targets = val.items[0], val.items[1], val.items[2]
    src = [s for s in (sources.items if isinstance(sources, ListObj) else [])]
    tgt = [s for s in (targets.items if isinstance(targets, ListObj) else [])]
    wk = [t.k for t in win]
    byk = {t.k: t for t in P.ids}
    src_set = {(_occ(s)) for s in src}
    # sources
    want_src = {(root, k) for k in wk if P.out_nbrs(root, byk[k])}
    if src_set != want_src:
        kind = "missing" if want_src - src_set else "extra"
        add(construct, "sources:%s" % kind, "sources are %s; the occurrences of the root at window instants where it has a neighbour are %s" % (
            sorted(src_set, key=str), sorted(want_src)), wit)
    # edges
    for (a, b) in dag.edges:
        (x, s), (y, t) = _occ(a), _occ(b)
        if y is None or t is None:
            add(construct, "edge:shape", "edge %r -> %r does not end in a time-stamped occurrence" % (a, b), wit)
            continue
        if (x, s) == (y, t):
            add(construct, "edge:cycle", "edge %r -> %r starts and ends in the same occurrence: the result is not acyclic" % (a, b), wit)
            continue
        if t not in wk:
            add(construct, "edge:outside-window", "edge %r -> %r: its instant lies outside the window" % (a, b), wit)
            continue
        if not P.present(x, y, byk[t]):
            rev = P.present(y, x, byk[t]) if shape.directed else False
            add(construct, "edge:%s" % ("reversed-orientation" if rev else "absent-interaction"),
                "edge %r -> %r: the interaction %s%s%s is not present at that instant%s" % (
                    a, b, x, "->" if shape.directed else "-", y, " (only the reverse one is)" if rev else ""), wit)
            continue
        if s is None or (x, s) in src_set and s == t:
            if s is not None and x != root:
                add(construct, "edge:same-instant", "edge %r -> %r stays in one instant although %r is not a source occurrence" % (a, b, a), wit)
            continue
        if not s < t:
            add(construct, "edge:time-order", "edge %r -> %r does not go forward in time" % (a, b), wit)
            continue
        # waiting: the occurrence X@s must have had a neighbour at every window instant strictly between s and t
        gaps = [k for k in wk if s < k < t and not P.out_nbrs(x, byk[k])]
        if gaps:
            add(construct, "edge:waits-through-inactive-instant", "edge %r -> %r: %s has no %sinteraction at t+%d in between, the occurrence should "
                "have expired" % (a, b, x, "outgoing " if shape.directed else "", gaps[0]), wit)
    # targets
    for tg in tgt:
        y, t = _occ(tg)
        if tg not in dag.nodes:
            add(construct, "targets:not-in-dag", "target %r is not a node of the DAG" % (tg,), wit)
        if vt is not None and y != vt:
            add(construct, "targets:other-node", "target %r is not an occurrence of v=%s" % (tg, vt), wit)
    for s in src:
        if s not in dag.nodes:
            add(construct, "sources:not-in-dag", "source %r is not a node of the DAG" % (s,), wit)


def _judge_paths(add, construct, val, P, shape, root, vt, win, window, wit):
    wk = [t.k for t in win]
    byk = {t.k: t for t in P.ids}
    start_t = window[0] if window[0] is not None else None
    # presence-at-start guard: with start=None has_node(u, None) is flattened membership
    if isinstance(val, ListObj) and not val.items:
        present_at_start = True if start_t is None else bool(P.out_nbrs(root, start_t) or any(
            P.present(a, b, start_t) for (a, b) in shape.edges if b == root))
        if present_at_start and start_t is not None:
            add(construct, "start-guard:spurious-empty", "returns [] although u is present at start", wit)
        return
    if not isinstance(val, DictObj):
        add(construct, "result-shape", "time_respecting_paths returns %r" % (val,), wit)
        return
    seen = set()
    for key, plist in val.entries.items():
        if not isinstance(plist, ListObj):
            add(construct, "result-shape", "paths of %r are %r" % (key, plist), wit)
            continue
        for p in plist.items:
            hops = []
            ok = isinstance(p, (TupleV, ListObj)) and len(p.items) > 0
            if ok:
                for h in p.items:
                    if not (isinstance(h, TupleV) and len(h.items) == 3 and isinstance(h.items[0], NodeV) and isinstance(h.items[1], NodeV)
                            and isinstance(h.items[2], Int)):
                        ok = False
                        break
                    hops.append((h.items[0].role, h.items[1].role, h.items[2].k))
            if not ok:
                add(construct, "path:empty-or-malformed", "a returned path is %r" % (p,), wit)
                continue
            sig = tuple(hops)
            if sig in seen:
                add(construct, "path:duplicate", "the path %s is returned twice" % (list(hops),), wit)
            seen.add(sig)
            k0 = key.items if isinstance(key, TupleV) else None
            if not (k0 and len(k0) == 2 and isinstance(k0[0], NodeV) and isinstance(k0[1], NodeV) and (k0[0].role, k0[1].role) == (hops[0][0], hops[-1][1])):
                add(construct, "path:key", "the path %s is grouped under %r instead of (first node, last node)" % (list(hops), key), wit)
            if hops[0][0] != root:
                add(construct, "path:first-hop", "the path %s does not leave u=%s" % (list(hops), root), wit)
            if vt is not None and hops[-1][1] != vt:
                add(construct, "path:last-hop", "the path %s does not reach v=%s" % (list(hops), vt), wit)
            for (a, b, t) in hops:
                if t not in wk:
                    add(construct, "path:outside-window", "hop %s of %s lies outside the window" % ((a, b, t), list(hops)), wit)
                elif not P.present(a, b, byk[t]):
                    add(construct, "path:absent-hop", "hop (%s,%s)@t+%d of %s is not an interaction present at that instant" % (a, b, t, list(hops)), wit)
            for (h1, h2) in zip(hops, hops[1:]):
                if h1[1] != h2[0]:
                    add(construct, "path:not-chained", "hops %s and %s of a path do not chain" % (h1, h2), wit)
                if not h1[2] < h2[2]:
                    add(construct, "path:times-not-increasing", "consecutive hops %s, %s do not have strictly increasing times" % (h1, h2), wit)
                if h2[0] == h1[1] and h2[1] == h1[0]:
                    add(construct, "path:reversal", "hop %s immediately reverses %s" % (h2, h1), wit)
                if h1[1] == h2[0] and h1[2] < h2[2]:
                    idle = [k for k in wk if h1[2] < k < h2[2] and not P.out_nbrs(h1[1], byk[k])]
                    if idle:
                        add(construct, "path:waits-through-inactive-instant",
                            "in %s the walk waits on %s from t+%d to t+%d although %s has no %sinteraction at t+%d" % (
                                list(hops), h1[1], h1[2], h2[2], h1[1], "outgoing " if shape.directed else "", idle[0]), wit)


# ---------------------------------------------------------------------------------------------------
# C13 on the bounded shapes: the returned set equals the brute-force enumeration of admissible hop sequences
# ---------------------------------------------------------------------------------------------------
def oracle_paths(P, shape, root, vt, wk):
    """All hop sequences that satisfy the conditions of C12 on the graph described by the presence table: first hop leaves
    the root, hops chain, times strictly increase inside the window, every hop is present (oriented), no hop immediately
    reverses the previous one, a node waits only through instants at which it has an (outgoing) interaction, the last hop
    reaches v when v is given."""
    byk = {t.k: t for t in P.ids}
    out = set()

    def extend(hops):
        if vt is None or hops[-1][1] == vt:
            out.add(tuple(hops))
        (a, b, t) = hops[-1]
        for t2 in wk:
            if t2 <= t:
                continue
            if any(not P.out_nbrs(b, byk[k]) for k in wk if t < k < t2):
                break               # b expired before t2 (and stays expired)
            for c in P.out_nbrs(b, byk[t2]):
                if c == a:
                    continue        # (b, a) would immediately reverse (a, b)
                extend(hops + [(b, c, t2)])
    for t in wk:
        for b in P.out_nbrs(root, byk[t]):
            extend([(root, b, t)])
    return out


def _returned_paths(val):
    """hop tuples of a time_respecting_paths result, or None when the result has another shape"""
    if isinstance(val, ListObj) and not val.items:
        return set()
    if not isinstance(val, DictObj):
        return None
    got = set()
    for key, plist in val.entries.items():
        if not isinstance(plist, ListObj):
            return None
        for p in plist.items:
            if not isinstance(p, (TupleV, ListObj)):
                return None
            hops = []
            for h in p.items:
                if not (isinstance(h, TupleV) and len(h.items) == 3 and isinstance(h.items[0], NodeV) and isinstance(h.items[1], NodeV)
                        and isinstance(h.items[2], Int)):
                    return None
                hops.append((h.items[0].role, h.items[1].role, h.items[2].k))
            got.add(tuple(hops))
    return got


def check_completeness(repo: Repo, rep: Report, tier="quick"):
    return _with_zero(lambda r, ot: _check_completeness(repo, r, tier, ot), rep)


def _check_completeness(repo: Repo, rep: Report, tier, ot):
    """time_respecting_paths(sample=1) against the brute-force enumeration, and all_time_respecting_paths against
    time_respecting_paths, on the symbolic temporal graphs of the C12 check (every presence valuation)."""
    functions = repo.functions(PATHS)
    fn_trp = repo.get(PATHS, "time_respecting_paths")
    fn_all = repo.get(PATHS, "all_time_respecting_paths")
    c_trp, c_all = repo.construct(PATHS, "time_respecting_paths"), repo.construct(PATHS, "all_time_respecting_paths")
    params_all = [a.arg for a in fn_all.args.args]
    if params_all[:1] != ["G"] or "min_t" not in params_all:
        raise AnalysisError("all_time_respecting_paths: unexpected signature %s" % params_all)
    findings = {}
    stats = dict(runs=0, paths=0, oracle=0, aggregated=0)

    def add(construct, key, msg, wit, line=0):
        if (construct, key) not in findings:
            findings[(construct, key)] = dict(message=msg, witness=wit, line=line, count=0)
        findings[(construct, key)]["count"] += 1
    n_ids = 3
    for cls in CLASSES:
        directed = cls == "DynDiGraph"
        methods = repo.class_methods(CLASSES[cls], cls)
        shapes = dag_shapes(directed)
        if tier == "quick":
            shapes = [Shape(sh.name + " (first two pairs)" if len(sh.edges) > 2 else sh.name, sh.nodes, sh.edges[:2], directed) for sh in shapes]
        ids = [T(k) for k in IDS[:n_ids]]
        cases = [(shape, seed) for shape in shapes for seed in _seeds(shape, ids)]
        if directed:
            cyc = Shape("cycle A->B, B->AB, AB->A", ["A", "B", "AB"], [("A", "B"), ("B", "AB"), ("AB", "A")], True)
            pats = {("A", "B"): [(1,), (1, 4), (1, 2)], ("B", "AB"): [(2,), (2, 4)], ("AB", "A"): [(4,), (2, 4)]}
        else:
            cyc = Shape("triangle A-B-C", ["A", "B", "C"], [("A", "B"), ("B", "C"), ("A", "C")], False)
            pats = {("A", "B"): [(1,), (1, 4), (1, 2)], ("B", "C"): [(2,), (2, 4)], ("A", "C"): [(4,), (2, 4)]}
        keys = sorted(pats, key=str)
        for combo in itertools.product(*[pats[k] for k in keys]):
            cases.append((cyc, {("present", k, repr(t)): (t.k in on) for k, on in zip(keys, combo) for t in ids}))
        # two routes that converge on one occurrence (A-B, A-C at t+1; B-D, C-D at t+2) and a continuation from it that is a bounce
        # for one of the routes only (D-B at t+4): what may follow an occurrence depends on where the walk came from
        if directed:
            dia = Shape("diamond A->B, A->C, B->D, C->D, D->B", ["A", "B", "C", "D"], [("A", "B"), ("A", "C"), ("B", "D"), ("C", "D"), ("D", "B")], True)
            dpats = [{("A", "B"): (1,), ("A", "C"): (1,), ("B", "D"): (2,), ("C", "D"): (2,), ("D", "B"): (4,)},
                     {("A", "B"): (1,), ("A", "C"): (1, 2), ("B", "D"): (2,), ("C", "D"): (2, 4), ("D", "B"): (4,)}]
        else:
            dia = Shape("diamond A-B, A-C, B-D, C-D", ["A", "B", "C", "D"], [("A", "B"), ("A", "C"), ("B", "D"), ("C", "D")], False)
            dpats = [{("A", "B"): (1,), ("A", "C"): (1,), ("B", "D"): (2, 4), ("C", "D"): (2,)},
                     {("A", "B"): (1,), ("A", "C"): (1, 2), ("B", "D"): (2, 4), ("C", "D"): (2, 4)}]
        for pat in dpats:
            cases.append((dia, {("present", dia.key(*k), repr(t)): (t.k in on) for k, on in pat.items() for t in ids}))
        # a walk that passes through the target and comes back to it later (four ids: A-AB at t+1, AB-C at t+2, C-D at t+4, D-AB at t+5):
        # the search must not stop at the first occurrence of v
        ids4 = [T(k) for k in (1, 2, 4, 5)]
        if directed:
            ret = Shape("A->AB, AB->C, C->D, D->AB", ["A", "AB", "C", "D"], [("A", "AB"), ("AB", "C"), ("C", "D"), ("D", "AB")], True)
        else:
            ret = Shape("A-AB, AB-C, C-D, D-AB", ["A", "AB", "C", "D"], [("A", "AB"), ("AB", "C"), ("C", "D"), ("D", "AB")], False)
        rpats = [{("A", "AB"): (1,), ("AB", "C"): (2,), ("C", "D"): (4,), ("D", "AB"): (5,)},
                 {("A", "AB"): (1, 2), ("AB", "C"): (2, 4), ("C", "D"): (4,), ("D", "AB"): (4, 5)}]
        for pat in rpats:
            cases.append((ret, {("present", ret.key(*k), repr(t)): (t.k in on) for k, on in pat.items() for t in ids4}, ids4))
        ids3 = ids
        for case in cases:
            shape, seed = case[0], case[1]
            ids = case[2] if len(case) > 2 else ids3
            P = PresenceTable(shape, seed, ids)
            pres = ", ".join("%s%s%s@%s" % (k[1][0], "->" if directed else "-", k[1][1], k[2]) for k, v in sorted(seed.items(), key=str) if v) or "nothing"
            for window in ((None, None), (T(2), T(4))):
                win = [t for t in ids if (window[0] is None or t.k >= window[0].k) and (window[1] is None or t.k <= window[1].k)]
                wk = [t.k for t in win]
                per_root = {}
                for root in shape.nodes:
                    for vt in (None,) + ((("AB" if "AB" in shape.nodes else "C"),) if root == "A" else ()):
                        stats["runs"] += 1
                        wit = "%s %s | u=%s, v=%s, window=%s | present: %s" % (
                            cls, shape.name, root, vt, "all ids (%s)" % ", ".join(repr(t) for t in ids) if window[0] is None else "[t+2,t+4]", pres)
                        env = {"G": SelfV(), "u": NodeV(root), "v": NodeV(vt) if vt else NONE,
                               "start": window[0] if window[0] is not None else NONE, "end": window[1] if window[1] is not None else NONE,
                               "sample": Const(1)}

                        def once(ch, env=env):
                            w = DagLoopWorld(cls, shape, ch, methods, functions, n_ids, True, ids=ids)
                            ip = Interp(w, ot, max_depth=10)
                            try:
                                return ip.call_function(fn_trp, dict(env)), None
                            except AbstractRaise as r:
                                return None, r
                        runs = run_all_choices(once, max_runs=16, seed=dict(seed))
                        # facts outside the valuation (a falsy node id ...) are choices: every one of them must give the full set
                        val, r = runs[0][1]
                        for ch_, (v_, r_) in runs[1:]:
                            if r_ is not None or _returned_paths(v_) != _returned_paths(val):
                                val, r = v_, r_
                                wit += " | " + ", ".join(str(k) for k, x in ch_.items() if k not in seed and x)
                                break
                        if r is not None:
                            add(c_trp, "raises:%s" % r.exc, "time_respecting_paths raises %s (%s)" % (r.exc, r.detail), wit, getattr(r.node, "lineno", 0))
                            continue
                        stats["paths"] += 1
                        got = _returned_paths(val)
                        if got is None:
                            add(c_trp, "result-shape", "time_respecting_paths returns %r" % (val,), wit)
                            continue
                        if vt is None:
                            per_root[root] = val
                        start_k = wk[0] if wk else None
                        first_id = ids[0]
                        at_start = window[0] if window[0] is not None else first_id
                        present_at_start = bool(P.out_nbrs(root, at_start) or any(P.present(a, b, at_start) for (a, b) in shape.edges if b == root))
                        if not present_at_start:
                            if window[0] is not None and got:
                                add(c_trp, "start-guard:not-empty", "u has no interaction at start but %d path(s) are returned" % len(got), wit)
                            continue        # (default start: the guard on the flattened graph is not judged, see C12)
                        want = oracle_paths(P, shape, root, vt, wk)
                        stats["oracle"] += len(want)
                        missing = want - got
                        if missing:
                            ex = sorted(missing, key=lambda p: (len(p), p))[0]
                            add(c_trp, "missed:%d-hop" % len(ex),
                                "the admissible hop sequence %s is not returned (%d of %d admissible sequences are missing)" % (
                                    list(ex), len(missing), len(want)), wit)
                # all_time_respecting_paths: every (u, w) of every u present at min_t maps to time_respecting_paths(u)[(u, w)]
                for min_t in (None, T(2)):
                    stats["runs"] += 1
                    wit = "%s %s | all_time_respecting_paths(start, end = %s, min_t=%s) | present: %s" % (
                        cls, shape.name, "None" if window[0] is None else "t+2, t+4", "None" if min_t is None else "t+2", pres)

                    def once_all(ch, min_t=min_t):
                        w = DagLoopWorld(cls, shape, ch, methods, functions, n_ids, True, ids=ids)
                        ip = Interp(w, ot, max_depth=12)
                        env = {"G": SelfV(), "start": window[0] if window[0] is not None else NONE, "end": window[1] if window[1] is not None else NONE,
                               "sample": Const(1), "min_t": min_t if min_t is not None else NONE}
                        try:
                            return ip.call_function(fn_all, {k: v for k, v in env.items() if k in params_all}), None
                        except AbstractRaise as r_:
                            return None, r_
                    outcomes = run_all_choices(once_all, max_runs=16, seed=dict(seed))
                    bad = next(((v_, r_) for _, (v_, r_) in outcomes if r_ is not None), None)
                    val, r = bad if bad is not None else outcomes[-1][1]
                    if len({repr(to_py(v_)) if isinstance(v_, DictObj) else repr(v_) for _, (v_, r_) in outcomes if r_ is None}) > 1:
                        add(c_all, "depends-on-unspecified-order", "all_time_respecting_paths answers differently depending on an unspecified "
                            "iteration order (a set walked in a loop)", wit)
                        continue
                    if r is not None:
                        add(c_all, "raises:%s" % r.exc, "all_time_respecting_paths raises %s (%s)" % (r.exc, r.detail), wit, getattr(r.node, "lineno", 0))
                        continue
                    if not isinstance(val, DictObj):
                        add(c_all, "result-shape", "all_time_respecting_paths returns %r" % (val,), wit)
                        continue
                    stats["aggregated"] += 1
                    want = {}
                    for root in shape.nodes:
                        at = min_t
                        here = True if at is None else bool(P.out_nbrs(root, at) or any(P.present(a, b, at) for (a, b) in shape.edges if b == root))
                        res = per_root.get(root)
                        if not here or not isinstance(res, DictObj):
                            continue
                        for key, plist in res.entries.items():
                            want[to_py(key)] = to_py(plist)
                    got = {to_py(k): to_py(v) for k, v in val.entries.items()}
                    if got != want:
                        miss = sorted(set(want) - set(got), key=str)
                        extra = sorted(set(got) - set(want), key=str)
                        kind = "missing-pairs" if miss else ("extra-pairs" if extra else "different-paths")
                        add(c_all, "aggregation:%s" % kind,
                            "all_time_respecting_paths maps %s; time_respecting_paths(G, u, None, start, end) for the nodes u present at min_t "
                            "gives %s" % (sorted(got, key=str), sorted(want, key=str)), wit)
    for (construct, key), f in sorted(findings.items()):
        rep.finding("Q.complete", construct, key, f["message"] + " [%d valuations]" % f["count"], witness=f["witness"], line=f["line"])
    rep.ob("Q.complete", c_trp, "returned set = brute-force enumeration on %d interpreted calls (%d admissible sequences)" % (stats["paths"], stats["oracle"]),
           ok=not any(c == c_trp for c, _ in findings))
    rep.ob("Q.complete", c_all, "aggregation = per-source results on %d interpreted calls" % stats["aggregated"], ok=not any(c == c_all for c, _ in findings))
    rep.stats["abstract_runs"] = rep.stats.get("abstract_runs", 0) + stats["paths"] + stats["aggregated"]
    rep.sample(dict(engine="Q", what="completeness of time_respecting_paths on symbolic temporal graphs", **stats))
    return stats["paths"] + stats["aggregated"]
