"""P7 - state shared between calls or between graphs.

Every property is stated for *a* graph and *a* call: what a function answers may depend on its arguments and on the graph
it is given, never on which calls were made before on this or on another graph.  Python offers four places in which such
state hides; each is a syntactic construct and is reported at its site:

  S1  a mutable default argument (``def f(x, seen={})``, ``names=dict(_attrs)``) that the body changes in place or lets
      escape (stores, returns, yields): it is created once and outlives the call;
  S2  a mutable class attribute (``_cache = {}`` in the class body) changed in place through ``self`` / the class: one object
      for all graphs;
  S3  a memoising decorator (``functools.lru_cache`` / ``cache``) on a method of a graph class or on a function that takes a
      graph: the graph is mutable, the memo is not told;
  S4  a one-shot iterator (``chain(..)``, ``zip(..)``, ``map(..)``, ``iter(..)``, a generator expression) bound at module or
      class level and consumed inside a function: the second call finds it exhausted.

One idiom is *not* reported because it cannot change an answer: the exact memo -

      def f(a, b, conv, _memo={}):
          if (a, conv) not in _memo: _memo[(a, conv)] = conv(a)        # the value is computed from the names in the key only
          return _memo[(a, conv)]                                      # (plain names, none of them a graph)

Anything else that writes to the shared object is reported (a key that drops, rounds or formats an argument is how a memo goes
wrong)."""
from __future__ import annotations
import ast
from .core import Repo, Report, src

MUTABLE_CALLS = {"dict", "list", "set", "defaultdict", "OrderedDict", "Counter", "deque", "bytearray"}
MUTATORS = {"append", "extend", "insert", "add", "update", "setdefault", "pop", "popitem", "clear", "remove", "discard", "sort", "reverse",
            "appendleft", "extendleft", "subtract", "move_to_end", "difference_update", "intersection_update", "symmetric_difference_update"}
ONE_SHOT = {"iter", "zip", "map", "filter", "chain", "from_iterable", "enumerate", "reversed", "islice", "starmap", "accumulate", "product",
            "combinations", "permutations", "zip_longest", "pairwise", "groupby"}
GRAPH_PARAMS = {"self", "G", "g", "graph", "dg", "H"}
GRAPH_CLASSES = {"DynGraph", "DynDiGraph"}


def _is_mutable_expr(e):
    if isinstance(e, (ast.List, ast.Dict, ast.Set, ast.ListComp, ast.DictComp, ast.SetComp)):
        return True
    if isinstance(e, ast.Call):
        f = e.func
        name = f.id if isinstance(f, ast.Name) else (f.attr if isinstance(f, ast.Attribute) else None)
        return name in MUTABLE_CALLS
    return False


def _is_one_shot_expr(e):
    if isinstance(e, ast.GeneratorExp):
        return True
    if isinstance(e, ast.Call):
        f = e.func
        name = f.id if isinstance(f, ast.Name) else (f.attr if isinstance(f, ast.Attribute) else None)
        return name in ONE_SHOT
    return False


def _walk_own(fn):
    """nodes of fn's body, nested functions and lambdas included (they see the same default object)"""
    for st in fn.body:
        yield from ast.walk(st)


def _uses(fn, name):
    """how the parameter `name` is used in fn: (writes, escapes) - lists of (lineno, what)"""
    writes, escapes = [], []
    aliases = {name}
    for n in _walk_own(fn):
        if isinstance(n, ast.Assign) and isinstance(n.value, ast.Name) and n.value.id in aliases:
            for t in n.targets:
                if isinstance(t, ast.Name):
                    aliases.add(t.id)
    for n in _walk_own(fn):
        if isinstance(n, (ast.Subscript,)) and isinstance(n.ctx, (ast.Store, ast.Del)) and isinstance(n.value, ast.Name) and n.value.id in aliases:
            writes.append((n.lineno, "%s[..] is %s" % (n.value.id, "deleted" if isinstance(n.ctx, ast.Del) else "assigned")))
        if isinstance(n, ast.AugAssign) and isinstance(n.target, ast.Name) and n.target.id in aliases:
            writes.append((n.lineno, "%s is updated in place (%s=)" % (n.target.id, type(n.op).__name__)))
        if isinstance(n, ast.AugAssign) and isinstance(n.target, ast.Subscript) and isinstance(n.target.value, ast.Name) and n.target.value.id in aliases:
            writes.append((n.lineno, "%s[..] is updated in place" % n.target.value.id))
        if isinstance(n, ast.Call) and isinstance(n.func, ast.Attribute) and isinstance(n.func.value, ast.Name) and n.func.value.id in aliases \
                and n.func.attr in MUTATORS:
            writes.append((n.lineno, "%s.%s(..)" % (n.func.value.id, n.func.attr)))
        if isinstance(n, (ast.Return, ast.Yield)) and isinstance(n.value, ast.Name) and n.value.id in aliases:
            escapes.append((n.lineno, "%s is returned" % n.value.id))
        if isinstance(n, ast.Assign) and isinstance(n.value, ast.Name) and n.value.id in aliases:
            for t in n.targets:
                if isinstance(t, (ast.Attribute, ast.Subscript)):
                    escapes.append((n.lineno, "%s is stored in %s" % (n.value.id, src(t))))
    return writes, escapes


def _exact_memo(fn, name):
    """is every write to `name` of the form  name[K] = V  where K is a plain name or a tuple of plain names (or a local bound to
    one) and V is computed from nothing but the names in K (and module-level callables)?  Then the shared object only remembers
    a function of K and cannot change an answer.  A graph in K does not count (graphs change)."""
    params = {a.arg for a in fn.args.posonlyargs + fn.args.args + fn.args.kwonlyargs} - {name}
    if fn.args.vararg:
        params.add(fn.args.vararg.arg)
    if fn.args.kwarg:
        params.add(fn.args.kwarg.arg)
    assigned = {n.id for n in _walk_own(fn) if isinstance(n, ast.Name) and isinstance(n.ctx, ast.Store)}
    local = params | assigned

    def names_of(e):
        if isinstance(e, ast.Name):
            return [e.id]
        if isinstance(e, ast.Tuple) and all(isinstance(x, ast.Name) for x in e.elts):
            return [x.id for x in e.elts]
        return None
    key_vars = {}
    for n in _walk_own(fn):
        if isinstance(n, ast.Assign) and len(n.targets) == 1 and isinstance(n.targets[0], ast.Name):
            ns = names_of(n.value)
            if ns is not None and isinstance(n.value, ast.Tuple):
                key_vars[n.targets[0].id] = ns

    def free_locals(e):
        bound = set()
        for x in ast.walk(e):
            if isinstance(x, ast.comprehension):
                bound |= {t.id for t in ast.walk(x.target) if isinstance(t, ast.Name)}
            if isinstance(x, ast.Lambda):
                bound |= {a.arg for a in x.args.args}
        return {x.id for x in ast.walk(e) if isinstance(x, ast.Name) and isinstance(x.ctx, ast.Load) and x.id in local and x.id not in bound}
    # the shared object may only be looked up by key (p[K], K in p, p.get(K)): iterating it, asking for its keys / values / length
    # or handing it on exposes everything earlier calls left in it
    parents = {}
    for n in _walk_own(fn):
        for ch in ast.iter_child_nodes(n):
            parents[ch] = n
    for n in _walk_own(fn):
        if isinstance(n, ast.Name) and n.id == name:
            par = parents.get(n)
            ok = (isinstance(par, ast.Subscript) and par.value is n) or \
                 (isinstance(par, ast.Compare) and n in par.comparators and all(isinstance(o, (ast.In, ast.NotIn)) for o in par.ops)) or \
                 (isinstance(par, ast.Attribute) and par.attr == "get" and isinstance(parents.get(par), ast.Call) and parents[par].func is par)
            if not ok:
                return False
    n_writes = 0
    for n in _walk_own(fn):
        if isinstance(n, ast.Assign) and any(isinstance(t, ast.Subscript) and isinstance(t.value, ast.Name) and t.value.id == name for t in n.targets):
            if len(n.targets) != 1:
                return False
            n_writes += 1
            k = n.targets[0].slice
            ks = key_vars.get(k.id) if isinstance(k, ast.Name) and k.id in key_vars else names_of(k)
            if ks is None or any(x in GRAPH_PARAMS for x in ks):
                return False
            allowed = set(ks) | ({k.id} if isinstance(k, ast.Name) else set()) | {name}
            if not free_locals(n.value) <= allowed:
                return False
            # the key names must still hold what they held on entry (parameters) or be bound once
        elif isinstance(n, ast.Subscript) and isinstance(n.value, ast.Name) and n.value.id == name and isinstance(n.ctx, (ast.Store, ast.Del)):
            if isinstance(n.ctx, ast.Del):
                return False
        if isinstance(n, ast.Call) and isinstance(n.func, ast.Attribute) and isinstance(n.func.value, ast.Name) and n.func.value.id == name \
                and n.func.attr in MUTATORS:
            return False
        if isinstance(n, ast.AugAssign) and ((isinstance(n.target, ast.Name) and n.target.id == name) or (
                isinstance(n.target, ast.Subscript) and isinstance(n.target.value, ast.Name) and n.target.value.id == name)):
            return False
    return n_writes > 0


def _functions(tree):
    """(qualname, FunctionDef, enclosing ClassDef or None) for every function of the module, nested ones included"""
    out = []

    def rec(node, prefix, cls):
        for ch in ast.iter_child_nodes(node):
            if isinstance(ch, (ast.FunctionDef, ast.AsyncFunctionDef)):
                q = prefix + ch.name
                out.append((q, ch, cls))
                rec(ch, q + ".", cls)
            elif isinstance(ch, ast.ClassDef):
                rec(ch, prefix + ch.name + ".", ch)
            elif isinstance(ch, (ast.If, ast.Try, ast.With, ast.For, ast.While)):
                rec(ch, prefix, cls)
    rec(tree, "", None)
    return out


# positive / negative controls: the rule has no instance on today's tree, so its recognisers are exercised on these on every run
CONTROLS = {
    "exact memo": ("def f(a, conv, _m={}):\n    if (a, conv) not in _m:\n        _m[(a, conv)] = conv(a)\n    return _m[(a, conv)]\n", False),
    "exact memo through a key variable": ("def f(a, b, _m={}):\n    key = (a, b)\n    if key not in _m:\n        _m[key] = a + b\n    return _m[key]\n", False),
    "memo whose key drops an argument": ("def f(tok, conv, _m={}):\n    if tok not in _m:\n        _m[tok] = conv(tok)\n    return _m[tok]\n", True),
    "memo whose key formats an argument": ("def f(alpha, n, _m={}):\n    key = ('%.2f' % alpha, n)\n    if key not in _m:\n        _m[key] = alpha * n\n    return _m[key]\n", True),
    "memo keyed by a graph": ("def f(G, t, _m={}):\n    if (G, t) not in _m:\n        _m[(G, t)] = G.nodes(t)\n    return _m[(G, t)]\n", True),
    "default updated in place": ("def f(attrs=None, names=dict(x=1)):\n    if attrs:\n        names.update(attrs)\n    return names['x']\n", True),
    "default only read": ("def f(a, opts={}):\n    return opts.get('x', a)\n", False),
    "keys accumulated and read back as a whole": ("def f(rows, seen={}):\n    for r in rows:\n        seen[r] = None\n    return sorted(seen.keys())\n", True),
    "default returned": ("def f(a, acc=[]):\n    return acc\n", True),
}


def _control(code):
    fn = ast.parse(code).body[0]
    p = fn.args.args[-1].arg
    writes, escapes = _uses(fn, p)
    return bool(writes or escapes) and not (writes and not escapes and _exact_memo(fn, p))


def check_shared_state(repo: Repo, rep: Report, files=None):
    """reports S1-S4 in the given module files (repo-relative paths; default: every module outside the tests)"""
    from .core import AnalysisError
    for label, (code, want) in CONTROLS.items():
        if _control(code) != want:
            raise AnalysisError("shared-state rule: control '%s' is classified %s" % (label, "shared" if not want else "harmless"))
    n_sites = 0
    rels = [r for r in sorted(repo.modules) if "/test/" not in r and (files is None or r in files)]
    for rel in rels:
        tree = repo.modules[rel]
        funcs = _functions(tree)
        # ---- S1 mutable defaults ---------------------------------------------------------------------------------
        for q, fn, cls in funcs:
            a = fn.args
            pos = a.posonlyargs + a.args
            pairs = list(zip(pos[len(pos) - len(a.defaults):], a.defaults)) + [(p, d) for p, d in zip(a.kwonlyargs, a.kw_defaults) if d is not None]
            for p, d in pairs:
                n_sites += 1
                if not _is_mutable_expr(d):
                    continue
                writes, escapes = _uses(fn, p.arg)
                if not writes and not escapes:
                    continue
                if writes and not escapes and _exact_memo(fn, p.arg):
                    continue
                ln, what = (writes + escapes)[0]
                rep.finding("P7.shared-state", repo.construct(rel, q), "mutable-default:%s" % p.arg,
                            "the default of parameter %s (%s) is created once for all calls and %s at line %d: what one call leaves in it is seen by "
                            "every later call, on this or on another graph" % (p.arg, src(d), what, ln), line=fn.lineno)
        # ---- S2 mutable class attributes -----------------------------------------------------------------------------
        for node in ast.walk(tree):
            if not isinstance(node, ast.ClassDef):
                continue
            shared = {}
            for st in node.body:
                tgt = st.targets[0] if isinstance(st, ast.Assign) and len(st.targets) == 1 else (st.target if isinstance(st, ast.AnnAssign) and st.value is not None else None)
                val = st.value if isinstance(st, (ast.Assign, ast.AnnAssign)) else None
                if isinstance(tgt, ast.Name) and val is not None:
                    n_sites += 1
                    if _is_mutable_expr(val):
                        shared[tgt.id] = ("mutable", st)
                    elif _is_one_shot_expr(val):
                        shared[tgt.id] = ("one-shot", st)
            if not shared:
                continue
            methods = [m for m in node.body if isinstance(m, ast.FunctionDef)]
            rebound = set()      # names every instance gets for itself in __init__
            for m in methods:
                if m.name == "__init__":
                    for n in ast.walk(m):
                        if isinstance(n, ast.Attribute) and isinstance(n.ctx, ast.Store) and isinstance(n.value, ast.Name) and n.value.id == "self":
                            rebound.add(n.attr)
            for name, (kind, st) in shared.items():
                if name in rebound:
                    continue
                hit = None
                for m in methods:
                    for n in ast.walk(m):
                        is_attr = lambda e: isinstance(e, ast.Attribute) and e.attr == name and isinstance(e.value, ast.Name) and e.value.id in ("self", "cls", node.name)
                        if kind == "mutable":
                            if isinstance(n, ast.Subscript) and isinstance(n.ctx, (ast.Store, ast.Del)) and is_attr(n.value):
                                hit = (m, n.lineno, "%s[..] is written" % src(n.value))
                            elif isinstance(n, ast.Call) and isinstance(n.func, ast.Attribute) and n.func.attr in MUTATORS and is_attr(n.func.value):
                                hit = (m, n.lineno, "%s(..)" % src(n.func))
                            elif isinstance(n, ast.AugAssign) and (is_attr(n.target) or (isinstance(n.target, ast.Subscript) and is_attr(n.target.value))):
                                hit = (m, n.lineno, "%s is updated in place" % src(n.target))
                        else:
                            if isinstance(n, (ast.For, ast.comprehension)) and is_attr(n.iter):
                                hit = (m, getattr(n, "lineno", m.lineno), "%s is iterated" % src(n.iter))
                            elif isinstance(n, ast.Call) and any(is_attr(x) for x in n.args):
                                hit = (m, n.lineno, "%s is consumed" % name)
                        if hit:
                            break
                    if hit:
                        break
                if hit:
                    m, ln, what = hit
                    rep.finding("P7.shared-state", repo.construct(rel, node.name + "." + m.name), "class-attribute:%s" % name,
                                "%s.%s = %s is one object for every %s; %s at line %d (in %s): graphs see each other's state" % (
                                    node.name, name, src(st.value), node.name, what, ln, m.name) if kind == "mutable" else
                                "%s.%s = %s is a one-shot iterator shared by all instances; %s at line %d: only the first use finds anything in it" % (
                                    node.name, name, src(st.value), what, ln), line=st.lineno)
        # ---- S3 memoising decorators ---------------------------------------------------------------------------------
        for q, fn, cls in funcs:
            for d in fn.decorator_list:
                n_sites += 1
                f = d.func if isinstance(d, ast.Call) else d
                name = f.id if isinstance(f, ast.Name) else (f.attr if isinstance(f, ast.Attribute) else None)
                if name not in ("lru_cache", "cache", "cached_property", "memoize", "memoized"):
                    continue
                params = [a.arg for a in fn.args.posonlyargs + fn.args.args]
                on_graph = (cls is not None and (cls.name in GRAPH_CLASSES or any(src(b).split(".")[-1] in ("Graph", "DiGraph") | GRAPH_CLASSES for b in cls.bases))
                            and params[:1] == ["self"]) or any(p in GRAPH_PARAMS - {"self"} for p in params)
                if on_graph:
                    rep.finding("P7.shared-state", repo.construct(rel, q), "memoised-on-a-graph:%s" % name,
                                "@%s remembers the answer for a graph argument; the graph changes with every add_interaction / clear, the memo does not: "
                                "answers go stale" % src(d), line=fn.lineno)
        # ---- S4 module-level one-shot iterators -------------------------------------------------------------------------
        one_shot = {}
        for st in tree.body:
            if isinstance(st, ast.Assign) and len(st.targets) == 1 and isinstance(st.targets[0], ast.Name):
                n_sites += 1
                if _is_one_shot_expr(st.value):
                    one_shot[st.targets[0].id] = st
        for name, st in one_shot.items():
            for q, fn, cls in funcs:
                local = {a.arg for a in fn.args.args} | {n.id for n in _walk_own(fn) if isinstance(n, ast.Name) and isinstance(n.ctx, ast.Store)}
                if name in local:
                    continue
                use = next((n for n in _walk_own(fn) if isinstance(n, ast.Name) and n.id == name and isinstance(n.ctx, ast.Load)), None)
                if use is not None:
                    rep.finding("P7.shared-state", repo.construct(rel, q), "module-level-iterator:%s" % name,
                                "%s = %s (line %d) is a one-shot iterator created at import time; %s consumes it at line %d: every call after the "
                                "first finds it exhausted" % (name, src(st.value), st.lineno, q, use.lineno), line=use.lineno)
                    break
    rep.ob("P7.shared-state", ", ".join(rels) if len(rels) <= 4 else "%d modules" % len(rels),
           "no mutable default that is written or escapes, no mutable / one-shot class attribute used in place, no memo on a graph, no module-level "
           "one-shot iterator consumed in a function (%d defaults, class attributes, decorators and module bindings inspected)" % n_sites)
    return n_sites
