"""W engine: who may write what (DESIGN.md 3.4).

A small intra-procedural taint analysis gives every expression a *root* - the
temporal store it reaches (timeline, event log, snapshot counters, adjacency, node
table, graph attributes) - following local aliases (``app = datadict['t']``,
``for a in ts['t']``), container accessors (``.get/.items/.values``) and shallow
copies (``list(x)`` keeps the elements).  Every store / delete / mutating method
call through a rooted expression is a *write site*.  Rules:

  W1  the temporal stores (timelines, time_to_edge, snapshots, adjacency) are written
      only by the functions of the owner table (add_interaction x2; __init__, clear,
      clear_edges may rebind the two indexes as a whole);
  W2  query methods never write through ``self`` (no caches, no lazily created
      keys): everything that is not in the mutator table is a query.
"""
from __future__ import annotations
import ast
from .core import Repo, CLASSES, FUNCTION, walk_no_nested, src

ATTR_ROOT = {
    "time_to_edge": "tte", "snapshots": "snapshots",
    "_adj": "adjacency", "_succ": "adjacency", "_pred": "adjacency",
    "adj": "adjacency", "succ": "adjacency", "pred": "adjacency",
    "_node": "nodes", "graph": "graphattr",
}
MUTATING = {"append", "extend", "insert", "pop", "remove", "clear", "update", "setdefault", "popitem", "sort",
            "reverse", "add", "discard", "__setitem__", "__delitem__"}
KEEP_ROOT_CALLS = {"list", "sorted", "iter", "reversed", "enumerate", "zip", "chain", "tuple", "next", "filter", "map"}
ACCESSORS = {"get", "items", "values", "keys", "setdefault", "copy", "__getitem__"}
TEMPORAL = ("timeline", "tte", "snapshots", "adjacency")


class Taint:
    def __init__(self, fn: ast.FunctionDef):
        self.fn = fn
        self.env = {}       # name -> (root, owner)
        self._fix()

    def root(self, e):
        """(root, owner) of an expression or (None, None)."""
        if isinstance(e, ast.Name):
            return self.env.get(e.id, (None, e.id))
        if isinstance(e, ast.Attribute):
            if e.attr in ATTR_ROOT:
                return (ATTR_ROOT[e.attr], self.owner(e.value))
            r = self.root(e.value)
            return r
        if isinstance(e, ast.Subscript):
            if isinstance(e.slice, ast.Constant) and e.slice.value == "t":
                return ("timeline", self.owner(e.value))
            return self.root(e.value)
        if isinstance(e, ast.Call):
            f = e.func
            if isinstance(f, ast.Attribute) and f.attr in ACCESSORS:
                return self.root(f.value)
            if isinstance(f, ast.Name) and f.id in KEEP_ROOT_CALLS and e.args:
                for a in e.args:
                    r = self.root(a)
                    if r[0]:
                        return r
            if isinstance(f, ast.Attribute) and f.attr in ("interactions_iter", "interactions", "in_interactions",
                                                           "out_interactions", "in_interactions_iter",
                                                           "out_interactions_iter"):
                # yields (u, v, datadict): the third component exposes the stored dict
                return ("adjacency", self.owner(f.value))
            return (None, None)
        if isinstance(e, (ast.IfExp,)):
            a, b = self.root(e.body), self.root(e.orelse)
            return a if a[0] else b
        if isinstance(e, ast.BoolOp):
            for v in e.values:
                r = self.root(v)
                if r[0]:
                    return r
        if isinstance(e, ast.Starred):
            return self.root(e.value)
        return (None, None)

    def owner(self, e):
        while isinstance(e, (ast.Attribute, ast.Subscript, ast.Call)):
            if isinstance(e, ast.Call):
                e = e.func
            else:
                e = e.value
        if isinstance(e, ast.Name):
            r = self.env.get(e.id)
            if r and r[1]:
                return r[1]
            return e.id
        return None

    FRESH_CALLS = {"list", "sorted", "tuple", "set", "dict", "frozenset"}

    def fresh(self, e):
        """Does e evaluate to a container created by this function (its elements may be shared, the container itself is
        not part of the store)?  ``list(x)``, ``sorted(x)``, ``x.copy()`` ... or a local name only ever bound to such."""
        if isinstance(e, ast.Call):
            f = e.func
            if isinstance(f, ast.Name) and f.id in self.FRESH_CALLS:
                return True
            if isinstance(f, ast.Attribute) and f.attr == "copy" and not e.args:
                return True
            return False
        if isinstance(e, (ast.ListComp, ast.SetComp, ast.DictComp, ast.List, ast.Set, ast.Dict, ast.Tuple)):
            return True
        if isinstance(e, ast.Name):
            return e.id in self._fresh_names()
        return False

    def _fresh_names(self):
        if getattr(self, "_fresh_cache", None) is None:
            binds = {}
            params = {a.arg for a in self.fn.args.args + self.fn.args.kwonlyargs + self.fn.args.posonlyargs}
            for n in walk_no_nested(self.fn):
                if isinstance(n, ast.Assign):
                    for t in n.targets:
                        if isinstance(t, ast.Name):
                            binds.setdefault(t.id, []).append(n.value)
                        else:
                            for x in ast.walk(t):
                                if isinstance(x, ast.Name) and isinstance(x.ctx, ast.Store):
                                    binds.setdefault(x.id, []).append(None)
                elif isinstance(n, (ast.For, ast.comprehension)):
                    for x in ast.walk(n.target):
                        if isinstance(x, ast.Name):
                            binds.setdefault(x.id, []).append(None)
                elif isinstance(n, (ast.AugAssign, ast.AnnAssign, ast.NamedExpr)) and isinstance(n.target, ast.Name):
                    binds.setdefault(n.target.id, []).append(None)
                elif isinstance(n, ast.withitem) and n.optional_vars is not None:
                    for x in ast.walk(n.optional_vars):
                        if isinstance(x, ast.Name):
                            binds.setdefault(x.id, []).append(None)
            self._fresh_cache = set()
            self._fresh_cache = {name for name, vals in binds.items() if name not in params and
                                 all(v is not None and not isinstance(v, ast.Name) and self.fresh(v) for v in vals)}
        return self._fresh_cache

    def _bind(self, tgt, r):
        changed = False
        if isinstance(tgt, ast.Name):
            if r[0] and self.env.get(tgt.id) != r:
                self.env[tgt.id] = r
                changed = True
        elif isinstance(tgt, (ast.Tuple, ast.List)):
            for t in tgt.elts:
                changed |= self._bind(t, r)
        elif isinstance(tgt, ast.Starred):
            changed |= self._bind(tgt.value, r)
        return changed

    def _fix(self):
        for _ in range(8):
            changed = False
            for n in walk_no_nested(self.fn):
                if isinstance(n, ast.Assign):
                    r = self.root(n.value)
                    for t in n.targets:
                        changed |= self._bind(t, r)
                elif isinstance(n, ast.For):
                    changed |= self._bind(n.target, self.root(n.iter))
                elif isinstance(n, ast.comprehension):
                    changed |= self._bind(n.target, self.root(n.iter))
                elif isinstance(n, ast.withitem) and n.optional_vars is not None:
                    changed |= self._bind(n.optional_vars, self.root(n.context_expr))
                elif isinstance(n, ast.NamedExpr):
                    changed |= self._bind(n.target, self.root(n.value))
            if not changed:
                break

    def writes(self):
        out = []
        for n in walk_no_nested(self.fn):
            tgts = []
            if isinstance(n, ast.Assign):
                tgts = [(t, "store") for t in n.targets]
            elif isinstance(n, ast.AugAssign):
                tgts = [(n.target, "augstore")]
            elif isinstance(n, ast.Delete):
                tgts = [(t, "del") for t in n.targets]
            elif isinstance(n, ast.AnnAssign) and n.value is not None:
                tgts = [(n.target, "store")]
            flat = []
            for t, k in tgts:
                if isinstance(t, (ast.Tuple, ast.List)):
                    flat += [(x, k) for x in t.elts]
                else:
                    flat.append((t, k))
            for t, k in flat:
                if isinstance(t, ast.Subscript) and self.fresh(t.value):
                    continue          # a slot of a container this function created: not a write to the store
                if isinstance(t, ast.Subscript):
                    r = self.root(t)
                    if r[0] is None:
                        r = self.root(t.value)
                    if r[0]:
                        out.append((r[0], r[1], k, n))
                elif isinstance(t, ast.Attribute):
                    if t.attr in ATTR_ROOT:
                        out.append((ATTR_ROOT[t.attr], self.owner(t.value), "rebind", n))
                    else:
                        r = self.root(t.value)
                        if r[0]:
                            out.append((r[0], r[1], k, n))
                        else:
                            o = self.owner(t.value)
                            out.append(("attr:" + t.attr, o, "rebind", n))
            if isinstance(n, ast.Call) and isinstance(n.func, ast.Attribute) and n.func.attr in MUTATING \
                    and not self.fresh(n.func.value):
                r = self.root(n.func.value)
                if r[0]:
                    out.append((r[0], r[1], "call:" + n.func.attr, n))
        return out


OWNERS = {
    # qualified name -> roots it may write (and how)
    "add_interaction": {"timeline", "tte", "snapshots", "adjacency", "nodes"},
    "__init__": {"tte:rebind", "snapshots:rebind", "attr:edge_removal", "attr:directed"},
    "clear": {"tte:rebind", "snapshots:rebind"},
    "clear_edges": {"tte:rebind", "snapshots:rebind"},
}
MUTATOR_METHODS = {"add_interaction", "add_interactions_from", "add_path", "add_star", "add_cycle", "__init__",
                   "clear", "clear_edges", "update_node_attr", "update_node_attr_from"}
FUNCTION_MUTATORS = {"freeze", "set_node_attributes", "add_star", "add_path", "add_cycle", "frozen"}
GRAPH_PARAMS = {"G", "g", "graph", "dg", "H"}


def all_functions(repo: Repo):
    """(rel, qualname, fn, classname-or-None) for every production function."""
    for rel, tree in sorted(repo.modules.items()):
        for node in tree.body:
            if isinstance(node, ast.FunctionDef):
                yield rel, node.name, node, None
            elif isinstance(node, ast.ClassDef):
                for sub in node.body:
                    if isinstance(sub, ast.FunctionDef):
                        yield rel, node.name + "." + sub.name, sub, node.name


def _self_callees(fn):
    """Names of methods called on self (or on the graph parameter) and of plain functions called by name."""
    meth, funcs = set(), set()
    for n in walk_no_nested(fn):
        if isinstance(n, ast.Call):
            f = n.func
            if isinstance(f, ast.Attribute) and isinstance(f.value, ast.Name) and f.value.id in ({"self"} | GRAPH_PARAMS):
                meth.add(_unmangle(f.attr))
            elif isinstance(f, ast.Name):
                funcs.add(f.id)
    return meth, funcs


def _unmangle(name):
    return name


def is_private(name):
    return name.startswith("_") and not (name.startswith("__") and name.endswith("__"))


class CallIndex:
    """Who calls whom inside the dynetx classes and modules (by name; methods per class, functions per module)."""

    def __init__(self, repo: Repo):
        self.repo = repo
        self.fns = {}       # (rel, cls or None, name) -> fn
        for rel, qual, fn, cls in all_functions(repo):
            self.fns[(rel, cls, qual.split(".")[-1])] = fn
        self.callers = {}   # key -> set of caller keys
        for (rel, cls, name), fn in self.fns.items():
            meth, funcs = _self_callees(fn)
            for m in meth:
                if cls is not None and (rel, cls, m) in self.fns:
                    self.callers.setdefault((rel, cls, m), set()).add((rel, cls, name))
                elif cls is None:
                    # a functional form calling G.method: both classes
                    for c, r in CLASSES.items():
                        if (r, c, m) in self.fns:
                            self.callers.setdefault((r, c, m), set()).add((rel, cls, name))
            for f in funcs:
                if (rel, None, f) in self.fns:
                    self.callers.setdefault((rel, None, f), set()).add((rel, cls, name))

    def callees(self, key):
        rel, cls, name = key
        fn = self.fns[key]
        meth, funcs = _self_callees(fn)
        out = set()
        for m in meth:
            if cls is not None and (rel, cls, m) in self.fns:
                out.add((rel, cls, m))
        for f in funcs:
            if (rel, None, f) in self.fns:
                out.add((rel, None, f))
        return out


def owner_closure(repo: Repo, idx: CallIndex):
    """Owners plus the private helpers that are reachable only from owners (an extracted step of a mutator)."""
    admitted = {}
    for key in idx.fns:
        rel, cls, name = key
        if cls in CLASSES and name in OWNERS:
            admitted[key] = set(OWNERS[name])
    changed = True
    while changed:
        changed = False
        for key in idx.fns:
            rel, cls, name = key
            if key in admitted or not is_private(name):
                continue
            callers = idx.callers.get(key, set())
            if callers and all(c in admitted for c in callers):
                allow = set()
                for c in callers:
                    allow |= admitted[c]
                admitted[key] = allow
                changed = True
    return admitted


def check_ownership(repo: Repo, add):
    """W1.  add(rule, construct, key, message, line).  Returns (#functions, #write sites)."""
    nfn = nsites = 0
    idx = CallIndex(repo)
    admitted = owner_closure(repo, idx)
    for rel, qual, fn, cls in all_functions(repo):
        nfn += 1
        name = qual.split(".")[-1]
        allowed = admitted.get((rel, cls, name), set())
        for (root, owner, kind, node) in Taint(fn).writes():
            if root not in TEMPORAL:
                continue
            nsites += 1
            ok = root in allowed or (kind == "rebind" and (root + ":rebind") in allowed)
            if kind == "rebind" and (root + ":rebind") in allowed and root not in allowed:
                # a whole-index reset must install an empty container
                v = getattr(node, "value", None)
                if not _is_empty_container(v):
                    ok = False
            if ok:
                continue
            add("W1.owner", repo.construct(rel, qual), "%s:%s" % (root, kind.split(":")[0]),
                "%s writes the %s store (%s) - only add_interaction (or a private step called only by it) may: timelines, event "
                "log and counters must change together" % (qual, root, src(node)[:90]), getattr(node, "lineno", 0))
    return nfn, nsites


def _is_empty_container(v):
    if isinstance(v, ast.Dict) and not v.keys:
        return True
    if isinstance(v, ast.Call) and isinstance(v.func, ast.Name) and v.func.id in ("dict", "defaultdict", "OrderedDict"):
        return len(v.args) <= 1 and not v.keywords
    return False


def check_purity(repo: Repo, add, only=None):
    """W2: public queries never write through self / their graph parameter - directly or through helpers they call."""
    n = 0
    idx = CallIndex(repo)
    direct = {}
    for key, fn in idx.fns.items():
        rel, cls, name = key
        bases = {"self"} if cls in CLASSES else (GRAPH_PARAMS & {a.arg for a in fn.args.args})
        direct[key] = [(root, owner, kind, node) for (root, owner, kind, node) in Taint(fn).writes() if owner in bases]
    for rel, qual, fn, cls in all_functions(repo):
        name = qual.split(".")[-1]
        if cls in CLASSES:
            if name in MUTATOR_METHODS or is_private(name) and name != "__presence_test":
                continue
        elif rel == FUNCTION:
            if name in FUNCTION_MUTATORS or is_private(name):
                continue
        else:
            continue
        if only and name not in only:
            continue
        n += 1
        decos = [src(d) for d in fn.decorator_list]
        if any("not_implemented" in d for d in decos):
            continue
        # everything the query reaches through self-calls, not crossing into declared mutators
        seen, stack = set(), [(rel, cls, name)]
        while stack:
            k = stack.pop()
            if k in seen:
                continue
            seen.add(k)
            for c in idx.callees(k):
                if c[1] in CLASSES and c[2] in MUTATOR_METHODS:
                    continue
                stack.append(c)
        for k in sorted(seen, key=str):
            for (root, owner, kind, node) in direct.get(k, []):
                via = "" if k == (rel, cls, name) else " (through %s)" % k[2]
                add("W2.pure-query", repo.construct(rel, qual), "%s:%s" % (root, kind.split(":")[0]),
                    "query %s writes graph state through %s%s (%s): observers must leave the graph unchanged" % (
                        qual, owner, via, src(node)[:90]), getattr(node, "lineno", 0))
    return n


def container_types(repo: Repo, cls):
    """The container types the temporal indexes are created with (all creation sites must agree)."""
    rel = CLASSES[cls]
    kinds = {"time_to_edge": set(), "snapshots": set()}
    for name, fn in repo.class_methods(rel, cls).items():
        for n in walk_no_nested(fn):
            if isinstance(n, ast.Assign):
                for t in n.targets:
                    if isinstance(t, ast.Attribute) and t.attr in kinds and isinstance(t.value, ast.Name) and t.value.id == "self":
                        kinds[t.attr].add(_container_kind(n.value))
    return kinds


def _container_kind(v):
    if isinstance(v, ast.Dict) and not v.keys:
        return "dict"
    if isinstance(v, ast.Call) and isinstance(v.func, ast.Name):
        if v.func.id == "dict" and not v.args:
            return "dict"
        if v.func.id == "defaultdict" and len(v.args) == 1 and isinstance(v.args[0], ast.Name):
            return "defaultdict(%s)" % v.args[0].id
        if v.func.id == "defaultdict" and not v.args:
            return "dict"
    return "other:" + src(v)[:40]
