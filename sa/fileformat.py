"""S3: writer/reader tables of the edge-list formats (C09, C10, C18) - DESIGN.md 3.6.

The two formats are described by tables (format facts, from the docstrings and the
property statements):

  snapshots      columns u v t [e]     rows with < 3 fields are skipped
  interactions   columns u v op t      rows with != 4 fields are skipped

and the rules tie every site that must agree with them:

  F1  open_file(i, mode): i names the ``path`` parameter, mode is binary and 'w' for
      writers / 'r' for readers;
  F2  parameter flow: ``delimiter`` reaches join (writer side) and split (reader side),
      ``encoding`` reaches encode / decode, through at most two helper calls; every
      reader forwards comments / directed / delimiter / nodetype / timestamptype to the
      same-named formal of its parser and to read_ids;
  F3  per parsed line: comment cut (find + ``p >= 0`` + slice) before ``strip().split``;
      empty lines skipped; the field-count filter of the format precedes the pops; pops
      assign the columns in table order;
  F4  conversions: nodetype on u and v, timestamptype on every time column, each wrapped
      so that a failure raises TypeError; no comparison or arithmetic touches a time
      column before its conversion;
  F5  keys: every time column is remapped through ``keys`` before it reaches
      add_interaction; read_ids applies the same comment cut, strip/split and
      field-count filter as the parser of the format and collects exactly its time columns;
  F6  compact_timeslot is ``{v: i for i, v in enumerate(sorted(X))}`` (no reverse, start 0).
"""
from __future__ import annotations
import ast
from .core import Repo, Report, EDGELIST, DECORATORS, TRANSFORM, src, walk_no_nested, const_value, AnalysisError

FORMATS = {
    "snapshots": dict(writer="write_snapshots", gen="generate_snapshots", reader="read_snapshots", parser="parse_snapshots",
                      columns=["u", "v", "t", "e"], min_fields=3, exact_fields=None, time_cols=("t", "e"), ops=False),
    "interactions": dict(writer="write_interactions", gen="generate_interactions", reader="read_interactions",
                         parser="parse_interactions", columns=["u", "v", "op", "s"], min_fields=None, exact_fields=4,
                         time_cols=("s",), ops=True),
}


def _params(fn):
    return [a.arg for a in fn.args.args]


def _decorator_open_file(fn):
    for d in fn.decorator_list:
        if isinstance(d, ast.Call) and (getattr(d.func, "id", None) == "open_file" or getattr(d.func, "attr", None) == "open_file"):
            idx = const_value(d.args[0]) if d.args else None
            mode = None
            for k in d.keywords:
                if k.arg == "mode":
                    mode = const_value(k.value)
            if len(d.args) > 1:
                mode = const_value(d.args[1])
            return idx, mode if mode is not None else "r"
    return None


def _names_in(e):
    return {n.id for n in ast.walk(e) if isinstance(n, ast.Name)}


def reaches(repo: Repo, rel, fn, param, sink_attr, depth=2, as_receiver=False):
    """Does the value of ``param`` reach a call ``X.<sink_attr>(.. param ..)`` (or, with as_receiver,
    ``param.<sink_attr>(..)``), directly or through module-level helpers?"""
    tainted = {param}
    for _ in range(4):
        for n in walk_no_nested(fn):
            if isinstance(n, ast.Assign) and _names_in(n.value) & tainted:
                for t in n.targets:
                    if isinstance(t, ast.Name):
                        tainted.add(t.id)
    funcs = repo.functions(rel)
    for n in walk_no_nested(fn):
        if not isinstance(n, ast.Call):
            continue
        f = n.func
        if isinstance(f, ast.Attribute) and f.attr == sink_attr:
            if as_receiver and _names_in(f.value) & tainted:
                return True
            args = list(n.args) + [k.value for k in n.keywords]
            if not as_receiver and any(_names_in(a) & tainted for a in args):
                return True
        if depth > 0 and isinstance(f, ast.Name) and f.id in funcs and funcs[f.id] is not fn:
            callee = funcs[f.id]
            cparams = _params(callee)
            for i, a in enumerate(n.args):
                if _names_in(a) & tainted and i < len(cparams):
                    if reaches(repo, rel, callee, cparams[i], sink_attr, depth - 1, as_receiver):
                        return True
            for k in n.keywords:
                if k.arg in cparams and _names_in(k.value) & tainted:
                    if reaches(repo, rel, callee, k.arg, sink_attr, depth - 1, as_receiver):
                        return True
    return False


def check_file_format(repo: Repo, rep: Report, fmt_name, parts=("writer", "reader", "parser")):
    fmt = FORMATS[fmt_name]
    rel = EDGELIST
    n = 0

    def bad(rule, qual, key, msg, line=0):
        rep.finding("S3." + rule, repo.construct(rel, qual), key, msg, line=line)

    def ob(rule, qual, what, ok):
        nonlocal n
        n += 1
        rep.ob("S3." + rule, repo.construct(rel, qual), what, ok=ok)

    # ---------------- writer ---------------------------------------------------
    if "writer" in parts:
        w = repo.get(rel, fmt["writer"])
        deco = _decorator_open_file(w)
        params = _params(w)
        ok = deco is not None and isinstance(deco[0], int) and deco[0] < len(params) and params[deco[0]] == "path" \
            and deco[1] is not None and "w" in deco[1] and "b" in deco[1]
        ob("F1", fmt["writer"], "open_file index/mode", ok)
        if not ok:
            bad("F1.open_file", fmt["writer"], "writer-decorator",
                "@open_file%s on %s(%s): the index must name the 'path' parameter and the mode must be binary write" % (
                    deco, fmt["writer"], ", ".join(params)), w.lineno)
        # the encoding of what is written, and the file it is written to, are decided by interpretation (writer_file.py)
        for param, sink, recv, what in (("delimiter", "join", True, "reaches the join of the row fields"),):
            r = reaches(repo, rel, w, param, sink, as_receiver=recv)
            ob("F2", fmt["writer"], "%s %s" % (param, what), r)
            if not r:
                bad("F2.flow", fmt["writer"], "%s-not-forwarded" % param,
                    "the %s argument of %s never %s: the file is always written with the default" % (param, fmt["writer"], what),
                    w.lineno)
        r = reaches(repo, rel, w, "G", "stream_interactions" if fmt["ops"] else "interactions", as_receiver=True)
        ob("F2", fmt["writer"], "G is the graph enumerated", r)
        if not r:
            bad("F2.flow", fmt["writer"], "G-not-enumerated", "%s does not enumerate its graph argument" % fmt["writer"], w.lineno)
    # ---------------- reader -----------------------------------------------------
    if "reader" in parts:
        r_ = repo.get(rel, fmt["reader"])
        deco = _decorator_open_file(r_)
        params = _params(r_)
        ok = deco is not None and isinstance(deco[0], int) and deco[0] < len(params) and params[deco[0]] == "path" \
            and deco[1] is not None and "r" in deco[1] and "b" in deco[1]
        ob("F1", fmt["reader"], "open_file index/mode", ok)
        if not ok:
            bad("F1.open_file", fmt["reader"], "reader-decorator",
                "@open_file%s on %s: the index must name the 'path' parameter and the mode must be binary read" % (deco, fmt["reader"]),
                r_.lineno)
        # the decoding of the file is decided by interpretation (writer_file.check_reader_file)
        # forwarding to the parser and to read_ids
        for callee, needed in ((fmt["parser"], ["comments", "directed", "delimiter", "nodetype", "timestamptype"]),
                               ("read_ids", ["delimiter", "timestamptype", "comments"])):
            calls = [c for c in walk_no_nested(r_) if isinstance(c, ast.Call) and getattr(c.func, "id", None) == callee]
            if not calls:
                ob("F2", fmt["reader"], "calls %s" % callee, False)
                bad("F2.flow", fmt["reader"], "no-call-%s" % callee, "%s does not call %s" % (fmt["reader"], callee), r_.lineno)
                continue
            c = calls[0]
            cparams = _params(repo.get(rel, callee))
            for p in needed:
                fwd = any(k.arg == p and isinstance(k.value, ast.Name) and k.value.id == p for k in c.keywords) or any(
                    isinstance(a, ast.Name) and a.id == p and i < len(cparams) and cparams[i] == p for i, a in enumerate(c.args))
                ob("F2", fmt["reader"], "%s forwarded to %s" % (p, callee), fwd)
                if not fwd:
                    bad("F2.flow", fmt["reader"], "%s-not-forwarded-to-%s" % (p, callee),
                        "%s does not forward %s to %s (the file would be parsed with the default)" % (fmt["reader"], p, callee), c.lineno)
            if callee == "read_ids":
                ops_kw = next((k for k in c.keywords if k.arg == "ops"), None)
                ops_val = const_value(ops_kw.value) if ops_kw else False
                ok = bool(ops_val) == fmt["ops"]
                ob("F5", fmt["reader"], "read_ids told the format", ok)
                if not ok:
                    bad("F5.keys", fmt["reader"], "read_ids-format", "read_ids is called with ops=%r for the %s format" % (ops_val, fmt_name), c.lineno)
            else:
                kk = next((k for k in c.keywords if k.arg == "keys"), None)
                ok = kk is not None and isinstance(kk.value, ast.Name)
                ob("F5", fmt["reader"], "rank map handed to the parser", ok)
                if not ok:
                    bad("F5.keys", fmt["reader"], "keys-not-passed", "the rank map is not handed to %s" % callee, c.lineno)
    # ---------------- parser --------------------------------------------------------
    if "parser" in parts:
        _check_line_loop(repo, rep, rel, fmt["parser"], fmt, bad, ob, is_ids=False)
        _check_line_loop(repo, rep, rel, "read_ids", fmt, bad, ob, is_ids=True)
    return n


def _loop_over(fn, names):
    for n in walk_no_nested(fn):
        if isinstance(n, ast.For) and isinstance(n.iter, ast.Name) and n.iter.id in names and isinstance(n.target, ast.Name):
            return n
    return None


def _flatten(body):
    out = []
    for st in body:
        out.append(st)
        for f in ("body", "orelse", "handlers", "finalbody"):
            sub = getattr(st, f, None)
            if sub:
                for s2 in sub:
                    if isinstance(s2, ast.ExceptHandler):
                        out += _flatten(s2.body)
                    else:
                        out += _flatten([s2])
    return out


def _check_line_loop(repo, rep, rel, qual, fmt, bad, ob, is_ids):
    fn = repo.get(rel, qual)
    loop = _loop_over(fn, {"lines", "f"})
    if loop is None:
        raise AnalysisError("%s: the per-line loop was not found" % qual)
    lv = loop.target.id
    stmts = _flatten(loop.body)
    pos = {id(s): i for i, s in enumerate(stmts)}
    tag = qual + (":%s" % fmt["parser"].split("_")[1] if is_ids else "")
    # --- comment cut -----------------------------------------------------------
    find_assign = next((s for s in stmts if isinstance(s, ast.Assign) and isinstance(s.value, ast.Call)
                        and isinstance(s.value.func, ast.Attribute) and s.value.func.attr == "find"
                        and isinstance(s.value.func.value, ast.Name) and s.value.func.value.id == lv
                        and s.value.args and isinstance(s.value.args[0], ast.Name) and s.value.args[0].id == "comments"), None)
    cut = None
    if find_assign is not None and isinstance(find_assign.targets[0], ast.Name):
        pv = find_assign.targets[0].id
        for s in stmts:
            if isinstance(s, ast.If) and isinstance(s.test, ast.Compare) and isinstance(s.test.left, ast.Name) and s.test.left.id == pv:
                op, rhs = s.test.ops[0], const_value(s.test.comparators[0])
                good_guard = (isinstance(op, ast.GtE) and rhs == 0) or (isinstance(op, ast.Gt) and rhs == -1) or (
                    isinstance(op, ast.NotEq) and rhs == -1)
                for b in s.body:
                    if isinstance(b, ast.Assign) and isinstance(b.targets[0], ast.Name) and b.targets[0].id == lv and \
                            isinstance(b.value, ast.Subscript) and isinstance(b.value.slice, ast.Slice) and \
                            b.value.slice.lower is None and isinstance(b.value.slice.upper, ast.Name) and b.value.slice.upper.id == pv:
                        cut = (s, good_guard)
    ok = cut is not None and cut[1]
    ob("F3", tag, "comment cut line[:p] under p >= 0", ok)
    if not ok:
        bad("F3.comment", tag, "comment-cut" if cut is None else "comment-guard",
            "%s: text after the comment marker is not removed for every position of the marker (%s)" % (
                qual, "no 'p = line.find(comments); if p >= 0: line = line[:p]'" if cut is None else "guard " + src(cut[0].test)),
            (cut[0].lineno if cut else loop.lineno))
    # --- strip + split ------------------------------------------------------------
    split_assign = None
    for s in stmts:
        if isinstance(s, ast.Assign) and isinstance(s.value, ast.Call) and isinstance(s.value.func, ast.Attribute) \
                and s.value.func.attr == "split":
            split_assign = s
            break
    if split_assign is None:
        raise AnalysisError("%s: the split of the line was not found" % qual)
    recv = split_assign.value.func.value
    strip_ok = isinstance(recv, ast.Call) and isinstance(recv.func, ast.Attribute) and recv.func.attr == "strip" \
        and not recv.args and not recv.keywords and isinstance(recv.func.value, ast.Name) and recv.func.value.id == lv
    delim_ok = len(split_assign.value.args) == 1 and isinstance(split_assign.value.args[0], ast.Name) \
        and split_assign.value.args[0].id == "delimiter"
    ob("F3", tag, "fields = line.strip().split(delimiter)", strip_ok and delim_ok)
    if not strip_ok:
        bad("F3.split", tag, "strip", "%s splits %s: surrounding whitespace must be stripped first (line.strip()) so that blank "
            "and padded lines do not produce empty fields" % (qual, src(recv)), split_assign.lineno)
    if not delim_ok:
        bad("F3.split", tag, "delimiter", "%s does not split on the delimiter argument (%s)" % (qual, src(split_assign.value)), split_assign.lineno)
    if cut is not None and pos[id(cut[0])] > pos[id(split_assign)]:
        bad("F3.comment", tag, "cut-after-split", "the comment is removed after the line was split", cut[0].lineno)
    fields = split_assign.targets[0].id if isinstance(split_assign.targets[0], ast.Name) else None
    # --- field-count filter ----------------------------------------------------------
    filt = []
    for s in stmts:
        if isinstance(s, ast.If) and isinstance(s.test, ast.Compare) and isinstance(s.test.left, ast.Call) and \
                getattr(s.test.left.func, "id", None) == "len" and s.test.left.args and isinstance(s.test.left.args[0], ast.Name):
            filt.append(s)
    def is_skip(s):
        return any(isinstance(b, ast.Continue) for b in s.body)
    if fmt["exact_fields"]:
        want = "len(%s) != %d" % (fields, fmt["exact_fields"])
    else:
        want = "len(%s) < %d" % (fields, fmt["min_fields"])
    good = [s for s in filt if src(s.test) == want and is_skip(s)]
    if is_ids:
        # read_ids selects the format with its ops flag: the filter sits under 'if ops:' / 'else:'
        good = [s for s in filt if src(s.test) == want and is_skip(s)]
    ob("F3", tag, "field-count filter %s -> continue" % want, bool(good))
    if not good:
        bad("F3.fields", tag, "field-count", "%s: rows of the %s format must be skipped when %s (found: %s)" % (
            qual, fmt["parser"].split("_")[1], want, [src(s.test) for s in filt if s.test.left.args[0].id == fields] or "no filter on the split list"),
            split_assign.lineno)
    elif pos[id(good[0])] < pos[id(split_assign)]:
        bad("F3.fields", tag, "filter-before-split", "the field-count filter precedes the split", good[0].lineno)
    if is_ids:
        _check_ids_columns(fn, stmts, fmt, fields, bad, ob, tag)
        return
    # --- pops in column order ----------------------------------------------------------
    pops = []
    for s in stmts:
        if isinstance(s, ast.Assign) and isinstance(s.value, ast.Call) and isinstance(s.value.func, ast.Attribute) \
                and s.value.func.attr == "pop" and isinstance(s.targets[0], ast.Name):
            pops.append((s.targets[0].id, const_value(s.value.args[0]) if s.value.args else None, s))
    idx_assign = []
    for s in stmts:
        if isinstance(s, ast.Assign) and isinstance(s.targets[0], ast.Name) and isinstance(s.value, ast.Subscript) and \
                isinstance(s.value.value, ast.Name) and s.value.value.id == fields and isinstance(const_value(s.value.slice), int):
            idx_assign.append((s.targets[0].id, const_value(s.value.slice), s))
    cols = fmt["columns"]
    ok = True
    if pops:
        # consecutive pop(0) runs must assign the columns in order
        run = []
        last = None
        runs = []
        for (name, arg, s) in pops:
            if arg != 0:
                ok = False
            if last is not None and pos[id(s)] != pos[id(last)] + 1:
                runs.append(run)
                run = []
            run.append(name)
            last = s
        runs.append(run)
        for r in runs:
            if r != cols[:len(r)] or len(r) < (fmt["exact_fields"] or fmt["min_fields"]):
                ok = False
        got = runs
    else:
        got = sorted(idx_assign, key=lambda x: x[1])
        ok = [g[0] for g in got] == cols[:len(got)] and [g[1] for g in got] == list(range(len(got))) and len(got) >= 3
    ob("F3", tag, "columns popped in the order %s" % cols, ok)
    if not ok:
        bad("F3.columns", tag, "column-order", "%s takes the columns as %s; the %s format is %s" % (
            qual, got if pops else [(g[0], g[1]) for g in got], fmt["parser"].split("_")[1], " ".join(cols)), split_assign.lineno)
    # --- conversions -------------------------------------------------------------------
    conv = {}       # name -> (converter, statement, inside try that raises TypeError)
    for s in stmts:
        if isinstance(s, ast.Assign) and isinstance(s.targets[0], ast.Name) and isinstance(s.value, ast.Call) and \
                isinstance(s.value.func, ast.Name) and s.value.func.id in ("nodetype", "timestamptype") and \
                s.value.args and isinstance(s.value.args[0], ast.Name) and s.value.args[0].id == s.targets[0].id:
            conv[s.targets[0].id] = (s.value.func.id, s)
    tries = [t for t in walk_no_nested(loop) if isinstance(t, ast.Try)]

    def wrapped(st):
        for t in tries:
            if any(st is x for b in t.body for x in ast.walk(b)):
                for h in t.handlers:
                    for x in h.body:
                        if isinstance(x, ast.Raise) and x.exc is not None and "TypeError" in src(x.exc):
                            return True
        return False
    for name, want_conv in [("u", "nodetype"), ("v", "nodetype")] + [(c, "timestamptype") for c in fmt["time_cols"]]:
        c = conv.get(name)
        ok = c is not None and c[0] == want_conv and wrapped(c[1])
        ob("F4", tag, "%s converted with %s inside try -> TypeError" % (name, want_conv), ok)
        if not ok:
            bad("F4.convert", tag, "convert-%s" % name,
                "%s: column %s is %s" % (qual, name, "never converted with %s" % want_conv if c is None or c[0] != want_conv
                                         else "converted outside a try that re-raises TypeError"), (c[1].lineno if c else loop.lineno))
    # no comparison / arithmetic on a time column before its conversion
    for name in fmt["time_cols"]:
        c = conv.get(name)
        if c is None:
            continue
        popped_at = max([pos[id(s)] for (nm, _, s) in pops if nm == name] + [pos[id(s)] for (nm, _, s) in idx_assign if nm == name] or [0])
        for s in stmts[popped_at + 1:pos[id(c[1])]]:
            for x in ([s.test] if isinstance(s, (ast.If, ast.While)) else [getattr(s, "value", None)]):
                if x is None:
                    continue
                for y in ast.walk(x):
                    if isinstance(y, (ast.Compare, ast.BinOp)):
                        operands = ([y.left] + list(y.comparators)) if isinstance(y, ast.Compare) else [y.left, y.right]
                        ops = y.ops if isinstance(y, ast.Compare) else [y.op]
                        if any(isinstance(o, ast.Name) and o.id == name for o in operands) and not all(
                                isinstance(o, (ast.Is, ast.IsNot)) for o in ops):
                            bad("F4.convert", tag, "use-before-convert-%s" % name,
                                "%s: '%s' uses the time column %s before timestamptype is applied (it is still the text of the "
                                "field)" % (qual, src(y)[:60], name), getattr(s, "lineno", 0))
    # --- keys remap -----------------------------------------------------------------------
    calls = [c for c in walk_no_nested(loop) if isinstance(c, ast.Call) and isinstance(c.func, ast.Attribute) and c.func.attr == "add_interaction"]
    if not calls:
        raise AnalysisError("%s: no add_interaction call in the line loop" % qual)
    for name in fmt["time_cols"]:
        remap = [s for s in stmts if isinstance(s, ast.Assign) and isinstance(s.targets[0], ast.Name) and s.targets[0].id == name
                 and isinstance(s.value, ast.Subscript) and isinstance(s.value.value, ast.Name) and s.value.value.id == "keys"
                 and isinstance(s.value.slice, ast.Name) and s.value.slice.id == name]
        ok = bool(remap) and all(pos[id(remap[0])] < pos[id(_stmt_of(stmts, c))] for c in calls)
        if ok and name in conv:
            ok = pos[id(conv[name][1])] < pos[id(remap[0])]
        ob("F5", tag, "%s remapped through keys before add_interaction" % name, ok)
        if not ok:
            bad("F5.keys", tag, "keys-%s" % name, "%s: with keys the time column %s is not replaced by its rank (after conversion, "
                "before add_interaction)" % (qual, name), (remap[0].lineno if remap else loop.lineno))


def _stmt_of(stmts, node):
    for s in stmts:
        if any(x is node for x in ast.walk(s)) and not isinstance(s, (ast.If, ast.For, ast.Try, ast.While, ast.With)):
            return s
    for s in stmts:
        if any(x is node for x in ast.walk(s)):
            return s
    return stmts[-1]


def _check_ids_columns(fn, stmts, fmt, fields, bad, ob, tag):
    """read_ids must collect exactly the time columns of the format: fields[2:4] (snapshots) / fields[3] (interactions)."""
    want = "[%s[3]]" % fields if fmt["ops"] else "%s[2:4]" % fields
    assigns = [s for s in stmts if isinstance(s, ast.Assign) and src(s.value) == want]
    ok = bool(assigns)
    ob("F5", tag, "rank table built from %s" % want, ok)
    if not ok:
        cands = [src(s.value) for s in stmts if isinstance(s, ast.Assign) and isinstance(s.targets[0], ast.Name)
                 and s.targets[0].id == "stamps"]
        bad("F5.keys", tag, "ids-columns", "read_ids collects %s for the %s format; the parser looks up %s" % (
            cands or "?", fmt["parser"].split("_")[1], want), fn.lineno)


def check_compact_timeslot(repo: Repo, rep: Report):
    """F6 / S4: rank map."""
    fn = repo.get(TRANSFORM, "compact_timeslot")
    construct = repo.construct(TRANSFORM, "compact_timeslot")
    param = fn.args.args[0].arg
    rets = [n for n in walk_no_nested(fn) if isinstance(n, ast.Return)]
    # resolve single-assignment locals
    defs = {}
    for n in walk_no_nested(fn):
        if isinstance(n, ast.Assign) and len(n.targets) == 1 and isinstance(n.targets[0], ast.Name):
            defs.setdefault(n.targets[0].id, []).append(n.value)

    def resolve(e):
        seen = set()
        while isinstance(e, ast.Name) and e.id in defs and len(defs[e.id]) == 1 and e.id not in seen:
            seen.add(e.id)
            e = defs[e.id][0]
        return e
    ok = False
    why = "no single return of a rank map"
    if len(rets) == 1 and rets[0].value is not None:
        v = resolve(rets[0].value)
        if isinstance(v, ast.DictComp) and len(v.generators) == 1 and not v.generators[0].ifs:
            g = v.generators[0]
            it = g.iter
            if isinstance(it, ast.Call) and getattr(it.func, "id", None) == "enumerate" and it.args:
                start = const_value(it.args[1]) if len(it.args) > 1 else next((const_value(k.value) for k in it.keywords if k.arg == "start"), 0)
                seq = resolve(it.args[0])
                srt = isinstance(seq, ast.Call) and getattr(seq.func, "id", None) == "sorted" and seq.args and \
                    not any(k.arg in ("reverse", "key") for k in seq.keywords)
                src_ok = srt and (param in {n.id for n in ast.walk(seq.args[0]) if isinstance(n, ast.Name)})
                tgt = g.target
                shape = isinstance(tgt, ast.Tuple) and len(tgt.elts) == 2 and all(isinstance(x, ast.Name) for x in tgt.elts) and \
                    isinstance(v.key, ast.Name) and isinstance(v.value, ast.Name) and v.key.id == tgt.elts[1].id and v.value.id == tgt.elts[0].id
                ok = bool(src_ok and shape and start == 0)
                why = "enumerate(sorted(%s)) start=%s, ascending=%s, {value: index}=%s" % (param, start, srt, shape)
            else:
                why = "the comprehension does not iterate enumerate(sorted(..))"
        else:
            why = "returns %s" % src(v)[:60]
    elif len(rets) > 1:
        why = "several return paths (%s): a shortcut that is not the rank map" % "; ".join(src(r)[:40] for r in rets)
    rep.ob("S4.rankmap", construct, "{v: i for i, v in enumerate(sorted(X))}", ok=ok)
    if not ok:
        rep.finding("S4.rankmap", construct, "not-rank-map", "compact_timeslot is not the rank map of its argument: %s" % why, line=fn.lineno)
    return 1


def check_open_file_decorator(repo: Repo, rep: Report):
    """F1b: the decorator opens string paths through the extension table and hands caller-supplied
    file objects to the wrapped function untouched."""
    outer = repo.get(DECORATORS, "open_file")
    construct = repo.construct(DECORATORS, "open_file")
    inner = next((n for n in ast.walk(outer) if isinstance(n, ast.FunctionDef) and n is not outer), None)
    if inner is None:
        raise AnalysisError("open_file: inner wrapper not found")
    n = 0
    # 1. no method of the caller's object is invoked (only close(), and only under close_fobj)
    for c in ast.walk(inner):
        if isinstance(c, ast.Call) and isinstance(c.func, ast.Attribute) and isinstance(c.func.value, ast.Name) \
                and c.func.value.id in ("path", "fobj"):
            n += 1
            ok = c.func.attr == "close"
            rep.ob("S3.F1b", construct, "call %s on the file object" % src(c)[:40], ok=ok)
            if not ok:
                rep.finding("S3.F1b.fileobject", construct, "touches-fileobject:%s" % c.func.attr,
                            "the decorator calls %s on the target before the wrapped function runs: an open file object "
                            "supplied by the caller must be used as it is (position and content preserved)" % src(c)[:60],
                            line=c.lineno)
    closes = [c for c in ast.walk(inner) if isinstance(c, ast.Call) and isinstance(c.func, ast.Attribute) and c.func.attr == "close"]
    for c in closes:
        guarded = any(isinstance(i, ast.If) and "close_fobj" in src(i.test) and any(x is c for x in ast.walk(i)) for i in ast.walk(inner))
        rep.ob("S3.F1b", construct, "close() only for files the decorator opened", ok=guarded)
        if not guarded:
            rep.finding("S3.F1b.fileobject", construct, "unguarded-close", "the decorator closes the target unconditionally "
                        "(a caller-supplied file object must stay open)", line=c.lineno)
    # 2. string paths are opened through the dispatch table with the decorator's mode
    opened = [c for c in ast.walk(inner) if isinstance(c, ast.Call) and isinstance(c.func, ast.Subscript)
              and isinstance(c.func.value, ast.Name) and c.func.value.id == "_dispatch_dict"]
    ok = len(opened) == 1 and any(k.arg == "mode" and isinstance(k.value, ast.Name) and k.value.id == "mode" for k in opened[0].keywords) \
        or (len(opened) == 1 and len(opened[0].args) == 2 and isinstance(opened[0].args[1], ast.Name) and opened[0].args[1].id == "mode")
    n += 1
    rep.ob("S3.F1b", construct, "string paths opened via _dispatch_dict[ext](path, mode)", ok=bool(ok))
    if not ok:
        rep.finding("S3.F1b.dispatch", construct, "dispatch-call", "string paths are not opened through _dispatch_dict[ext](path, mode=mode)",
                    line=inner.lineno)
    # 3. the table itself
    mod = repo.modules[DECORATORS]
    table = {}
    default = None
    for st in mod.body:
        if isinstance(st, ast.Assign) and isinstance(st.targets[0], ast.Subscript) and isinstance(st.targets[0].value, ast.Name) \
                and st.targets[0].value.id == "_dispatch_dict":
            table[const_value(st.targets[0].slice)] = src(st.value)
        if isinstance(st, ast.Assign) and isinstance(st.targets[0], ast.Name) and st.targets[0].id == "_dispatch_dict":
            default = src(st.value)
    want = {".gz": "_open_gz", ".gzip": "_open_gz", ".bz2": "_open_bz2"}
    for ext, opener in want.items():
        n += 1
        ok = table.get(ext) == opener
        rep.ob("S3.F1b", construct, "extension %s -> %s" % (ext, opener), ok=ok)
        if not ok:
            rep.finding("S3.F1b.dispatch", construct, "ext:%s" % ext, "extension %s is opened with %s, expected %s" % (ext, table.get(ext), opener))
    ok = default is not None and "lambda: open" in default
    rep.ob("S3.F1b", construct, "other extensions -> open", ok=ok)
    if not ok:
        rep.finding("S3.F1b.dispatch", construct, "default-opener", "the default opener is %s, expected the builtin open" % default)
    for name, lib, call in (("_open_gz", "gzip", "gzip.open"), ("_open_bz2", "bz2", "bz2.BZ2File")):
        f = repo.get(DECORATORS, name)
        txt = src(f)
        ok = call in txt and "mode=mode" in txt.replace(" ", "") or (call in txt and ", mode)" in txt)
        n += 1
        rep.ob("S3.F1b", repo.construct(DECORATORS, name), "%s(path, mode)" % call, ok=bool(ok))
        if not ok:
            rep.finding("S3.F1b.dispatch", repo.construct(DECORATORS, name), "opener", "%s does not open the path with %s in the requested mode" % (name, call))
    return n
