"""Readers of the temporal indexes, interpreted abstractly (C04, C05).

  stream_interactions        iterates the *sorted* instants of time_to_edge and yields
                             (key[0], key[1], key[2], instant) for every key stored there
  temporal_snapshots_ids     sorted(keys of snapshots), ascending
  interactions_per_snapshots counter / divisor for a key, 0 for a missing instant and
                             - being an observer - no key is created by asking
  avg_number_of_nodes        sum of number_of_nodes(t) over the ids / number of ids
"""
from __future__ import annotations
import ast
from .core import Repo, CLASSES, AnalysisError, src, walk_no_nested, is_self_attr
from .ordertype import OrderType
from .absint import (Interp, Int, Const, NONE, NodeV, SelfV, TupleV, ListObj, DictObj, AbstractRaise, Unsupported,
                     Opaque, BoundMethod, run_all_choices)
from .world_graph import GraphWorld, TTE, TTEDict, Snapshots, SnapIds, TTEEntry


class Keys:
    def __init__(self, of):
        self.of = of

    def __repr__(self):
        return "keys(%s)" % self.of


class Sorted:
    def __init__(self, of, reverse=False):
        self.of, self.reverse = of, reverse

    def __repr__(self):
        return "sorted(%s%s)" % (self.of, ", reverse" if self.reverse else "")


class Items:
    def __init__(self, of):
        self.of = of


class SnapMap:
    def __init__(self, key, value):
        self.key, self.value = key, value

    def __repr__(self):
        return "{%r: %r for every snapshot}" % (self.key, self.value)


class ReaderWorld(GraphWorld):
    wants_yields = True

    """Generic instant tau / generic stored key (X, Y, op)."""

    def __init__(self, cfg, ot, choices, methods):
        super().__init__(cfg, ot, choices, methods)
        self.yields = []
        self.iterated = []

    def call_method(self, ip, obj, name, args, kwargs, node):
        if isinstance(obj, (TTE, Snapshots)) and name == "keys" and not args:
            return Keys("tte" if isinstance(obj, TTE) else "snapshots")
        if isinstance(obj, (TTE, Snapshots)) and name == "items" and not args:
            return Items("tte" if isinstance(obj, TTE) else "snapshots")
        if isinstance(obj, SelfV) and name == "temporal_snapshots_ids" and "temporal_snapshots_ids" in self.methods \
                and self.cfg.get("inline_ids"):
            fn = self.methods[name]
            return ip.call_function(fn, {"self": SelfV()})
        return super().call_method(ip, obj, name, args, kwargs, node)

    def call_builtin(self, ip, name, args, kwargs, node):
        if name == "sorted" and len(args) == 1:
            a = args[0]
            if isinstance(a, (TTE, Snapshots)):
                a = Keys("tte" if isinstance(a, TTE) else "snapshots")
            if isinstance(a, Keys):
                rev = kwargs.get("reverse", Const(False))
                if "key" in kwargs:
                    raise Unsupported(node, "sorted(..., key=...)")
                return Sorted(a.of, reverse=ip.truth(rev, node))
            if isinstance(a, ListObj) and getattr(a, "keys_of", None):
                return Sorted(a.keys_of, reverse=ip.truth(kwargs.get("reverse", Const(False)), node))
        return None

    def call(self, ip, f, args, kwargs, node):
        return super().call(ip, f, args, kwargs, node)

    def exec_special_for(self, ip, st, it, env):
        if isinstance(it, (TTE, Snapshots)):
            it = Keys("tte" if isinstance(it, TTE) else "snapshots")
        if isinstance(it, (Sorted, Keys)):
            self.iterated.append(it)
            tau = Int("tau")
            if it.of == "tte":
                en = TTEEntry(tau, True)
                en.generic = True
                self.tte.append(en)
            else:
                self.__dict__.setdefault("_snap_points", []).append((tau, True))
            ip.assign(st.target, tau, env)
            ip.run_loop_body(st, env)
            return
        if isinstance(it, TTEDict):
            key = TupleV([NodeV("X"), NodeV("Y"), Opaque("op")])
            self.iterated.append("events-at-instant")
            ip.assign(st.target, key, env)
            ip.run_loop_body(st, env)
            return
        raise Unsupported(st, "iteration over %r" % (it,))

    def eval_comprehension(self, ip, e, env):
        if len(e.generators) == 1 and not e.generators[0].ifs:
            g = e.generators[0]
            it = ip.eval(g.iter, env)
            if isinstance(it, Items) and it.of == "snapshots" and isinstance(e, ast.DictComp):
                env2 = dict(env)
                ip.assign(g.target, TupleV([Int("tau"), Opaque("counter")]), env2)
                self.__dict__.setdefault("_snap_points", []).append((Int("tau"), True))
                return SnapMap(ip.eval(e.key, env2), ip.eval(e.value, env2))
            if isinstance(it, (Keys, Sorted)) and it.of == "snapshots" and isinstance(e, ast.DictComp):
                env2 = dict(env)
                ip.assign(g.target, Int("tau"), env2)
                self.__dict__.setdefault("_snap_points", []).append((Int("tau"), True))
                return SnapMap(ip.eval(e.key, env2), ip.eval(e.value, env2))
        raise Unsupported(e, "comprehension")


def _methods(repo, cls):
    return repo.class_methods(CLASSES[cls], cls)


def check_stream(repo: Repo, cls, add):
    rel = CLASSES[cls]
    fn = repo.get(rel, cls + ".stream_interactions")
    construct = repo.construct(rel, cls + ".stream_interactions")
    ot = OrderType([["tau"]], [], 2)
    w = ReaderWorld(dict(cls=cls, directed=cls == "DynDiGraph", removal=True, exists=False), ot, {}, _methods(repo, cls))
    ip = Interp(w, ot)
    try:
        ip.call_function(fn, {"self": SelfV()})
    except AbstractRaise as r:
        add("C05.stream", construct, "raises:%s" % r.exc, "stream_interactions can raise %s (%s)" % (r.exc, r.detail),
            getattr(r.node, "lineno", 0))
        return 1
    if w.effects:
        add("C05.stream", construct, "writes", "stream_interactions writes state: %s" % (w.effects[0][0],), w.effects[0][1])
    outer = [x for x in w.iterated if not isinstance(x, str)]
    if len(outer) != 1 or not isinstance(outer[0], Sorted) or outer[0].of != "tte" or outer[0].reverse:
        add("C05.stream", construct, "order", "the stream does not iterate the instants of time_to_edge in ascending "
            "sorted order (iterates %s)" % (outer,), fn.lineno)
    if w.iterated.count("events-at-instant") != 1:
        add("C05.stream", construct, "inner-loop", "the events stored at an instant are not enumerated exactly once", fn.lineno)
    want = TupleV([NodeV("X"), NodeV("Y"), Opaque("op"), Int("tau")])
    ys = w.yields
    ok = len(ys) == 1 and isinstance(ys[0], TupleV) and len(ys[0].items) == 4 and \
        ys[0].items[0] == NodeV("X") and ys[0].items[1] == NodeV("Y") and \
        isinstance(ys[0].items[2], Opaque) and ys[0].items[2].tag == "op" and \
        isinstance(ys[0].items[3], Int) and ys[0].items[3].term() == ("tau", 0)
    if not ok:
        add("C05.stream", construct, "tuple", "for a stored key (X, Y, op) at instant tau the stream yields %s, "
            "expected one (X, Y, op, tau)" % (ys,), fn.lineno)
    return 1


def check_snapshot_readers(repo: Repo, cls, add, kinds):
    rel = CLASSES[cls]
    methods = _methods(repo, cls)
    n = 0
    # --- temporal_snapshots_ids -----------------------------------------
    fn = repo.get(rel, cls + ".temporal_snapshots_ids")
    construct = repo.construct(rel, cls + ".temporal_snapshots_ids")
    ot = OrderType([["tau"]], [], 2)
    base = dict(cls=cls, directed=cls == "DynDiGraph", removal=True, exists=False, snap_kind=kinds["snapshots"],
                tte_kind=kinds["time_to_edge"])
    w = ReaderWorld(dict(base), ot, {}, methods)
    try:
        v = Interp(w, ot).call_function(fn, {"self": SelfV()})
        n += 1
        if not (isinstance(v, Sorted) and v.of == "snapshots" and not v.reverse):
            add("C04.ids", construct, "not-sorted-keys", "temporal_snapshots_ids returns %r, expected the ascending "
                "sorted keys of the snapshot index" % (v,), fn.lineno)
        if w.effects:
            add("C04.ids", construct, "writes", "temporal_snapshots_ids writes state", w.effects[0][1])
    except AbstractRaise as r:
        add("C04.ids", construct, "raises:%s" % r.exc, "temporal_snapshots_ids can raise %s" % r.exc, getattr(r.node, "lineno", 0))
    # --- interactions_per_snapshots ---------------------------------------
    fn = repo.get(rel, cls + ".interactions_per_snapshots")
    construct = repo.construct(rel, cls + ".interactions_per_snapshots")
    params = [a.arg for a in fn.args.args]
    if params != ["self", "t"]:
        raise AnalysisError("%s: unexpected signature %s" % (construct, params))
    for present in (True, False):
        ot = OrderType([["q"]], [], 2)
        w = ReaderWorld(dict(base), ot, {("snap_has", 0): present}, methods)
        n += 1
        try:
            v = Interp(w, ot).call_function(fn, {"self": SelfV(), "t": Int("q")})
        except AbstractRaise as r:
            add("C04.counts", construct, "raises:%s:%s" % ("present" if present else "absent", r.exc),
                "interactions_per_snapshots(t) raises %s for %s instant" % (r.exc, "an inhabited" if present else "an uninhabited"),
                getattr(r.node, "lineno", 0))
            continue
        if w.effects:
            add("C04.ids", construct, "query-creates-key", "interactions_per_snapshots(t) writes the snapshot index "
                "(%s): asking about an uninhabited instant must not turn it into a snapshot id" % (w.effects[0][0],),
                w.effects[0][1])
        if not present and not (isinstance(v, Const) and v.v == 0 and not isinstance(v.v, bool)):
            add("C04.counts", construct, "absent-not-zero", "interactions_per_snapshots(t) returns %r for an instant "
                "that is not a snapshot id (expected 0)" % (v,), fn.lineno)
        if present and not (isinstance(v, Opaque) and v.tag.startswith("counter")):
            add("C04.counts", construct, "present-not-counter", "interactions_per_snapshots(t) returns %r for a snapshot id, "
                "expected its (scaled) counter" % (v,), fn.lineno)
        if present and isinstance(v, Opaque):
            scalar_tag = v.tag
    w = ReaderWorld(dict(base), OrderType([["tau"]], [], 2), {}, methods)
    n += 1
    try:
        v = Interp(w, w.ot).call_function(fn, {"self": SelfV(), "t": NONE})
        if not (isinstance(v, SnapMap) and isinstance(v.key, Int) and v.key.term() == ("tau", 0)
                and isinstance(v.value, Opaque) and v.value.tag.startswith("counter")):
            add("C04.counts", construct, "all-not-map", "interactions_per_snapshots() returns %r, expected "
                "{id: scaled counter} for every snapshot id" % (v,), fn.lineno)
        elif 'scalar_tag' in locals() and v.value.tag != scalar_tag:
            add("C04.counts", construct, "scale-mismatch", "the per-id form scales counters as %s, the all-ids form as %s" % (
                scalar_tag, v.value.tag), fn.lineno)
    except AbstractRaise as r:
        add("C04.counts", construct, "raises:all:%s" % r.exc, "interactions_per_snapshots() raises %s" % r.exc,
            getattr(r.node, "lineno", 0))
    # --- avg_number_of_nodes (structural) --------------------------------------
    fn = repo.get(rel, cls + ".avg_number_of_nodes")
    construct = repo.construct(rel, cls + ".avg_number_of_nodes")
    n += 1
    problems = _avg_shape(fn)
    for key, msg in problems:
        add("C04.avg", construct, key, msg, fn.lineno)
    return n


def _avg_shape(fn):
    """sum(number_of_nodes(t) for t in <snapshot ids>) / len(<snapshot ids>)"""
    problems = []
    calls = [n for n in walk_no_nested(fn) if isinstance(n, ast.Call) and isinstance(n.func, ast.Attribute)
             and n.func.attr == "number_of_nodes" and isinstance(n.func.value, ast.Name) and n.func.value.id == "self"]
    if not calls:
        return [("no-per-snapshot-count", "avg_number_of_nodes does not call self.number_of_nodes(t)")]
    # the argument must be the variable of a loop / comprehension over the snapshot ids
    ok_arg = False
    for comp in [n for n in walk_no_nested(fn) if isinstance(n, (ast.comprehension, ast.For))]:
        it = comp.iter
        tgt = comp.target
        if isinstance(tgt, ast.Name) and _is_ids(it):
            for c in calls:
                a = (c.args[0] if c.args else next((k.value for k in c.keywords if k.arg == "t"), None))
                if isinstance(a, ast.Name) and a.id == tgt.id:
                    ok_arg = True
    if not ok_arg:
        problems.append(("count-not-over-ids", "number_of_nodes is not evaluated at every snapshot id "
                         "(argument is not the variable of a loop over the snapshot ids)"))
    rets = [n for n in walk_no_nested(fn) if isinstance(n, ast.Return) and n.value is not None]
    if len(rets) != 1 or not (isinstance(rets[0].value, ast.BinOp) and isinstance(rets[0].value.op, ast.Div)):
        problems.append(("not-a-ratio", "avg_number_of_nodes does not return total / number of snapshot ids on a "
                         "single path (%s)" % "; ".join(src(r)[:60] for r in rets)))
    else:
        den = rets[0].value.right
        if not (isinstance(den, ast.Call) and isinstance(den.func, ast.Name) and den.func.id == "len" and den.args
                and _is_ids(den.args[0])):
            problems.append(("denominator", "the denominator %s is not the number of snapshot ids" % src(den)))
    return problems


def _is_ids(e):
    if is_self_attr(e, "snapshots"):
        return True
    if isinstance(e, ast.Call) and isinstance(e.func, ast.Attribute):
        if e.func.attr == "temporal_snapshots_ids" and isinstance(e.func.value, ast.Name) and e.func.value.id == "self":
            return True
        if e.func.attr == "keys" and is_self_attr(e.func.value, "snapshots"):
            return True
    if isinstance(e, ast.Call) and isinstance(e.func, ast.Name) and e.func.id in ("sorted", "list") and e.args:
        return _is_ids(e.args[0])
    return False
