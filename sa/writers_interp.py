"""generate_interactions on a concrete-symbolic event log (C10): the rows must be the interaction stream, in stream order.

The event log holds the instants in the order in which they were created (t+4 before t+1 before t+3 - pairs added out of
time order relative to each other); stream_interactions() (decided under C05) yields the events chronologically.  A
writer that walks the log itself must sort it; one that consumes the stream gets the order for free."""
from __future__ import annotations
from .core import Repo, Report, CLASSES, EDGELIST, AnalysisError
from .ordertype import OrderType
from .absint import (Interp, Int, Const, NONE, NodeV, SelfV, TupleV, ListObj, DictObj, IterV, AbstractRaise, Unsupported, Opaque,
                     BoundMethod, Builtin)
from .query_check import SHAPES
from .stats_interp import StreamWorld, T

LOG = [("A", "B", "+", 4), ("C", "A", "+", 1), ("C", "A", "-", 3), ("B", "C", "+", 4), ("A", "B", "-", 6)]    # insertion order


class Row:
    def __init__(self, delim, fields):
        self.delim, self.fields = delim, fields

    def __repr__(self):
        return "row%r" % (self.fields,)


class WriterWorld(StreamWorld):
    def __init__(self, cls, shape, choices, methods, functions):
        super().__init__(cls, shape, choices, methods, functions, LOG, [(1, 1)])
        self.rows = []

    def resolve_name(self, ip, name, node):
        if name in ("make_str", "str"):
            return Builtin("make_str")
        return super().resolve_name(ip, name, node)

    def load_attr(self, ip, obj, attr, node):
        if isinstance(obj, Const) and isinstance(obj.v, str):
            return BoundMethod(obj, attr)
        return super().load_attr(ip, obj, attr, node)

    def call_builtin(self, ip, name, args, kwargs, node):
        if name == "make_str" and len(args) == 1:
            return args[0]
        return super().call_builtin(ip, name, args, kwargs, node)

    def call_method(self, ip, obj, name, args, kwargs, node):
        if isinstance(obj, SelfV) and name == "stream_interactions" and not args:
            ev = sorted(self.events, key=lambda e: e[3])         # stable: ties keep their insertion order
            return IterV([TupleV([NodeV(s), NodeV(d), Const(op), T(k)]) for (s, d, op, k) in ev])
        if isinstance(obj, Const) and isinstance(obj.v, str) and name == "join" and len(args) == 1:
            seq = ip._seq(args[0], node)
            if seq is not None:
                return Row(obj.v, list(seq))
        return super().call_method(ip, obj, name, args, kwargs, node)

    def on_yield(self, ip, v, node):
        self.rows.append(v)


def check_generate_interactions_order(repo: Repo, rep: Report, cls):
    fn = repo.get(EDGELIST, "generate_interactions")
    construct = repo.construct(EDGELIST, "generate_interactions") + "[G:%s]" % cls
    methods = repo.class_methods(CLASSES[cls], cls)
    shape = SHAPES[cls == "DynDiGraph"][0]
    ot = OrderType([["t"]], [], 12)
    w = WriterWorld(cls, shape, {}, methods, repo.functions(EDGELIST))
    w.wants_yields = True
    ip = Interp(w, ot, max_depth=8)
    params = [a.arg for a in fn.args.args]
    if params[:1] != ["G"]:
        raise AnalysisError("generate_interactions: unexpected signature %s" % params)
    wit = "event log created in the order %s" % ["%s %s %s t%+d" % e for e in LOG]
    try:
        val = ip.call_function(fn, {"G": SelfV(), "delimiter": Const("|")})
    except AbstractRaise as r:
        rep.finding("O.writers/C10.order", construct, "raises:%s" % r.exc, "generate_interactions raises %s (%s)" % (r.exc, r.detail), witness=wit,
                    line=getattr(r.node, "lineno", 0))
        return 1
    rows = list(w.rows)
    if isinstance(val, IterV):
        rows = val.drain()
    elif isinstance(val, ListObj):
        rows = list(val.items)
    got = []
    for r in rows:
        if not (isinstance(r, Row) and r.delim == "|" and len(r.fields) == 4):
            rep.finding("O.writers/C10.order", construct, "row-shape", "a row is %r, expected 'u|v|op|t'" % (r,), witness=wit)
            return 1
        u, v, op, t = r.fields
        got.append((getattr(u, "role", repr(u)), getattr(v, "role", repr(v)), getattr(op, "v", repr(op)), t.k if isinstance(t, Int) else repr(t)))
    want = sorted(LOG, key=lambda e: e[3])
    if got != want:
        chrono = [g[3] for g in got] == sorted(g[3] for g in got if isinstance(g[3], int)) and len(got) == len(want)
        rep.finding("O.writers/C10.order", construct, "not-the-stream:%s" % ("order-within-instant" if chrono and sorted(got, key=str) == sorted(want, key=str)
                                                                             else ("not-chronological" if sorted(got, key=str) == sorted(want, key=str) else "other-rows")),
                    "the rows written are %s; the interaction stream is %s" % (got, want), witness=wit)
    if w.effects:
        rep.finding("O.writers/C10.order", construct, "writes-graph", "the writer writes the graph", witness=wit)
    rep.ob("O.writers", construct, "rows = interaction stream, in stream order, on a log created out of time order")
    return 1
