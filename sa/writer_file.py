"""File assembly of the edge-list writers (C09 write_snapshots, C10 write_interactions).

The row generators are decided elsewhere (row expansion, stream order).  Here the *writer* is interpreted with its
generator replaced by k opaque rows r0..r(k-1) and its (already opened, binary) file by a recorder: what reaches the file
must be the rows in generation order, every row exactly once and alone on its line, encoded with the requested encoding.
k ranges over 0..3 and - because a writer may buffer - over the neighbourhood of every integer constant >= 4 that the writer's
text (or a module constant it names) compares sizes against: K-1, K, K+1, 2K, 2K+1.  A block writer whose last-row handling
is wrong shows at k = K+1 however large K is, as long as K rows can be interpreted (K <= MAX_K, else the check abstains).

Tolerated (undecided, never a violation): blank lines, whitespace next to a row, a missing final newline."""
from __future__ import annotations
import ast
from .core import Repo, Report, EDGELIST, CLASSES, AnalysisError, walk_no_nested
from .ordertype import OrderType
from .absint import (Interp, Const, NONE, SelfV, ListObj, TupleV, IterV, AbstractRaise, Unsupported, BoundMethod, Opaque,
                     MODULE_CONSTANTS)
from .query_check import QueryWorld, SHAPES, FuncRef

MAX_K = 4096
FORMATS = {"snapshots": ("write_snapshots", "generate_snapshots"), "interactions": ("write_interactions", "generate_interactions")}


class RowV:
    """the i-th row handed out by the generator (a str without newline)"""
    hashable_value = True

    def __init__(self, i):
        self.i = i

    def __repr__(self):
        return "r%d" % self.i


class TextV:
    """str assembled from rows and literal text"""

    def __init__(self, parts):
        self.parts = _norm(parts)

    def __repr__(self):
        return "text%r" % (self.parts,)


class BytesV:
    def __init__(self, parts, enc, pieces=1):
        self.parts, self.enc = _norm(parts), enc
        self.pieces = pieces          # number of separate str.encode() results concatenated in here

    def __repr__(self):
        return "bytes%r" % (self.parts,)


class FileRec:
    def __init__(self):
        self.writes = []              # (parts, encoding, line, how) - how: 'encode' (one str.encode() per piece) or 'stream'

    def __repr__(self):
        return "<open binary file>"


def _norm(parts):
    out = []
    for p in parts:
        if isinstance(p, str):
            if not p:
                continue
            if out and isinstance(out[-1], str):
                out[-1] += p
                continue
        out.append(p)
    return out


def _text_parts(v):
    """parts of a str-like abstract value, or None"""
    if isinstance(v, RowV):
        return [v]
    if isinstance(v, TextV):
        return list(v.parts)
    if isinstance(v, Const) and isinstance(v.v, str):
        return [v.v]
    return None


class TextWriterV:
    """codecs.getwriter(enc)(file) / io.TextIOWrapper(file, encoding=enc): one stateful encoder in front of the binary file"""

    def __init__(self, file, enc):
        self.file, self.enc = file, enc

    def __repr__(self):
        return "<text writer>"


class CodecFactory:
    def __init__(self, kind, enc):
        self.kind, self.enc = kind, enc


class CodecInfoV:
    """codecs.lookup(enc): .streamwriter / .streamreader are the factories getwriter / getreader return"""

    def __init__(self, enc):
        self.enc = enc


def _bytes_parts(v):
    if isinstance(v, BytesV):
        return list(v.parts), v.enc
    if isinstance(v, Const) and isinstance(v.v, bytes):
        try:
            return [v.v.decode("ascii")], None
        except UnicodeDecodeError:
            return None
    return None


class FileWriterWorld(QueryWorld):
    def __init__(self, cls, shape, methods, functions, gen_name, k):
        super().__init__(cls, shape, {}, methods, functions)
        self.current_rel = EDGELIST
        self.gen_name, self.k = gen_name, k
        self.gen_calls = 0
        self.file = FileRec()
        self.closed = False

    def load_attr(self, ip, obj, attr, node):
        if isinstance(obj, CodecInfoV):
            if attr in ("streamwriter", "streamreader"):
                return CodecFactory(attr[6:], obj.enc)
            raise Unsupported(node, "CodecInfo.%s" % attr)
        if isinstance(obj, (RowV, TextV, BytesV, FileRec, TextWriterV)) or (isinstance(obj, Const) and isinstance(obj.v, (str, bytes))):
            return BoundMethod(obj, attr)
        return super().load_attr(ip, obj, attr, node)

    def resolve_name(self, ip, name, node):
        if name in ("codecs", "io"):
            return Opaque("module:" + name)
        return super().resolve_name(ip, name, node)

    def call(self, ip, f, args, kwargs, node):
        if isinstance(f, FuncRef) and f.fn.name == self.gen_name:
            self.gen_calls += 1
            return IterV([RowV(i) for i in range(self.k)])
        if isinstance(f, Opaque) and f.tag == "module:codecs.getwriter" and len(args) == 1 and not kwargs:
            return CodecFactory("writer", args[0])
        if isinstance(f, Opaque) and f.tag == "module:codecs.lookup" and len(args) == 1 and not kwargs:
            return CodecInfoV(args[0])
        if isinstance(f, CodecFactory) and f.kind == "writer" and len(args) >= 1 and isinstance(args[0], FileRec):
            return TextWriterV(args[0], f.enc)
        if isinstance(f, Opaque) and f.tag == "module:io.TextIOWrapper" and len(args) >= 1 and isinstance(args[0], FileRec):
            enc = args[1] if len(args) > 1 else kwargs.get("encoding")
            nl = kwargs.get("newline")
            if enc is None or not (nl is not None and isinstance(nl, Const) and nl.v in ("", "\n")):
                raise Unsupported(node, "TextIOWrapper without explicit encoding / newline translation")
            return TextWriterV(args[0], enc)
        if isinstance(f, Opaque) and f.tag.startswith(("module:codecs.", "module:io.")):
            raise Unsupported(node, "call of %s" % f.tag[7:])
        return super().call(ip, f, args, kwargs, node)

    def truth_of(self, ip, v):
        if isinstance(v, RowV):
            return True            # a row has at least three fields
        if isinstance(v, (TextV, BytesV)):
            return bool(v.parts)
        return super().truth_of(ip, v)

    def binop(self, ip, a, op, b, node):
        if isinstance(op, ast.Add):
            pa, pb = _text_parts(a), _text_parts(b)
            if pa is not None and pb is not None:
                return TextV(pa + pb)
            ba, bb = _bytes_parts(a), _bytes_parts(b)
            if ba is not None and bb is not None:
                return BytesV(ba[0] + bb[0], ba[1] if ba[1] is not None else bb[1], getattr(a, "pieces", 0) + getattr(b, "pieces", 0))
        if isinstance(op, ast.Mod) and isinstance(a, Const) and isinstance(a.v, str):
            args = list(b.items) if isinstance(b, TupleV) else [b]
            r = _percent(a.v, args)
            if r is not None:
                return r
        return super().binop(ip, a, op, b, node)

    def eval_fstring(self, ip, parts, node):
        out = []
        for p in parts:
            q = _text_parts(p)
            if q is None:
                return None
            out += q
        return TextV(out)

    def call_builtin(self, ip, name, args, kwargs, node):
        if name == "len" and len(args) == 1 and isinstance(args[0], (RowV, TextV, BytesV)):
            raise Unsupported(node, "length of a row")
        return super().call_builtin(ip, name, args, kwargs, node)

    def call_method(self, ip, obj, name, args, kwargs, node):
        if isinstance(obj, Const) and isinstance(obj.v, str) and name == "join" and len(args) == 1 and not kwargs:
            seq = ip._seq(args[0], node)
            if seq is not None:
                out = []
                for i, x in enumerate(seq):
                    q = _text_parts(x)
                    if q is None:
                        raise Unsupported(node, "join of %r" % (x,))
                    if i:
                        out.append(obj.v)
                    out += q
                return TextV(out)
        if isinstance(obj, Const) and isinstance(obj.v, bytes) and name == "join" and len(args) == 1 and not kwargs:
            seq = ip._seq(args[0], node)
            if seq is not None:
                out, enc = [], None
                for i, x in enumerate(seq):
                    q = _bytes_parts(x)
                    if q is None:
                        raise Unsupported(node, "bytes join of %r" % (x,))
                    if i:
                        out.append(obj.v.decode("ascii", "replace"))
                    out += q[0]
                    enc = q[1] if q[1] is not None else enc
                return BytesV(out, enc, sum(getattr(x, "pieces", 0) for x in seq))
        if isinstance(obj, Const) and isinstance(obj.v, str) and name == "format" and not kwargs:
            r = _percent(obj.v.replace("%", "%%").replace("{}", "%s"), list(args)) if "{" in obj.v and "{}" in obj.v and obj.v.count("{") == obj.v.count("{}") else None
            if r is not None:
                return r
        parts = _text_parts(obj)
        if parts is not None and name == "encode" and len(args) <= 1:
            enc = args[0] if args else kwargs.get("encoding", Const("utf-8"))
            return BytesV(parts, enc)
        if parts is not None and name in ("rstrip", "strip") and not args and isinstance(obj, RowV):
            return obj              # a generated row carries no outer whitespace
        if isinstance(obj, TextWriterV):
            if name == "write" and len(args) == 1:
                q = _text_parts(args[0])
                if q is None:
                    raise Unsupported(node, "text write(%r)" % (args[0],))
                obj.file.writes.append((q, obj.enc, getattr(node, "lineno", 0), "stream"))
                return Opaque("count")
            if name == "writelines" and len(args) == 1:
                seq = ip._seq(args[0], node)
                if seq is None:
                    raise Unsupported(node, "writelines(%r)" % (args[0],))
                for x in seq:
                    q = _text_parts(x)
                    if q is None:
                        raise Unsupported(node, "writelines element %r" % (x,))
                    obj.file.writes.append((q, obj.enc, getattr(node, "lineno", 0), "stream"))
                return NONE
            if name in ("flush", "reset") and not args:
                return NONE
            if name == "detach" and not args:
                return obj.file
            raise Unsupported(node, "text writer method %s" % name)
        if isinstance(obj, FileRec):
            if name == "write" and len(args) == 1:
                q = _bytes_parts(args[0])
                if q is None:
                    if _text_parts(args[0]) is not None:
                        raise AbstractRaise("TypeError", node, detail="a str is written to a file opened in binary mode")
                    raise Unsupported(node, "write(%r)" % (args[0],))
                self.file.writes.append((q[0], q[1], getattr(node, "lineno", 0), "encode:%d" % getattr(args[0], "pieces", 0)))
                return Opaque("count")
            if name == "writelines" and len(args) == 1:
                seq = ip._seq(args[0], node)
                if seq is None:
                    raise Unsupported(node, "writelines(%r)" % (args[0],))
                for x in seq:
                    q = _bytes_parts(x)
                    if q is None:
                        if _text_parts(x) is not None:
                            raise AbstractRaise("TypeError", node, detail="a str is written to a file opened in binary mode")
                        raise Unsupported(node, "writelines element %r" % (x,))
                    self.file.writes.append((q[0], q[1], getattr(node, "lineno", 0), "encode:%d" % getattr(x, "pieces", 0)))
                return NONE
            if name == "flush" and not args:
                return NONE
            if name == "close" and not args:
                self.closed = True
                return NONE
            raise Unsupported(node, "file method %s" % name)
        return super().call_method(ip, obj, name, args, kwargs, node)


def _percent(fmt, args):
    """'..%s..' % rows -> TextV (only %s and %% are understood)"""
    out, i, n = [], 0, 0
    while i < len(fmt):
        c = fmt[i]
        if c == "%":
            if i + 1 >= len(fmt):
                return None
            d = fmt[i + 1]
            if d == "%":
                out.append("%")
            elif d == "s":
                if n >= len(args):
                    return None
                q = _text_parts(args[n])
                if q is None:
                    return None
                out += q
                n += 1
            else:
                return None
            i += 2
        else:
            out.append(c)
            i += 1
    if n != len(args):
        return None
    return TextV(out)


def size_constants(repo: Repo, fn, depth=2, _seen=None):
    """integer constants >= 4 in the writer's text (defaults of its parameters included), module constants it names, and the same
    for the module-level helpers it calls (two levels)"""
    ks = set()
    _seen = _seen if _seen is not None else set()
    _seen.add(fn.name)
    for d in list(fn.args.defaults) + [d for d in fn.args.kw_defaults if d is not None]:
        v = _fold(d)
        if isinstance(v, int) and not isinstance(v, bool) and v >= 4:
            ks.add(v)
    if depth > 0:
        helpers = repo.functions(EDGELIST)
        for n in walk_no_nested(fn):
            if isinstance(n, ast.Call) and isinstance(n.func, ast.Name) and n.func.id in helpers and n.func.id not in _seen \
                    and n.func.id not in ("generate_snapshots", "generate_interactions"):
                ks |= set(size_constants(repo, helpers[n.func.id], depth - 1, _seen))
    for n in walk_no_nested(fn):
        if isinstance(n, ast.Constant) and isinstance(n.value, int) and not isinstance(n.value, bool) and n.value >= 4:
            ks.add(n.value)
        if isinstance(n, ast.Name) and isinstance(n.ctx, ast.Load):
            for (rel, val) in MODULE_CONSTANTS.get(n.id, []):
                v = _fold(val)
                if rel == EDGELIST and isinstance(v, int) and not isinstance(v, bool) and v >= 4:
                    ks.add(v)
    return sorted(ks)


def _fold(e):
    """value of a constant integer expression (1024, 1 << 10, 4 * 256), else None"""
    if isinstance(e, ast.Constant):
        return e.value if isinstance(e.value, int) and not isinstance(e.value, bool) else None
    if isinstance(e, ast.BinOp):
        a, b = _fold(e.left), _fold(e.right)
        if a is None or b is None:
            return None
        try:
            if isinstance(e.op, ast.Add):
                return a + b
            if isinstance(e.op, ast.Sub):
                return a - b
            if isinstance(e.op, ast.Mult):
                return a * b
            if isinstance(e.op, ast.LShift) and 0 <= b < 64:
                return a << b
            if isinstance(e.op, ast.Pow) and 0 <= b < 64:
                return a ** b
            if isinstance(e.op, ast.FloorDiv) and b:
                return a // b
        except (OverflowError, ValueError):
            return None
    return None


def check_writer_file(repo: Repo, rep: Report, fmt_name, tier="quick"):
    wname, gname = FORMATS[fmt_name]
    functions = repo.functions(EDGELIST)
    if wname not in functions or gname not in functions:
        raise AnalysisError("anchor vanished: %s / %s" % (wname, gname))
    fn = functions[wname]
    construct = repo.construct(EDGELIST, wname)
    params = [a.arg for a in fn.args.args]
    for need in ("G", "path", "delimiter", "encoding"):
        if need not in params:
            raise AnalysisError("%s: unexpected signature %s" % (wname, params))
    ks = size_constants(repo, fn)
    too_big = [k for k in ks if k > MAX_K]
    if too_big:
        raise Unsupported(fn, "%s compares sizes against %s: a file of that many rows is beyond the interpreted shapes" % (wname, too_big))
    counts = {0, 1, 2, 3}
    for K in ks:
        counts |= {K - 1, K, K + 1, 2 * K, 2 * K + 1}
    cls = "DynGraph"
    methods = repo.class_methods(CLASSES[cls], cls)
    shape = SHAPES[False][0]
    ot = OrderType([["t"]], [], 8)
    n = 0
    for k in sorted(counts):
        w = FileWriterWorld(cls, shape, methods, functions, gname, k)
        ip = Interp(w, ot, max_depth=8)
        ip.max_steps = 40 * k + 20000
        env = {}
        defaults = dict(zip(params[len(params) - len(fn.args.defaults):], fn.args.defaults))
        given = {"G": SelfV(), "path": w.file, "delimiter": Const("|"), "encoding": Const("latin-1")}
        for p in params:
            if p in given:
                env[p] = given[p]
            elif p in defaults:
                env[p] = ip.eval(defaults[p], {})
            else:
                raise AnalysisError("%s: parameter %s not modelled" % (wname, p))
        n += 1
        wit = "%s with %d generated row(s) r0..r%d" % (wname, k, k - 1) if k else "%s on a graph without rows" % wname
        try:
            ip.call_function(fn, env)
        except AbstractRaise as r:
            rep.finding("S3.assembly", construct, "raises:%s" % r.exc, "%s raises %s (%s)" % (wname, r.exc, r.detail), witness=wit,
                        line=getattr(r.node, "lineno", 0))
            continue
        if w.gen_calls != 1:
            raise Unsupported(fn, "%s calls %s %d times" % (wname, gname, w.gen_calls))
        _judge(rep, construct, wname, w, k, wit)
    rep.ob("S3.assembly", construct, "file = the generated rows in order, one per line, in the requested encoding, for %d row counts %s" % (
        n, _show_counts(sorted(counts))))
    rep.stats["abstract_runs"] = rep.stats.get("abstract_runs", 0) + n
    return n


def _show_counts(cs):
    return "{" + ",".join(map(str, cs[:12])) + (",..." if len(cs) > 12 else "") + "}"


def _judge(rep, construct, wname, w, k, wit):
    flat = []
    encodes = sum(int(how.split(":")[1]) for parts, enc, line, how in w.file.writes if how.startswith("encode") and parts)
    streams = sum(1 for parts, enc, line, how in w.file.writes if how == "stream" and parts)
    if encodes > 1 or (encodes and streams):
        line = next(l for parts, enc, l, how in w.file.writes if how.startswith("encode") and parts)
        rep.finding("S3.assembly", construct, "rows-encoded-one-by-one",
                    "%s encodes the file in %d separate str.encode() calls: an encoding with a byte-order mark or a shift state (utf-16, utf-32, "
                    "utf-8-sig) repeats it in front of every piece, so the file is not text in the requested encoding (one encoder for the whole "
                    "stream - codecs.getwriter(encoding)(path) - writes it once)" % (wname, encodes), witness=wit, line=line)
        return
    for parts, enc, line, how in w.file.writes:
        if parts and not (isinstance(enc, Const) and enc.v == "latin-1"):
            rep.finding("S3.assembly", construct, "encoding", "rows are encoded with %s, not with the requested encoding" % (
                "the default" if enc is None else repr(getattr(enc, "v", enc))), witness=wit, line=line)
            return
        flat += parts
    # split into lines
    lines, cur = [], []
    for p in _norm(flat):
        if isinstance(p, str):
            segs = p.split("\n")
            for j, s in enumerate(segs):
                if j:
                    lines.append(cur)
                    cur = []
                if s:
                    cur.append(s)
        else:
            cur.append(p)
    if cur:
        lines.append(cur)
    seen = []
    for ln in lines:
        rows = [p for p in ln if isinstance(p, RowV)]
        extra = "".join(p for p in ln if isinstance(p, str))
        if len(rows) > 1:
            glued = next((a, b) for a, b in zip(rows, rows[1:]))
            rep.finding("S3.assembly", construct, "rows-glued", "the rows %r and %r end up on one line of the file (no newline between them)" % glued,
                        witness=wit)
            return
        if rows and extra.strip():
            rep.finding("S3.assembly", construct, "row-with-extra-text", "row %r shares its line with the text %r" % (rows[0], extra), witness=wit)
            return
        if not rows and extra.strip():
            rep.finding("S3.assembly", construct, "foreign-line", "the file holds a line %r that is not a generated row" % extra, witness=wit)
            return
        seen += [r.i for r in rows]
    want = list(range(k))
    if seen != want:
        missing = [i for i in want if i not in seen]
        dup = sorted({i for i in seen if seen.count(i) > 1})
        key = "rows-missing" if missing else ("rows-duplicated" if dup else "rows-out-of-order")
        what = ("row(s) %s never reach the file" % ["r%d" % i for i in missing[:4]]) if missing else (
            ("row(s) %s are written more than once" % ["r%d" % i for i in dup[:4]]) if dup else "the rows reach the file in the order %s" % (
                ["r%d" % i for i in seen[:8]],))
        rep.finding("S3.assembly", construct, key, "%s: %s" % (wname, what), witness=wit)


# =====================================================================================================================
# reader side: what the parser is handed must be the file decoded as ONE stream in the requested encoding and then split
# into lines.  Splitting the bytes at 0x0A first and decoding every chunk on its own is only right for encodings in which
# the newline is the single byte 0x0A and nothing else contains it (not utf-16 / utf-32 / EBCDIC code pages).
# =====================================================================================================================
READERS = {"snapshots": ("read_snapshots", "parse_snapshots"), "interactions": ("read_interactions", "parse_interactions")}
N_LINES = 3


class BinFile:
    """the opened binary file of the reader"""

    def __repr__(self):
        return "<binary file>"


class ByteChunk:
    """i-th chunk of the byte stream split at 0x0A"""

    def __init__(self, i):
        self.i = i

    def __repr__(self):
        return "bytes-up-to-0x0A#%d" % self.i


class AllBytes:
    def __repr__(self):
        return "<all bytes>"


class AllText:
    def __init__(self, enc):
        self.enc = enc

    def __repr__(self):
        return "<all text>"


class TextLine:
    """a line handed to the parser: `whole` = cut out of the decoded stream; else decoded after cutting the bytes"""
    hashable_value = True

    def __init__(self, i, enc, whole):
        self.i, self.enc, self.whole = i, enc, whole

    def __repr__(self):
        return "line#%d" % self.i


class TextStream:
    def __init__(self, enc):
        self.enc = enc

    def __repr__(self):
        return "<decoded stream>"


class FileReaderWorld(QueryWorld):
    def __init__(self, cls, shape, methods, functions, parser_name):
        super().__init__(cls, shape, {}, methods, functions)
        self.current_rel = EDGELIST
        self.parser_name = parser_name
        self.parser_calls = []
        self.ids_calls = []
        self.file = BinFile()

    def resolve_name(self, ip, name, node):
        if name in ("codecs", "io"):
            return Opaque("module:" + name)
        return super().resolve_name(ip, name, node)

    def load_attr(self, ip, obj, attr, node):
        if isinstance(obj, BinFile) and attr == "name":
            return Const("<path of the file>")
        if isinstance(obj, CodecInfoV):
            if attr in ("streamwriter", "streamreader"):
                return CodecFactory(attr[6:], obj.enc)
            raise Unsupported(node, "CodecInfo.%s" % attr)
        if isinstance(obj, (BinFile, ByteChunk, AllBytes, AllText, TextStream, TextLine)):
            return BoundMethod(obj, attr)
        return super().load_attr(ip, obj, attr, node)

    def _lines(self, enc, whole=True):
        return [TextLine(i, enc, whole) for i in range(N_LINES)]

    def concretise_iter(self, ip, it, node):
        if isinstance(it, BinFile):
            return ListObj([ByteChunk(i) for i in range(N_LINES)])
        if isinstance(it, TextStream):
            return ListObj(self._lines(it.enc))
        return super().concretise_iter(ip, it, node)

    def call_builtin(self, ip, name, args, kwargs, node):
        if name == "iter" and len(args) == 1 and isinstance(args[0], (BinFile, TextStream)):
            return IterV(self.concretise_iter(ip, args[0], node).items)
        return super().call_builtin(ip, name, args, kwargs, node)

    def call(self, ip, f, args, kwargs, node):
        if isinstance(f, FuncRef) and f.fn.name == self.parser_name:
            self.parser_calls.append((list(args), dict(kwargs)))
            return Opaque("graph")
        if isinstance(f, FuncRef) and f.fn.name == "read_ids":
            self.ids_calls.append((list(args), dict(kwargs)))
            return Opaque("ids")
        if isinstance(f, Opaque) and f.tag == "module:codecs.getreader" and len(args) == 1 and not kwargs:
            return CodecFactory("reader", args[0])
        if isinstance(f, Opaque) and f.tag == "module:codecs.lookup" and len(args) == 1 and not kwargs:
            return CodecInfoV(args[0])
        if isinstance(f, CodecFactory) and f.kind == "reader" and len(args) >= 1 and isinstance(args[0], BinFile):
            return TextStream(f.enc)
        if isinstance(f, Opaque) and f.tag == "module:io.TextIOWrapper" and len(args) >= 1 and isinstance(args[0], BinFile):
            enc = args[1] if len(args) > 1 else kwargs.get("encoding")
            if enc is None:
                raise Unsupported(node, "TextIOWrapper without explicit encoding")
            return TextStream(enc)
        if isinstance(f, Opaque) and f.tag == "module:codecs.iterdecode" and len(args) == 2 and isinstance(args[0], BinFile):
            raise Unsupported(node, "codecs.iterdecode yields decoded chunks, not lines")
        if isinstance(f, Opaque) and f.tag.startswith(("module:codecs.", "module:io.")):
            raise Unsupported(node, "call of %s" % f.tag[7:])
        return super().call(ip, f, args, kwargs, node)

    def call_method(self, ip, obj, name, args, kwargs, node):
        if isinstance(obj, ByteChunk) and name == "decode" and len(args) <= 1:
            enc = args[0] if args else kwargs.get("encoding", Const("utf-8"))
            return TextLine(obj.i, enc, False)
        if isinstance(obj, BinFile):
            if name == "read" and not args:
                return AllBytes()
            if name == "readlines" and not args:
                return ListObj([ByteChunk(i) for i in range(N_LINES)])
            if name in ("seek", "close", "flush"):
                raise Unsupported(node, "file method %s in a reader" % name)
        if isinstance(obj, AllBytes) and name == "decode" and len(args) <= 1:
            return AllText(args[0] if args else kwargs.get("encoding", Const("utf-8")))
        if isinstance(obj, AllBytes) and name in ("splitlines", "split"):
            return ListObj([ByteChunk(i) for i in range(N_LINES)])
        if isinstance(obj, AllText) and (name == "splitlines" or (name == "split" and len(args) == 1 and isinstance(args[0], Const) and args[0].v == "\n")):
            return ListObj(self._lines(obj.enc))
        if isinstance(obj, TextStream):
            if name == "readlines" and not args:
                return ListObj(self._lines(obj.enc))
            if name == "read" and not args:
                return AllText(obj.enc)
        if isinstance(obj, TextLine) and name in ("strip", "rstrip") and not args:
            return obj
        if isinstance(obj, (BinFile, ByteChunk, AllBytes, AllText, TextStream, TextLine)):
            raise Unsupported(node, "%s.%s in a reader" % (type(obj).__name__, name))
        return super().call_method(ip, obj, name, args, kwargs, node)


def check_reader_file(repo: Repo, rep: Report, fmt_name):
    rname, pname = READERS[fmt_name]
    functions = repo.functions(EDGELIST)
    for nm in (rname, pname, "read_ids"):
        if nm not in functions:
            raise AnalysisError("anchor vanished: %s" % nm)
    fn = functions[rname]
    construct = repo.construct(EDGELIST, rname)
    params = [a.arg for a in fn.args.args]
    for need in ("path", "encoding", "keys"):
        if need not in params:
            raise AnalysisError("%s: unexpected signature %s" % (rname, params))
    cls = "DynGraph"
    methods = repo.class_methods(CLASSES[cls], cls)
    shape = SHAPES[False][0]
    ot = OrderType([["t"]], [], 8)
    n = 0
    for keys in (False, True):
        w = FileReaderWorld(cls, shape, methods, functions, pname)
        ip = Interp(w, ot, max_depth=8)
        env = {}
        defaults = dict(zip(params[len(params) - len(fn.args.defaults):], fn.args.defaults))
        given = {"path": w.file, "encoding": Const("latin-1"), "keys": Const(keys)}
        for p in params:
            if p in given:
                env[p] = given[p]
            elif p in defaults:
                env[p] = ip.eval(defaults[p], {})
            else:
                raise AnalysisError("%s: parameter %s not modelled" % (rname, p))
        n += 1
        wit = "%s(path, encoding='latin-1', keys=%s) on a file of %d lines" % (rname, keys, N_LINES)
        try:
            ip.call_function(fn, env)
        except AbstractRaise as r:
            rep.finding("S3.decoding", construct, "raises:%s" % r.exc, "%s raises %s (%s)" % (rname, r.exc, r.detail), witness=wit,
                        line=getattr(r.node, "lineno", 0))
            continue
        if len(w.parser_calls) != 1:
            raise Unsupported(fn, "%s calls %s %d times" % (rname, pname, len(w.parser_calls)))
        args, kwargs = w.parser_calls[0]
        lines = args[0] if args else kwargs.get("lines")
        seq = ip._seq(lines, fn) if lines is not None else None
        if seq is None:
            raise Unsupported(fn, "%s hands %r to %s" % (rname, lines, pname))
        if not all(isinstance(x, TextLine) for x in seq):
            bad = next(x for x in seq if not isinstance(x, TextLine))
            rep.finding("S3.decoding", construct, "undecoded-lines", "%s hands %r to %s instead of decoded text lines" % (rname, bad, pname), witness=wit)
            continue
        if [x.i for x in seq] != list(range(N_LINES)):
            rep.finding("S3.decoding", construct, "lines-lost-or-reordered", "%s hands the lines %s of the file to %s" % (
                rname, [x.i for x in seq], pname), witness=wit)
            continue
        if any(not (isinstance(x.enc, Const) and x.enc.v == "latin-1") for x in seq):
            rep.finding("S3.decoding", construct, "encoding", "%s decodes with %r, not with the requested encoding" % (
                rname, getattr(seq[0].enc, "v", seq[0].enc)), witness=wit)
            continue
        if any(not x.whole for x in seq):
            rep.finding("S3.decoding", construct, "split-before-decode",
                        "%s cuts the byte stream at 0x0A and decodes every chunk on its own: for an encoding in which a newline is not the single "
                        "byte 0x0A or other characters contain that byte (utf-16, utf-32, EBCDIC code pages) the chunks are not decodable - "
                        "reading back what the writer wrote in the same encoding raises UnicodeDecodeError (decode the stream, then split: "
                        "codecs.getreader(encoding)(path))" % rname, witness=wit)
    rep.ob("S3.decoding", construct, "the parser receives the file decoded as one stream in the requested encoding, line by line (keys off / on)")
    rep.stats["abstract_runs"] = rep.stats.get("abstract_runs", 0) + n
    return n
