"""node_link_graph interpreted on symbolic node-link data (C11 reader side)."""
from __future__ import annotations
import ast
from .core import Repo, Report, NODELINK, CLASSES, AnalysisError
from .ordertype import OrderType
from .absint import (Interp, Int, Const, NONE, TRUE, FALSE, NodeV, SelfV, TupleV, ListObj, DictObj, AbstractRaise,
                     Unsupported, Opaque, BoundMethod, Builtin, IterV, run_all_choices)
from .ctor_check import CtorWorld, CtorInterp, NewGraph, ClassRef


class JsonWorld(CtorWorld):
    def resolve_name(self, ip, name, node):
        if name == "dn":
            return Opaque("module:dynetx")
        if name == "count":
            return Builtin("count")
        if name == "_attrs":
            return DictObj({Const("id"): Const("id"), Const("source"): Const("source"), Const("target"): Const("target")})
        return super().resolve_name(ip, name, node)

    def load_attr(self, ip, obj, attr, node):
        if isinstance(obj, Opaque) and obj.tag == "module:dynetx" and attr in CLASSES:
            return ClassRef(attr)
        return super().load_attr(ip, obj, attr, node)

    def call_builtin(self, ip, name, args, kwargs, node):
        if name == "count" and not args:
            return IterV([Const(i) for i in range(16)])
        return super().call_builtin(ip, name, args, kwargs, node)

    def call_method(self, ip, obj, name, args, kwargs, node):
        if isinstance(obj, NewGraph) and name == "add_node":
            obj.other.append(("add_node", list(args), dict(kwargs)))
            return NONE
        return super().call_method(ip, obj, name, args, kwargs, node)


def check_node_link_graph(repo: Repo, rep: Report):
    """Two links one instant apart; when the reader compares a time with a literal (or tests it for truth) everything is
    repeated for every position of 0 relative to the two instants."""
    from .absint import NeedZero
    from .ordertype import enumerate_order_types
    scratch = Report(rep.prop)
    try:
        n = _check_node_link_graph(repo, scratch, [OrderType([["q1"], ["q2"]], [1], 2)])
    except NeedZero:
        scratch = Report(rep.prop)
        ots = list(enumerate_order_types(["q1", "q2", "0"], [("q1", 1, "<=", "q2", 0), ("q2", 0, "<=", "q1", 1)], 2))
        n = _check_node_link_graph(repo, scratch, ots)
    rep.absorb(scratch)
    return n


def _check_node_link_graph(repo: Repo, rep: Report, ots):
    n = 0
    for ot in ots:
        n += _check_node_link_graph_ot(repo, rep, ot, len(ots) > 1)
    return n


def _check_node_link_graph_ot(repo: Repo, rep: Report, ot, with_zero):
    fn = repo.get(NODELINK, "node_link_graph")
    construct = repo.construct(NODELINK, "node_link_graph")
    params = [a.arg for a in fn.args.args]
    if params != ["data", "directed", "attrs"]:
        raise AnalysisError("%s: unexpected signature %s" % (construct, params))
    all_methods = {c: repo.class_methods(rel, c) for c, rel in CLASSES.items()}
    n = 0
    for idkey in ("id", "name"):
      for data_directed in ((None, True, False) if idkey == "id" else (None,)):
        for arg_directed in ((True, False) if idkey == "id" else (False,)):
            n += 1
            want_cls = "DynDiGraph" if (data_directed if data_directed is not None else arg_directed) else "DynGraph"

            def once(ch):
                cfg = dict(cls="DynGraph", directed=False, removal=True, exists=False)
                w = JsonWorld(cfg, ot, ch, all_methods["DynGraph"], all_methods)
                ip = CtorInterp(w, ot)
                nodes = ListObj([
                    DictObj({Const(idkey): NodeV("N1"), Const("color"): Opaque("attr-value"), Const("source"): Opaque("attr-value"),
                             Const("time"): Opaque("attr-value")}),          # attributes that merely share a name with a link key
                    DictObj({Const(idkey): NodeV("N2")}),
                    DictObj({Const("size"): Opaque("attr-value")}),          # no id: positional default
                ])
                links = ListObj([
                    DictObj({Const("source"): NodeV("N1"), Const("target"): NodeV("N2"), Const("time"): Int("q1")}),
                    DictObj({Const("source"): NodeV("N2"), Const("target"): NodeV("N1"), Const("time"): Int("q2")}),
                ])
                data = DictObj({Const("graph"): Opaque("graph-attrs"), Const("nodes"): nodes, Const("links"): links})
                if data_directed is not None:
                    data.entries[Const("directed")] = Const(data_directed)
                attrs = DictObj({Const("id"): Const(idkey), Const("source"): Const("source"), Const("target"): Const("target")})
                try:
                    return w, ip.call_function(fn, {"data": data, "directed": Const(arg_directed), "attrs": attrs}), None
                except AbstractRaise as r:
                    return w, None, r
            wit = "data['directed'] %s, argument directed=%s, attrs['id']=%r%s" % (
                "absent" if data_directed is None else data_directed, arg_directed, idkey,
                (" | link times: %s" % ot.describe()) if with_zero else "")
            for ch, (w, val, r) in run_all_choices(once, max_runs=64):
                chs = ", ".join("%s=%s" % ("/".join(map(str, k)) if isinstance(k, tuple) else k, v) for k, v in ch.items())
                wit2 = wit + ((" | " + chs) if chs else "")
                ok = True
                if r is not None:
                    rep.finding("O.node_link_graph/C11.reader", construct, "raises:%s" % r.exc,
                                "node_link_graph raises %s (%s)" % (r.exc, r.detail), line=getattr(r.node, "lineno", 0), witness=wit2)
                    continue
                if not isinstance(val, NewGraph):
                    rep.finding("O.node_link_graph/C11.reader", construct, "not-a-graph", "returns %r" % (val,), witness=wit2)
                    continue
                if val.cls != want_cls:
                    ok = False
                    rep.finding("O.node_link_graph/C11.reader", construct,
                                "class:%s" % ("data-says" if data_directed is not None else "argument"),
                                "builds a %s although %s" % (val.cls, "the data records directed=%s (the argument is only a "
                                "fallback)" % data_directed if data_directed is not None else "the data is silent and directed=%s was requested" % arg_directed),
                                witness=wit2)
                adds = [o for o in val.other if o[0] == "add_node"]
                want_nodes = [(NodeV("N1"), {"color", "source", "time"}), (NodeV("N2"), set()), (Const(2), {"size"})]   # an entry without id is named by its position
                got_nodes = [(a[1][0] if a[1] else None, set(a[2])) for a in adds]
                if got_nodes != want_nodes:
                    ok = False
                    rep.finding("O.node_link_graph/C11.reader", construct, "nodes",
                                "nodes are added as %s; expected every entry under its id (positional default when absent) with the "
                                "remaining attributes: %s" % (got_nodes, want_nodes), witness=wit2)
                calls = [(c[0], c[1], c[2], c[3]) for c in val.calls]
                want_calls = [(NodeV("N1"), NodeV("N2"), ("q1", 0)), (NodeV("N2"), NodeV("N1"), ("q2", 0))]
                got_calls = [(u, v, t.term() if isinstance(t, Int) else t) for (u, v, t, e) in calls]
                if got_calls != want_calls or any(not (isinstance(e, Const) and e.v is None) for (_, _, _, e) in calls):
                    ok = False
                    rep.finding("O.node_link_graph/C11.reader", construct, "links",
                                "links are replayed as %s, expected one add_interaction(source, target, time) per link in order" % (calls,),
                                witness=wit2)
                g = val.attr_stores.get("graph")
                if not (isinstance(g, Opaque) and g.tag == "graph-attrs"):
                    ok = False
                    rep.finding("O.node_link_graph/C11.reader", construct, "graph-attrs",
                                "graph attributes of the result are %r, expected data['graph']" % (g,), witness=wit2)
                rep.ob("O.node_link_graph", construct, "reader decided for %s" % wit2, ok=ok)
    rep.sample(dict(engine="O", function=construct, cases=n, data="3 node entries (one without id), 2 links, directed flag absent/True/False"))
    return n
