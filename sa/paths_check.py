"""algorithms/paths.py: annotate_paths (C14), temporal_dag window (C15/C12), hop discipline (C12).

annotate_paths is interpreted abstractly on three (and, when a value is tested for
truth, two) *generic paths* P1..P3 whose hop count L_i, duration D_i and arrival time
R_i are symbols; every weak ordering of the three L's, of the three D's and of the
three R's is enumerated independently (13^3 order types), and - because the result
must not depend on the order in which the paths are listed - every permutation of the
input list.  The five answers must be exactly the argmin sets.
"""
from __future__ import annotations
import ast
import itertools
from .core import Repo, Report, PATHS, AnalysisError, src, walk_no_nested, const_value
from .ordertype import OrderType, enumerate_order_types, Undetermined
from .absint import (NeedZero, Interp, Int, Const, NONE, NodeV, TupleV, ListObj, DictObj, SetObj, IterV, AbstractRaise,
                     Unsupported, Opaque, BoundMethod, Builtin, run_all_choices, Fork)
from .world_graph import bind_args


class PathV(NodeV):
    """A generic path (hashable, so tuple(path) may key a dict)."""

    def __init__(self, i):
        super().__init__("P%d" % i)
        self.i = i

    def __repr__(self):
        return "P%d" % self.i


class HopV:
    def __init__(self, path, pos):
        self.path, self.pos = path, pos


class MultiOT:
    """Product of independent order types, one per symbol family (first letter)."""

    def __init__(self, parts, R=1):
        self.parts = parts
        self.R = R

    def _of(self, sym):
        return self.parts[sym[0]]

    def has(self, sym):
        fam = self.parts.get(sym[0]) if sym != "0" else None
        if sym == "0":
            return all(p.has("0") for p in self.parts.values())
        return fam is not None and fam.has(sym)

    def cmp_terms(self, tx, ty, op):
        (x, kx), (y, ky) = tx, ty
        fx = x[0] if x != "0" else (y[0] if y != "0" else None)
        fy = y[0] if y != "0" else fx
        if fx is None or fx != fy:
            raise Unsupported(None, "comparison across quantities (%s vs %s)" % (x, y))
        return self.parts[fx].cmp_terms(tx, ty, op)

    def describe(self):
        return " ; ".join(p.describe() for p in self.parts.values())


class PathWorld:
    def __init__(self, functions, choices):
        self.functions = functions
        self.choices = choices
        self.effects = []
        self.wants_yields = False

    def choose(self, key):
        if key not in self.choices:
            raise Fork(key)
        return self.choices[key]

    def effect(self, eff, node=None):
        self.effects.append((eff, getattr(node, "lineno", 0)))

    def cmp_special(self, a, b, op):
        return None

    def nodes_equal(self, a, b):
        return False

    def on_handler(self, ip, r, handler):
        pass

    def generic_elements(self, ip, it, node):
        return None

    def eval_fstring(self, ip, parts, node):
        return None

    def truth_of(self, ip, v):
        return None

    def type_of(self, ip, v):
        return None

    def resolve_name(self, ip, name, node):
        if name in self.functions:
            return FuncRefP(name)
        if name == "copy":
            return Opaque("module:copy")
        if name in ("defaultdict",):
            return Builtin(name)
        return None

    def concretise_iter(self, ip, it, node):
        return None

    def load_attr(self, ip, obj, attr, node):
        if isinstance(obj, Opaque):
            return Opaque(obj.tag + "." + attr)
        raise Unsupported(node, "attribute %s of %r" % (attr, obj))

    def store_attr(self, ip, obj, attr, v, node):
        raise Unsupported(node, "attribute store")

    def contains(self, ip, container, x, node):
        raise Unsupported(node, "membership in %r" % (container,))

    def load_subscript(self, ip, obj, key, node):
        if isinstance(obj, PathV) and isinstance(key, Const) and key.v in (0, -1):
            return HopV(obj, key.v)
        if isinstance(obj, HopV) and isinstance(key, Const) and key.v in (2, -1):
            return Int(("R%d" if obj.pos == -1 else "S%d") % obj.path.i)
        raise Unsupported(node, "subscript %r[%r]" % (obj, key))

    def load_list_item(self, ip, obj, key, node):
        return None

    def list_len(self, ip, obj, node):
        return None

    def load_slice(self, ip, obj, sl, env, node):
        raise Unsupported(node, "slice")

    def store_subscript(self, ip, obj, key, v, node, aug=None):
        raise Unsupported(node, "store %r[%r]" % (obj, key))

    def delete_subscript(self, ip, obj, key, node):
        raise Unsupported(node, "del")

    def summarise_range_loop(self, ip, st, rng, env):
        raise Unsupported(st, "range loop")

    def exec_special_for(self, ip, st, it, env):
        raise Unsupported(st, "iteration over %r" % (it,))

    def eval_comprehension(self, ip, e, env):
        raise Unsupported(e, "comprehension")

    def binop(self, ip, a, op, b, node):
        if isinstance(op, ast.Sub) and isinstance(a, Int) and isinstance(b, Int) and a.base.startswith("R") and b.base.startswith("S") \
                and a.base[1:] == b.base[1:] and a.k == 0 and b.k == 0:
            return Int("D" + a.base[1:])        # last time - first time of the same path = its duration
        return None

    def compare(self, ip, a, sym, b, node):
        if isinstance(a, HopV) and isinstance(b, HopV):
            # hops are (source, destination, time) tuples: tuple comparison looks at the node labels first, and nothing is
            # known about how the labels of generic paths compare - every outcome is explored
            c = self._hop_cmp(ip, a, b, node)
            return {"<": c < 0, "<=": c <= 0, ">": c > 0, ">=": c >= 0, "==": c == 0, "!=": c != 0}[sym]
        return None

    def _hop_cmp(self, ip, a, b, node):
        ka, kb = (a.path.i, a.pos), (b.path.i, b.pos)
        if ka == kb:
            return 0
        flip = ka > kb
        if flip:
            a, b, ka, kb = b, a, kb, ka
        c = 0
        for field in ("source", "destination"):
            if self.choose(("hop-labels-equal", ka, kb, field)):
                continue
            c = -1 if self.choose(("hop-label-less", ka, kb, field)) else 1
            break
        if c == 0:
            ta = Int(("R%d" if a.pos == -1 else "S%d") % a.path.i)
            tb = Int(("R%d" if b.pos == -1 else "S%d") % b.path.i)
            c = 0 if ip.cmp_int(ta, tb, "==", node) else (-1 if ip.cmp_int(ta, tb, "<", node) else 1)
        return -c if flip else c

    def call_minmax(self, ip, name, args, node):
        return None

    def on_yield(self, ip, v, node):
        raise Unsupported(node, "yield")

    def call_builtin(self, ip, name, args, kwargs, node):
        if name in ("tuple", "list") and len(args) == 1 and isinstance(args[0], PathV):
            return args[0]
        if name == "len" and len(args) == 1 and isinstance(args[0], PathV):
            return Int("L%d" % args[0].i)
        if name in ("min", "max") and len(args) == 1:
            seq = args[0].drain() if isinstance(args[0], IterV) else (list(args[0].items) if isinstance(args[0], (ListObj, SetObj)) else None)
            if seq is not None and seq and all(isinstance(x, Int) for x in seq):
                best = seq[0]
                for x in seq[1:]:
                    if ip.cmp_int(x, best, "<" if name == "min" else ">", node):
                        best = x
                return best
            if seq is not None and not seq:
                raise AbstractRaise("ValueError", node, detail="%s() of an empty sequence" % name)
        return None

    def call(self, ip, f, args, kwargs, node):
        if isinstance(f, FuncRefP):
            # the two measures are interpreted on their own below; inside annotate_paths they are symbols
            if f.name == "path_length" and len(args) == 1 and isinstance(args[0], PathV):
                return Int("L%d" % args[0].i)
            if f.name == "path_duration" and len(args) == 1 and isinstance(args[0], PathV):
                return Int("D%d" % args[0].i)
            fn = self.functions[f.name]
            env = bind_args(fn, list(args), kwargs, ip, node)
            ip.depth += 1
            try:
                return ip.call_function(fn, env)
            finally:
                ip.depth -= 1
        if isinstance(f, Opaque) and f.tag in ("module:copy.copy", "module:copy.deepcopy") and len(args) == 1:
            return args[0]
        if isinstance(f, BoundMethod):
            return self.call_method(ip, f.obj, f.name, args, kwargs, node)
        raise Unsupported(node, "call of %r" % (f,))

    def call_method(self, ip, obj, name, args, kwargs, node):
        raise Unsupported(node, "method %s of %r" % (name, obj))


class FuncRefP:
    def __init__(self, name):
        self.name = name


def _weak_orders(symbols, zero=False, lower=None):
    """Order types at resolution 1 (pure orderings) of the symbols (+ the literal 0, bounded below by it)."""
    syms = list(symbols) + (["0"] if zero else [])
    cons = []
    if zero and lower is not None:
        for s in symbols:
            cons.append(("0", lower, "<=", s, 0))
    out = []
    # resolution 2 is needed to express 0+1 <= L (lengths are at least 1); orderings only otherwise
    R = 2 if (zero and lower) else 1
    for ot in enumerate_order_types(syms, cons, R):
        out.append(ot)
    return out


def check_annotate_paths(repo: Repo, rep: Report, tier="quick"):
    functions = repo.functions(PATHS)
    fn = repo.get(PATHS, "annotate_paths")
    construct = repo.construct(PATHS, "annotate_paths")
    if [a.arg for a in fn.args.args] != ["paths"]:
        raise AnalysisError("annotate_paths: unexpected signature")
    findings = {}
    stats = dict(order_types=0, runs=0)

    def add(key, msg, wit):
        if key not in findings:
            findings[key] = dict(key=key, message=msg, witness=wit, count=0)
        findings[key]["count"] += 1

    def run_config(n, zero):
        idx = list(range(1, n + 1))
        fams = {"L": _weak_orders(["L%d" % i for i in idx], zero, lower=1 if zero else None),
                "D": _weak_orders(["D%d" % i for i in idx], zero, lower=0 if zero else None),
                "R": _weak_orders(["R%d" % i for i in idx], zero, lower=None)}
        perms = list(itertools.permutations(idx)) if n <= 3 else [tuple(idx)]
        for ol, od, orr in itertools.product(fams["L"], fams["D"], fams["R"]):
            mot = MultiOT({"L": ol, "D": od, "R": orr}, R=ol.R)
            stats["order_types"] += 1
            for perm in perms:
                def once(ch):
                    w = PathWorld(functions, ch)
                    ip = Interp(w, mot, max_depth=4)
                    paths = ListObj([PathV(i) for i in perm])
                    try:
                        return ip.call_function(fn, {"paths": paths}), None
                    except AbstractRaise as r:
                        return None, r
                if findings and stats["runs"] > 8000:
                    # the verdict is established (violations found); data-dependent choices would multiply the runs without
                    # changing it
                    stats["truncated"] = True
                    return
                for ch, (val, r) in run_all_choices(once, max_runs=64):
                    stats["runs"] += 1
                    wit = "paths listed as %s | %s" % (list("P%d" % i for i in perm), mot.describe())
                    if r is not None:
                        add("raises:%s" % r.exc, "annotate_paths raises %s (%s)" % (r.exc, r.detail), wit)
                        continue
                    judge(val, mot, idx, wit)

    def argmin(mot, cand, fam):
        return [i for i in cand if all(mot.cmp_terms(("%s%d" % (fam, i), 0), ("%s%d" % (fam, j), 0), "<=") for j in cand)]

    def judge(val, mot, idx, wit):
        if isinstance(val, Opaque):
            raise Unsupported(None, "annotate_paths returns a value the interpretation does not know: %r" % (val,))
        if not isinstance(val, DictObj):
            add("not-a-dict", "annotate_paths returns %r" % (val,), wit)
            return
        shortest = argmin(mot, idx, "L")
        fastest = argmin(mot, idx, "D")
        want = {"shortest": shortest, "fastest": fastest, "foremost": argmin(mot, idx, "R"),
                "fastest_shortest": argmin(mot, shortest, "D"), "shortest_fastest": argmin(mot, fastest, "L")}
        for k, w_ in want.items():
            got = val.entries.get(Const(k))
            if not isinstance(got, ListObj) or not all(isinstance(x, PathV) for x in got.items):
                add("%s:shape" % k, "annotated[%r] is %r, expected a list of input paths" % (k, got), wit)
                continue
            g = sorted(x.i for x in got.items)
            if g != sorted(w_):
                kind = "missing-tie" if set(g) < set(w_) else ("non-optimal" if set(g) - set(w_) else "duplicates")
                add("%s:%s" % (k, kind), "annotated[%r] = %s, the optimal paths for this criterion are %s" % (
                    k, ["P%d" % i for i in g], ["P%d" % i for i in sorted(w_)]), wit)
    try:
        run_config(3, zero=False)
        zero_used = False
    except NeedZero:
        findings.clear()
        stats.update(order_types=0, runs=0)
        run_config(2, zero=True)
        zero_used = True
    for k, f in sorted(findings.items()):
        rep.finding("O.annotate_paths", construct, k, f["message"] + " [%d abstract runs]" % f["count"], witness=f["witness"], line=fn.lineno)
    rep.ob("O.annotate_paths", construct, "five criteria = argmin sets on %d order types x input permutations" % stats["order_types"],
           ok=not findings)
    rep.stats["abstract_runs"] = rep.stats.get("abstract_runs", 0) + stats["runs"]
    rep.stats["order_types"] = rep.stats.get("order_types", 0) + stats["order_types"]
    rep.stats["zero_symbol"] = zero_used
    rep.stats["exhaustive"] = True
    rep.sample(dict(engine="O", function=construct, generic_paths=2 if zero_used else 3, order_types=stats["order_types"], runs=stats["runs"]))
    # path_length / path_duration themselves: interpreted on concrete hop sequences (list and tuple form, one to three hops,
    # one of them a self-loop hop, first hop not at the earliest possible instant)
    ot1 = OrderType([["t"]], [], 12)
    hop = lambda a, b, k: TupleV([NodeV(a), NodeV(b), Int("t", k)])
    shapes = [("one hop", [("A", "B", 1)]), ("two hops", [("A", "B", 1), ("B", "C", 4)]),
              ("three hops, one of them a self-loop", [("A", "B", 1), ("B", "B", 2), ("B", "C", 3)]),
              ("three hops, returning to the source", [("A", "B", 2), ("B", "A", 3), ("A", "C", 7)])]
    for fname in ("path_length", "path_duration"):
        f = repo.get(PATHS, fname)
        c = repo.construct(PATHS, fname)
        bad = None
        for label, hops in shapes:
            for form in (ListObj, TupleV):
                want = len(hops) if fname == "path_length" else hops[-1][2] - hops[0][2]
                w = PathWorld({k: v for k, v in functions.items()}, {})
                ip = Interp(w, ot1, max_depth=4)
                wit = "%s as a %s: %s" % (label, "list" if form is ListObj else "tuple", ["(%s,%s,t%+d)" % h for h in hops])
                try:
                    v = ip.call_function(f, {f.args.args[0].arg: form([hop(*h) for h in hops])})
                    got = v.v if isinstance(v, Const) else repr(v)
                except AbstractRaise as r:
                    got = "raises %s" % r.exc
                if got != want or isinstance(got, bool):
                    bad = bad or (got, want, wit)
        rep.ob("O.%s" % fname, c, "returns %s of %d concrete hop sequences" % (
            "the hop count" if fname == "path_length" else "last time - first time", 2 * len(shapes)), ok=bad is None)
        if bad:
            rep.finding("O.%s" % fname, c, "wrong-measure", "%s evaluates to %s, expected %s (%s)" % (
                fname, bad[0], bad[1], "its hop count" if fname == "path_length" else "time of its last hop - time of its first hop"),
                witness=bad[2], line=f.lineno)
    return stats["order_types"]


# ---------------------------------------------------------------------------------------
# temporal_dag: defaults, window validation and the id window (C15, C12 window clause)
# ---------------------------------------------------------------------------------------
class IdsV:
    """The snapshot ids: sorted (temporal_snapshots_ids) or in dict order; possibly filtered to a window."""

    def __init__(self, sorted_, included=None, note="all ids"):
        self.sorted, self.included, self.note = sorted_, included, note

    def __repr__(self):
        return "ids(%s%s)" % ("sorted" if self.sorted else "dict order", "" if self.included is None else ", window:%s" % self.included)


class IdxV:
    """A position in the sorted id list: number of ids (< x) ['bl'] or (<= x) ['br'], plus a constant."""

    def __init__(self, kind, x, c=0):
        self.kind, self.x, self.c = kind, x, c

    def __repr__(self):
        return "bisect_%s(ids, %r)%+d" % ("left" if self.kind == "bl" else "right", self.x, self.c)


class StopPrefix(Exception):
    def __init__(self, ids, tid_target):
        self.ids, self.tid_target = ids, tid_target


class DagWorld(PathWorld):
    def __init__(self, functions, choices, ot):
        super().__init__(functions, choices)
        self.ot = ot

    def resolve_name(self, ip, name, node):
        if name == "nx":
            return Opaque("module:nx")
        if name in ("bisect", "bisect_left", "bisect_right"):
            return Builtin(name) if name != "bisect" else Opaque("module:bisect")
        return super().resolve_name(ip, name, node)

    def load_attr(self, ip, obj, attr, node):
        if isinstance(obj, FlagListV):
            return BoundMethod(obj, attr)
        if isinstance(obj, GraphV):
            if attr == "snapshots":
                return IdsV(False, note="G.snapshots")
            return BoundMethod(obj, attr)
        if isinstance(obj, Opaque) and obj.tag == "module:bisect" and attr in ("bisect_left", "bisect_right", "bisect"):
            return Builtin("bisect_right" if attr == "bisect" else attr)
        return super().load_attr(ip, obj, attr, node)

    def call_method(self, ip, obj, name, args, kwargs, node):
        if isinstance(obj, FlagListV) and name == "index" and len(args) == 1 and isinstance(args[0], Const) and args[0].v is True:
            # position of the first id >= x (resp. > x); ValueError when there is none is not modelled
            return IdxV(obj.kind, obj.x)
        if isinstance(obj, GraphV) and name == "temporal_snapshots_ids" and not args:
            return IdsV(True)
        if isinstance(obj, IdsV) and name == "keys":
            return obj
        if isinstance(obj, GraphV):
            return Opaque("G.%s()" % name)
        return super().call_method(ip, obj, name, args, kwargs, node)

    def call(self, ip, f, args, kwargs, node):
        if isinstance(f, Opaque):
            return Opaque(f.tag + "()")
        return super().call(ip, f, args, kwargs, node)

    def call_builtin(self, ip, name, args, kwargs, node):
        if name == "len" and len(args) == 1 and isinstance(args[0], IdsV):
            return LenIds()
        if name in ("list", "tuple") and len(args) == 1 and isinstance(args[0], FlagListV):
            return args[0]
        if name in ("list", "sorted", "tuple") and len(args) == 1 and isinstance(args[0], IdsV):
            if name == "sorted":
                rev = kwargs.get("reverse")
                return IdsV(not (rev is not None and ip.truth(rev, node)), args[0].included, args[0].note)
            return args[0]
        if name in ("min", "max") and len(args) == 1 and isinstance(args[0], IdsV) and args[0].included is None:
            return Int("lo" if name == "min" else "hi")
        if name in ("bisect_left", "bisect_right") and len(args) == 2 and isinstance(args[0], IdsV) and isinstance(args[1], Int):
            if not args[0].sorted:
                raise Unsupported(node, "bisect on an unsorted id list")
            return IdxV("bl" if name == "bisect_left" else "br", args[1])
        if name == "type":
            return Opaque("type")
        return super().call_builtin(ip, name, args, kwargs, node)

    def call_minmax(self, ip, name, args, node):
        if len(args) == 1 and isinstance(args[0], IdsV) and args[0].included is None:
            return Int("lo" if name == "min" else "hi")
        return None

    def compare(self, ip, a, sym, b, node):
        if isinstance(a, LenIds) and isinstance(b, Const) and b.v == 0:
            empty = self.choose("no-snapshots")
            return {"==": empty, "!=": not empty, ">": not empty, "<=": empty, "<": False, ">=": True}[sym]
        return None

    def binop(self, ip, a, op, b, node):
        if isinstance(a, IdxV) and isinstance(b, Const) and isinstance(b.v, int) and isinstance(op, (ast.Add, ast.Sub)):
            return IdxV(a.kind, a.x, a.c + (b.v if isinstance(op, ast.Add) else -b.v))
        return super().binop(ip, a, op, b, node)

    def load_subscript(self, ip, obj, key, node):
        if isinstance(obj, IdsV) and isinstance(key, Const) and key.v in (0, -1) and obj.included is None:
            if self.choose("no-snapshots") if False else False:
                pass
            if not obj.sorted:
                return Int("i")         # an arbitrary id
            return Int("lo" if key.v == 0 else "hi")
        if isinstance(obj, Opaque):
            return Opaque(obj.tag + "[..]")
        return super().load_subscript(ip, obj, key, node)

    def _rank_ge(self, ip, idx, node):
        """Is rank(i) >= idx ?  (rank = number of ids smaller than the generic id i)"""
        i = Int("i")
        x, c = idx.x, idx.c
        if idx.kind == "bl":
            if c == 0:
                return ip.cmp_int(i, x, ">=", node)
            if c == 1:      # rank > bl(x): i >= x and some id lies in [x, i)
                if not ip.cmp_int(i, x, ">", node):
                    return False
                return self.choose("an id lies in [%r, i)" % (x,))
        else:
            if c == 0:
                return ip.cmp_int(i, x, ">", node)
            if c == 1:
                if not ip.cmp_int(i, x, ">", node):
                    return False
                return self.choose("an id lies in (%r, i)" % (x,))
        raise Unsupported(node, "index arithmetic %r" % (idx,))

    def load_slice(self, ip, obj, sl, env, node):
        if isinstance(obj, IdsV) and obj.sorted and obj.included is None and sl.step is None:
            lo = ip.eval(sl.lower, env) if sl.lower is not None else None
            hi = ip.eval(sl.upper, env) if sl.upper is not None else None
            inc = True
            for bound, which in ((lo, "start"), (hi, "stop")):
                if isinstance(bound, Int):
                    # a snapshot id where a list position is expected
                    self.kind_confusions = getattr(self, "kind_confusions", []) + [(which, repr(bound), getattr(node, "lineno", 0))]
            if isinstance(lo, Int) or isinstance(hi, Int):
                return IdsV(True, included=self.choose("time-used-as-position"), note="slice by a time value")
            if lo is not None:
                if not isinstance(lo, IdxV):
                    raise Unsupported(node, "slice start %r" % (lo,))
                inc = inc and self._rank_ge(ip, lo, node)
            if hi is not None:
                if not isinstance(hi, IdxV):
                    raise Unsupported(node, "slice stop %r" % (hi,))
                inc = inc and not self._rank_ge(ip, hi, node)
            return IdsV(True, included=inc, note="slice")
        raise Unsupported(node, "slice of %r" % (obj,))

    def eval_comprehension(self, ip, e, env):
        if isinstance(e, (ast.ListComp, ast.GeneratorExp)) and len(e.generators) == 1:
            g = e.generators[0]
            it = ip.eval(g.iter, env)
            # [i >= x for i in ids] : a list of flags, used with .index(True) to find a position
            if isinstance(it, IdsV) and it.sorted and it.included is None and not g.ifs and isinstance(g.target, ast.Name) \
                    and isinstance(e.elt, ast.Compare) and len(e.elt.ops) == 1 and isinstance(e.elt.left, ast.Name) \
                    and e.elt.left.id == g.target.id and isinstance(e.elt.ops[0], (ast.GtE, ast.Gt)):
                x = ip.eval(e.elt.comparators[0], env)
                if isinstance(x, Int):
                    return FlagListV("bl" if isinstance(e.elt.ops[0], ast.GtE) else "br", x)
            if isinstance(it, IdsV) and isinstance(g.target, ast.Name) and isinstance(e.elt, ast.Name) and e.elt.id == g.target.id:
                env2 = dict(env)
                env2[g.target.id] = Int("i")
                inc = all(ip.truth(ip.eval(c, env2), c) for c in g.ifs)
                prev = True if it.included is None else it.included
                return IdsV(it.sorted, included=bool(inc and prev), note="filter")
        raise Unsupported(e, "comprehension")

    def concretise_iter(self, ip, it, node):
        if isinstance(it, IdsV) and isinstance(node, ast.For):
            raise StopPrefix(it, node)
        return None

    def exec_special_for(self, ip, st, it, env):
        if isinstance(it, IdsV):
            raise StopPrefix(it, st)
        raise Unsupported(st, "iteration over %r" % (it,))


class FlagListV:
    """[i >= x for i in ids] (kind 'bl') / [i > x for i in ids] (kind 'br')."""

    def __init__(self, kind, x):
        self.kind, self.x = kind, x


class GraphV:
    def __repr__(self):
        return "G"


class LenIds:
    pass


def check_temporal_dag_window(repo: Repo, rep: Report):
    functions = repo.functions(PATHS)
    fn = repo.get(PATHS, "temporal_dag")
    construct = repo.construct(PATHS, "temporal_dag")
    params = [a.arg for a in fn.args.args]
    if params != ["G", "u", "v", "start", "end"]:
        raise AnalysisError("temporal_dag: unexpected signature %s" % params)
    findings = {}
    n_ot = n_runs = 0

    def add(key, msg, wit, line=0):
        if key not in findings:
            findings[key] = dict(message=msg, witness=wit, line=line, count=0)
        findings[key]["count"] += 1

    for s_given in (True, False):
        for n_given in (True, False):
            for zero in (False, True):
                syms = ["lo", "hi", "i"] + (["S"] if s_given else []) + (["N"] if n_given else []) + (["0"] if zero else [])
                cons = [("lo", 0, "<=", "i", 0), ("i", 0, "<=", "hi", 0)]
                try:
                    for ot in enumerate_order_types(syms, cons, 1):
                        n_ot += 1

                        def once(ch, ot=ot):
                            w = DagWorld(functions, ch, ot)
                            ip = Interp(w, ot, max_depth=3)
                            env = {"G": GraphV(), "u": NodeV("U"), "v": NONE, "start": Int("S") if s_given else NONE,
                                   "end": Int("N") if n_given else NONE}
                            try:
                                return ("returned", ip.call_function(fn, env), w)
                            except StopPrefix as sp:
                                return ("loop", sp, w)
                            except AbstractRaise as r:
                                return ("raise", r, w)
                        for ch, (kind, val, w_) in run_all_choices(once, max_runs=64):
                            n_runs += 1
                            for (which, what, line) in getattr(w_, "kind_confusions", []):
                                add("time-as-position:%s" % which, "the snapshot id %s is used as the %s position of a slice of the id list: "
                                    "ids are times, not list positions" % (what, which), "start %s, end %s | order: %s" % (
                                        "given" if s_given else "None", "given" if n_given else "None", ot.describe()), line)
                            wit = "start %s, end %s | order: %s%s" % ("given (S)" if s_given else "None", "given (N)" if n_given else "None",
                                                                     ot.describe(), (" | " + ", ".join("%s=%s" % kv for kv in ch.items())) if ch else "")
                            empty = ch.get("no-snapshots", False)
                            S = ("S", 0) if s_given else ("lo", 0)
                            N = ("N", 0) if n_given else ("hi", 0)
                            c = ot.cmp_terms
                            if empty:
                                if kind != "returned":
                                    add("empty-graph", "a graph without snapshots must yield an empty DAG, the code %s" % (
                                        "raises %s" % val.exc if kind == "raise" else "goes on"), wit)
                                continue
                            valid = c(("lo", 0), S, "<=") and c(S, N, "<=") and c(N, ("hi", 0), "<=")
                            if kind == "raise":
                                if valid or val.exc != "ValueError" or not val.explicit:
                                    add("guard:%s" % ("spurious" if valid else val.exc), "temporal_dag raises %s for %s window" % (
                                        val.exc, "a valid" if valid else "an invalid"), wit, getattr(val.node, "lineno", 0))
                                continue
                            if not valid:
                                add("guard:accepts-invalid-window", "a window that is not inside [first id, last id] (or has start > end) "
                                    "is accepted instead of raising ValueError", wit)
                                continue
                            if kind == "returned":
                                add("no-expansion", "temporal_dag returns without iterating the snapshot ids of the window", wit)
                                continue
                            ids = val.ids
                            if not ids.sorted:
                                add("ids-unsorted", "the frontier loop iterates %s: the ids are not in ascending order, so hops would not "
                                    "run forward in time" % ids.note, wit, val.tid_target.lineno)
                            want = c(S, ("i", 0), "<=") and c(("i", 0), N, "<=")
                            got = True if ids.included is None else ids.included
                            if got != want:
                                rel = "i>end" if c(("i", 0), N, ">") else ("i<start" if c(("i", 0), S, "<") else "i-in-window")
                                add("window:%s:%s" % ("includes" if got else "drops", rel),
                                    "the expansion loop %s the snapshot id i although %s" % (
                                        "visits" if got else "skips", "it lies outside [start, end]" if got else "it lies inside [start, end]"),
                                    wit, val.tid_target.lineno)
                    break
                except NeedZero:
                    if zero:
                        raise
    for k, f in sorted(findings.items()):
        rep.finding("O.temporal_dag.window", construct, k, f["message"] + " [%d abstract runs]" % f["count"], witness=f["witness"], line=f["line"])
    rep.ob("O.temporal_dag.window", construct, "defaults, ValueError guard and id window decided on %d order types" % n_ot, ok=not findings)
    rep.stats["abstract_runs"] = rep.stats.get("abstract_runs", 0) + n_runs
    rep.stats["order_types"] = rep.stats.get("order_types", 0) + n_ot
    rep.sample(dict(engine="O", function=construct, symbols=["S(start)", "N(end)", "lo(first id)", "hi(last id)", "i(generic id)"],
                    order_types=n_ot, runs=n_runs))
    return n_ot


# ---------------------------------------------------------------------------------------
# hop discipline of temporal_dag / time_respecting_paths (C12 narrow clauses, C15 coupling)
# ---------------------------------------------------------------------------------------
def _calls(fn, attr):
    return [c for c in walk_no_nested(fn) if isinstance(c, ast.Call) and isinstance(c.func, ast.Attribute) and c.func.attr == attr]


def _with_helpers(repo, fn, depth=2):
    """fn plus the module-level helpers it calls (by name), transitively to a small depth."""
    funcs = repo.functions(PATHS)
    out, seen, frontier = [fn], {fn.name}, [fn]
    for _ in range(depth):
        nxt = []
        for f in frontier:
            for c in ast.walk(f):
                if isinstance(c, ast.Call) and isinstance(c.func, ast.Name) and c.func.id in funcs and c.func.id not in seen:
                    seen.add(c.func.id)
                    out.append(funcs[c.func.id])
                    nxt.append(funcs[c.func.id])
        frontier = nxt
    return out


def _unknown(rule, construct, what):
    raise AnalysisError("%s at %s: %s - the shape of the code is not one this rule can judge" % (rule, construct, what))


def check_path_discipline(repo: Repo, rep: Report, which=("dag", "paths")):
    n = 0
    if "dag" in which:
        fn = repo.get(PATHS, "temporal_dag")
        construct = repo.construct(PATHS, "temporal_dag")
        loops = [l for l in walk_no_nested(fn) if isinstance(l, ast.For) and isinstance(l.iter, ast.Name) and isinstance(l.target, ast.Name)]
        main = next((l for l in loops if any(isinstance(c, ast.Call) and isinstance(c.func, ast.Attribute) and c.func.attr == "neighbors"
                                             for c in ast.walk(l))), None)
        if main is None:
            raise AnalysisError("temporal_dag: the per-snapshot expansion loop was not found")
        tid = main.target.id
        # coupling: neighbours are asked at the loop's snapshot, occurrences are stamped with it
        for c in [c for c in ast.walk(main) if isinstance(c, ast.Call) and isinstance(c.func, ast.Attribute) and c.func.attr == "neighbors"]:
            n += 1
            targ = c.args[1] if len(c.args) > 1 else next((k.value for k in c.keywords if k.arg == "t"), None)
            ok = isinstance(targ, ast.Name) and targ.id == tid
            rep.ob("S.dag.coupling", construct, "neighbors(.., %s) asked at the loop's snapshot" % tid, ok=ok)
            if not ok:
                rep.finding("S.dag.coupling", construct, "neighbors-time", "the neighbours of a frontier node are asked at %s, not at the "
                            "snapshot id of the iteration (%s): hops would carry a time at which the interaction need not exist" % (
                                src(targ) if targ is not None else "no time", tid), line=c.lineno)
        stamps = [j for j in ast.walk(main) if isinstance(j, ast.JoinedStr)]
        for j in stamps:
            names = [v.value.id for v in j.values if isinstance(v, ast.FormattedValue) and isinstance(v.value, ast.Name)]
            if len(names) == 2:
                n += 1
                ok = names[1] == tid
                rep.ob("S.dag.coupling", construct, "occurrence %s stamped with %s" % (src(j), tid), ok=ok)
                if not ok:
                    rep.finding("S.dag.coupling", construct, "stamp-time", "an occurrence name is stamped with %s instead of the iteration's "
                                "snapshot id" % names[1], line=j.lineno)
        # exact matching of occurrence names
        for c in ast.walk(fn):
            if isinstance(c, ast.Call) and isinstance(c.func, ast.Attribute) and c.func.attr in ("startswith", "endswith", "find", "index", "count"):
                if c.func.attr in ("index", "count") and not (c.args and isinstance(c.args[0], (ast.JoinedStr, ast.Call))):
                    continue
                n += 1
                rep.ob("S.dag.exact", construct, "occurrence names matched exactly", ok=False)
                rep.finding("S.dag.exact", construct, "prefix-match:%s" % c.func.attr,
                            "%s matches occurrence names by %s: the label of one node can be a prefix of another's (1 / 10, 'A' / 'AB'), so "
                            "targets would contain occurrences of other nodes" % (src(c)[:60], c.func.attr), line=c.lineno)
        n += 1
        rep.ob("S.dag.exact", construct, "no prefix / substring matching of occurrence names", ok=True)
        # expiry decided by the (out-)neighbourhood at the snapshot, not by has_node / degree
        for c in ast.walk(main):
            if isinstance(c, ast.Call) and isinstance(c.func, ast.Attribute) and c.func.attr in ("has_node", "degree", "in_degree", "nodes",
                                                                                             "predecessors", "in_interactions"):
                n += 1
                rep.ob("S.dag.expiry", construct, "frontier decisions use neighbors(.., tid) only", ok=False)
                rep.finding("S.dag.expiry", construct, "expiry-by-%s" % c.func.attr,
                            "the expansion loop consults %s: on a directed graph that also counts incoming interactions, so an occurrence that can "
                            "no longer move forward would be kept waiting" % src(c)[:50], line=c.lineno)
        # some branch taken exactly when the neighbour set of the snapshot is empty must retire the occurrence
        n += 1
        nb_names = set()
        for a in ast.walk(main):
            if isinstance(a, ast.Assign) and any(isinstance(c, ast.Call) and isinstance(c.func, ast.Attribute) and c.func.attr == "neighbors"
                                                 for c in ast.walk(a.value)):
                nb_names |= {t.id for t in a.targets if isinstance(t, ast.Name)}
        def empties(test):
            t = src(test).replace(" ", "")
            return any(("len(%s)==0" % nm) in t or ("not%s" % nm) in t.replace("(", "").replace(")", "") or ("notlen(%s)" % nm) in t
                       for nm in nb_names)
        def retires(body):
            for st in body:
                for c in ast.walk(st):
                    if isinstance(c, ast.Call) and isinstance(c.func, ast.Attribute) and c.func.attr in ("append", "add", "pop", "discard") \
                            and isinstance(c.func.value, ast.Name) and ("remove" in c.func.value.id or "expire" in c.func.value.id or c.func.value.id == "active"):
                        return True
                    if isinstance(c, ast.Delete):
                        return True
            return False
        guarded = [i for i in ast.walk(main) if isinstance(i, ast.If) and empties(i.test) and retires(i.body)]
        used_bad = any(isinstance(c, ast.Call) and isinstance(c.func, ast.Attribute) and c.func.attr in ("has_node", "degree", "in_degree")
                       for c in ast.walk(main))
        if guarded:
            rep.ob("S.dag.expiry", construct, "an occurrence without neighbour at the snapshot expires", ok=True)
        elif used_bad:
            rep.ob("S.dag.expiry", construct, "expiry by emptiness of neighbors(.., tid)", ok=False)    # reported above
        else:
            _unknown("S.dag.expiry", construct, "no branch on the emptiness of the neighbour set that retires the occurrence was recognised")
    if "paths" in which:
        fn = repo.get(PATHS, "time_respecting_paths")
        construct = repo.construct(PATHS, "time_respecting_paths")
        # presence-at-start guard
        n += 1
        first = [s for s in fn.body if not (isinstance(s, ast.Expr) and isinstance(s.value, ast.Constant))][0]
        ok = isinstance(first, ast.If) and "has_node(u, start)" in src(first.test) and isinstance(first.test, ast.UnaryOp) \
            and any(isinstance(b, ast.Return) for b in first.body)
        rep.ob("S.paths.start", construct, "returns nothing when u is absent at start", ok=ok)
        if not ok:
            rep.finding("S.paths.start", construct, "no-start-guard", "time_respecting_paths does not first check that u is present at start", line=fn.lineno)
        # equal-time and reversal filter on consecutive hops
        scope = _with_helpers(repo, fn)
        cmps = [c for f in scope for c in ast.walk(f) if isinstance(c, ast.Compare) and len(c.ops) == 1 and isinstance(c.left, ast.Subscript)
                and isinstance(c.comparators[0], ast.Subscript) and isinstance(c.left.value, ast.Name) and isinstance(c.comparators[0].value, ast.Name)
                and c.left.value.id != c.comparators[0].value.id]
        def idx(s):
            return const_value(s.slice)
        time_eq = [c for c in cmps if idx(c.left) in (2, -1) and idx(c.comparators[0]) in (2, -1) and isinstance(c.ops[0], (ast.Eq, ast.GtE, ast.LtE))]
        rev = [c for c in cmps if {idx(c.left), idx(c.comparators[0])} == {0, 1} and isinstance(c.ops[0], ast.Eq)]
        n += 2
        if not time_eq and not rev:
            _unknown("S.paths.filter", construct, "the hop filter (reversal / equal-time tests on consecutive hops) was not recognised")
        rep.ob("S.paths.filter", construct, "consecutive hops with equal times are rejected", ok=bool(time_eq))
        if not time_eq:
            # the filter is there (it tests reversals) but never looks at the times
            rep.finding("S.paths.filter", construct, "no-equal-time-filter", "the hop filter tests reversals but never compares the times of two "
                        "consecutive hops: a path whose consecutive hops share an instant (times not strictly increasing) would be returned",
                        line=fn.lineno)
        rep.ob("S.paths.filter", construct, "immediate reversals are rejected", ok=len(rev) >= 2)
        if len(rev) < 2:
            rep.finding("S.paths.filter", construct, "no-reversal-filter", "the hop filter compares times but has no test that a hop does not "
                        "immediately reverse the previous one", line=fn.lineno)
        # non-empty before keying (P4) and the key (first source, last destination)
        tuples = [t for f in scope for t in ast.walk(f) if isinstance(t, ast.Tuple) and len(t.elts) == 2
                  and all(isinstance(e, ast.Subscript) and isinstance(e.value, ast.Subscript) for e in t.elts)]
        n += 1
        good = [t for t in tuples if src(t.elts[0]).endswith("[0][0]") and src(t.elts[1]).endswith("[-1][1]")]
        if good:
            rep.ob("S.paths.key", construct, "paths keyed by (first source, last destination)", ok=True)
        elif tuples:
            rep.ob("S.paths.key", construct, "paths keyed by (first source, last destination)", ok=False)
            rep.finding("S.paths.key", construct, "key", "paths are grouped under %s, expected (first hop's source, last hop's destination)" % src(tuples[0]),
                        line=tuples[0].lineno)
        else:
            _unknown("S.paths.key", construct, "the grouping key of the returned paths was not recognised")
        n += 1
        import re as _re
        guards = [c for f in scope for c in ast.walk(f) if isinstance(c, ast.Compare) and _re.fullmatch(r"len\(\w+\)(>0|>=1|!=0)", src(c).replace(" ", ""))]
        truthy = [i for f in scope for i in ast.walk(f) if isinstance(i, (ast.If, ast.IfExp, ast.comprehension)) and _re.search(
            r"(^|and |if )(\w+)$|(\w+) and ", src(i.test) if not isinstance(i, ast.comprehension) else " ".join(src(x) for x in i.ifs) or "-")]
        ok = bool(guards or truthy)
        rep.ob("P4.nonempty", construct, "empty hop lists are not kept", ok=ok)
        if not ok:
            rep.finding("P4.nonempty", construct, "empty-path-kept", "a zero-hop path (source occurrence that is also a target) is not filtered out "
                        "before being keyed by its first hop", line=fn.lineno)
        n += 1
        dd = "dict.fromkeys" in src(fn) or "set(" in src(fn)
        rep.ob("S.paths.dedup", construct, "duplicates removed (dict.fromkeys over tuples)", ok=dd)
        if not dd:
            rep.finding("S.paths.dedup", construct, "no-dedup", "returned paths are not de-duplicated", line=fn.lineno)
    return n
