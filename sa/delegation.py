"""Bulk helpers delegate to add_interaction (C01 vi, C07 prefix semantics).

``add_interactions_from``, ``add_path``, ``add_star``, ``add_cycle`` (methods of both
classes and the functional forms in classes/function.py) are interpreted abstractly
with a symbolic node list N1..Nk (k = 0..4) and the calls that reach
``add_interaction`` are recorded instead of being followed.  The record must be
exactly the pair sequence of the idiom, each call receiving the caller's t (the
*same integer term*, not a list built once and shared between pairs) and e, in
order, one call per pair, with nothing written and nothing caught in between - so
that a failure of one element leaves exactly the state after the preceding ones.
"""
from __future__ import annotations
import ast
from .core import Repo, CLASSES, FUNCTION, AnalysisError
from .ordertype import OrderType
from .absint import (Interp, Int, Const, NONE, NodeV, SelfV, TupleV, ListObj, DictObj, AbstractRaise, Unsupported,
                     BoundMethod, Opaque, run_all_choices)
from .world_graph import GraphWorld, bind_args


class GraphParam:
    """A graph passed as parameter G to a function.py helper (dispatches to a class)."""

    def __init__(self, cls):
        self.cls = cls

    def __repr__(self):
        return "G:%s" % self.cls


class DelegWorld(GraphWorld):
    """Graph state around a bulk helper: every fact about the nodes / pairs it might look at is a choice,
    stored values it might read are opaque and comparisons with them are choices too."""

    def __init__(self, cfg, ot, choices, methods):
        super().__init__(cfg, ot, choices, methods)
        self.calls = []
        self.nopaque = 0

    def node_exists(self, role):
        if self.node_created.get(role):
            return True
        return self.choose(("node_exists", role))

    def pair_exists(self, store, r1, r2):
        if not (self.node_exists(r1) and self.node_exists(r2)):
            return False
        key = (r1, r2) if self.directed else tuple(sorted((r1, r2)))
        return self.choose(("pair_exists", key))

    def pair_dict(self, store, r1, r2, node):
        if not self.pair_exists(store, r1, r2):
            raise AbstractRaise("KeyError", node, detail="no adjacency entry")
        return Opaque("stored")

    def load_subscript(self, ip, obj, key, node):
        if isinstance(obj, Opaque):
            return Opaque("stored")
        return super().load_subscript(ip, obj, key, node)

    def compare(self, ip, a, sym, b, node):
        if isinstance(a, NodeV) and isinstance(b, NodeV) and sym in ("<", "<=", ">", ">="):
            # nothing is known about how two node ids compare: both orders are explored
            if a.role == b.role:
                return sym in ("<=", ">=")
            lo, hi = sorted((a.role, b.role))
            lt = self.choose(("node-order", lo, "<", hi))
            a_lt_b = lt if a.role == lo else not lt
            return a_lt_b if sym in ("<", "<=") else not a_lt_b
        if isinstance(a, Opaque) or isinstance(b, Opaque):
            self.nopaque += 1
            return self.choose(("opaque_compare", getattr(node, "lineno", 0), getattr(node, "col_offset", 0), self.nopaque))
        return None

    def load_attr(self, ip, obj, attr, node):
        if isinstance(obj, GraphParam):
            return BoundMethod(SelfV(), attr)
        if isinstance(obj, SelfV) and attr == "edge_removal":
            # the helper must behave the same on removal-enabled and accumulative graphs
            return Const(self.choose("edge_removal"))
        return super().load_attr(ip, obj, attr, node)

    def call_method(self, ip, obj, name, args, kwargs, node):
        if isinstance(obj, SelfV) and name == "add_interaction":
            fn = self.methods.get("add_interaction")
            env = bind_args(fn, [SelfV()] + list(args), kwargs, ip, node)
            self.calls.append((env["u"], env["v"], env["t"], env["e"], bool(self.effects), ip.in_try))
            return NONE
        return super().call_method(ip, obj, name, args, kwargs, node)


class TryTrackingInterp(Interp):
    in_try = 0

    def exec_try(self, st, env):
        self.in_try += 1
        try:
            return super().exec_try(st, env)
        finally:
            self.in_try -= 1


def expected_pairs(kind, nodes):
    if kind == "from":
        return None
    if kind == "path":
        return list(zip(nodes[:-1], nodes[1:]))
    if kind == "star":
        return [(nodes[0], n) for n in nodes[1:]]
    if kind == "cycle":
        return list(zip(nodes, nodes[1:] + nodes[:1]))
    raise ValueError(kind)


HELPERS = [("add_interactions_from", "from"), ("add_path", "path"), ("add_star", "star"), ("add_cycle", "cycle")]


def check_delegation(repo: Repo, add):
    """add(clause, construct, key, message, witness, line) reports a finding. Returns number of instances."""
    n_inst = 0
    samples = []
    targets = []
    for cls, rel in CLASSES.items():
        methods = repo.class_methods(rel, cls)
        for name, kind in HELPERS:
            if name in methods:
                targets.append((rel, cls + "." + name, methods[name], kind, cls, True))
            elif name == "add_interactions_from":
                raise AnalysisError("anchor vanished: %s.%s" % (cls, name))
    for name, kind in HELPERS[1:]:
        fn = repo.get(FUNCTION, name)
        for cls in CLASSES:
            targets.append((FUNCTION, name, fn, kind, cls, False))
    for rel, qual, fn, kind, cls, is_method in targets:
        construct = repo.construct(rel, qual) + ("" if is_method else "[G:%s]" % cls)
        methods = repo.class_methods(CLASSES[cls], cls)
        params = [a.arg for a in fn.args.args]
        for has_e in (False, True):
            if "e" not in params and has_e:
                continue
            for k in ((0, 1, 2, 3) if kind == "from" else (1, 2, 3, 4)):
                n_inst += 1
                nodes = [NodeV("N%d" % i) for i in range(1, k + 1)]
                if kind == "from":
                    seq = ListObj([TupleV([NodeV("A%d" % i), NodeV("B%d" % i)]) for i in range(1, k + 1)])
                    want = [(p.items[0], p.items[1]) for p in seq.items]
                else:
                    seq = ListObj(list(nodes))
                    want = expected_pairs(kind, nodes)
                ot = OrderType([["s"]] if not has_e else [["s"], ["E"]], [] if not has_e else [1], 2)
                cfg = dict(cls=cls, directed=cls == "DynDiGraph", removal=True, exists=False)
                wit = "%s(%s, t=s%s) with %d element(s)" % (qual, "ebunch" if kind == "from" else "nodes",
                                                            ", e=E" if has_e else "", k)

                def once(ch, seq=seq):
                    w = DelegWorld(cfg, ot, ch, methods)
                    ip = TryTrackingInterp(w, ot)
                    env = {}
                    for p in params:
                        if p == "self":
                            env[p] = SelfV()
                        elif p == "G":
                            env[p] = GraphParam(cls)
                        elif p in ("ebunch", "nodes"):
                            env[p] = ListObj(list(seq.items))
                        elif p == "t":
                            env[p] = Int("s")
                        elif p == "e":
                            env[p] = Int("E") if has_e else NONE
                        else:
                            raise AnalysisError("%s: unmodelled parameter %s" % (construct, p))
                    if fn.args.kwarg:
                        env[fn.args.kwarg.arg] = DictObj()
                    try:
                        ip.call_function(fn, env)
                        return w, None
                    except AbstractRaise as r:
                        return w, r
                for ch, (w, r) in run_all_choices(once, max_runs=512):
                  if r is not None:
                    if kind != "from" and k == 0:
                        continue
                    if r.explicit:
                        add("C07.bulk", construct, "helper-raises:%s" % r.exc,
                            "%s raises %s itself after %d of %d elements were applied: the state after a failure must "
                            "be the state after the preceding elements, which only add_interaction's own rejection "
                            "guarantees" % (qual, r.exc, len(w.calls), k), wit, getattr(r.node, "lineno", 0))
                    else:
                        add("C01.bulk", construct, "raises:%s" % r.exc, "%s raises %s (%s)" % (qual, r.exc, r.detail), wit,
                            getattr(r.node, "lineno", 0))
                    continue
                  self_check(add, construct, qual, kind, k, has_e, w, want, wit, samples)

        # missing t must be rejected before anything else
        if "t" in params:
            defaults = dict(zip(params[len(params) - len(fn.args.defaults):], fn.args.defaults))
            ot = OrderType([], [], 2)
            cfg = dict(cls=cls, directed=cls == "DynDiGraph", removal=True, exists=False)
            n_inst += 1

            def once_missing(ch):
                w = DelegWorld(cfg, ot, ch, methods)
                ip = TryTrackingInterp(w, ot)
                env = {}
                for p in params:
                    env[p] = {"self": SelfV(), "G": GraphParam(cls), "t": NONE, "e": NONE}.get(p)
                    if p in ("ebunch", "nodes"):
                        env[p] = ListObj([TupleV([NodeV("A1"), NodeV("B1")])]) if kind == "from" else ListObj(
                            [NodeV("N1"), NodeV("N2")])
                if fn.args.kwarg:
                    env[fn.args.kwarg.arg] = DictObj()
                try:
                    ip.call_function(fn, env)
                    return w, None
                except AbstractRaise as r:
                    return w, r
            for ch, (w, r) in run_all_choices(once_missing, max_runs=256):
                if r is None:
                    # reaching add_interaction with t=None is fine: it rejects (decided by the merge check)
                    if not all(isinstance(c[2], Const) and c[2].v is None for c in w.calls) or not w.calls:
                        add("C01.bulk", construct, "missing-t-not-rejected",
                            "%s with t=None neither raises nor forwards None to add_interaction" % qual, "t=None")
                    if w.effects:
                        add("C07.bulk", construct, "missing-t-after-work",
                            "%s writes graph state (%s) although the missing t makes the call fail" % (qual, w.effects[0][0]),
                            "t=None", w.effects[0][1])
                else:
                    if r.exc != "NetworkXError":
                        add("C01.bulk", construct, "missing-t:%s" % r.exc, "%s with t=None raises %s" % (qual, r.exc), "t=None")
                    if w.effects or w.calls:
                        add("C07.bulk", construct, "missing-t-after-work",
                            "%s changes the graph (%s) before rejecting the missing t" % (
                                qual, w.effects[0][0] if w.effects else "add_interaction calls"), "t=None",
                            w.effects[0][1] if w.effects else 0)
    return n_inst, samples


def self_check(add, construct, qual, kind, k, has_e, w, want, wit, samples):
    got = w.calls
    if w.effects:
        add("C07.bulk", construct, "writes-state-itself",
            "the helper writes graph state itself (%s) instead of only delegating" % (w.effects[0][0],), wit,
            w.effects[0][1])
    if any(c[5] for c in got):
        add("C07.bulk", construct, "call-inside-try",
            "add_interaction is called inside a try block: a failing element would not stop the bulk update", wit)
    pairs = [(c[0], c[1]) for c in got]
    if pairs != want:
        add("C01.bulk", construct, "pairs:%s" % kind,
            "reaches add_interaction with pairs %s, the %s idiom requires %s" % (pairs, kind, want), wit)
        return
    for (u, v, t, e, _, _) in got:
        if not (isinstance(t, Int) and t.term() == ("s", 0)):
            add("C01.bulk", construct, "t-not-forwarded",
                "add_interaction receives t=%r instead of the caller's t (a list built once would be "
                "shared by all pairs of the call)" % (t,), wit)
            break
        exp_e = Int("E") if has_e else NONE
        if not ((isinstance(e, Int) and isinstance(exp_e, Int) and e.term() == exp_e.term()) or
                (isinstance(e, Const) and e.v is None and not has_e)):
            add("C01.bulk", construct, "e-not-forwarded",
                "add_interaction receives e=%r instead of the caller's e" % (e,), wit)
            break
    if len(samples) < 3 and k == 3:
        samples.append(dict(helper=construct, calls=[repr(c[:4]) for c in got]))
